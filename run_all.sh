#!/bin/sh
# run every registered check (quick by default) in parallel and summarise exit codes
tier=${1:-quick}
cd "$(dirname "$0")"
ids=$(python3 -c "import json;print(' '.join(c['property_id'] for c in json.load(open('MANIFEST.json'))['checks']))")
for id in $ids; do ( ./check $id --tier $tier > /tmp/.runall_$id.out 2>&1; echo "$id exit=$? $(grep -c KNOWN-FINDING /tmp/.runall_$id.out) known $(grep -c '^VIOLATION' /tmp/.runall_$id.out) violations" ) & done; wait
