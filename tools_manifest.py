#!/usr/bin/env python3
"""developer helper (not a check): regenerate MANIFEST.json from the table below."""
import json
import os

HERE = os.path.dirname(os.path.abspath(__file__))

CLAIMED = {
    # id: (technique, level text, level note, design ref)
    "C01": ("dispatch-table exhaustiveness over the class hierarchy; def-use rules on the SQL generator (pruning source, group keys, merge guard, cache key); catalogue resolution through the modelled expr_to_sql lookup with template folding and a three-valued SQL evaluator; paired-field rewrite rule (ast)",
            "Necessary structural conditions of SQLite/Pandas agreement: exhaustive node dispatch in all three back ends; SQL "
            "pruning from the node's own used-columns report; aggregations keep group keys and stay aggregating; extend-merge "
            "guard/dependencies/cache key complete; every catalogue row marked y for SQLite resolves to a formatter, operator or "
            "existing/registered function of the right meaning with correct null truth tables; SQLite join rewrites keep keys paired.",
            "Trusted: SQLite built-in list, meaning vocabulary, registration meanings (sa/facts.py); the expr_to_sql lookup model is "
            "checked against the code's shape. Not decided: that the emitted SQL means the pipeline on data.",
            "DESIGN.md 6/C01"),
    "C02": ("the C05/C04/C16/C10/C09 rule engines evaluated under the PostgreSQL configuration (formatters, replacements, constructor constants read from PostgreSQL.py); frozen PostgreSQL vocabulary (ast)",
            "Every catalogue row marked y for PostgreSQL resolves to PostgreSQL vocabulary with the admissible spelling (LN, "
            "STDDEV_SAMP, VAR_SAMP, BIGINT ...), null truth tables hold, join keywords are PostgreSQL syntax; the CTE-elimination "
            "and WITH re-wrap paths (live for PostgreSQL) are coherent; native RIGHT/FULL joins use the checked shared generator.",
            "Trusted: PostgreSQL 16 function/type/join vocabulary (sa/facts.py). No server is run. Not decided: value-level equality.",
            "DESIGN.md 6/C02"),
    "C05": ("catalogue-to-implementation resolution per back end (dict-literal tables, modelled lookup order), string-template folding + three-valued SQL evaluation of null truth tables, contract-vs-primitive table (ast)",
            "All 124 catalogue rows x {Pandas, SQLite, PostgreSQL} marked y resolve to an implementation of the right meaning; "
            "the SQL templates of maximum/minimum/fmax/fmin/if_else/where/coalesce/is_null equal their documented null contracts "
            "on {NULL, lo, hi}^n in every SQL dialect checked; the Pandas/Polars bindings match the null behaviour of the numpy/"
            "polars primitive they use.",
            "Trusted: dialect vocabularies, numpy/polars null semantics, pandas/numpy name lists (sa/facts.py). "
            "Not decided: numerical meaning of the other methods, NaN/inf corners.",
            "DESIGN.md 6/C05"),
    "C13": ("table comparison against Python's operator/special-method and precedence tables; grammar constant loaded with lark as data (rule graph, operator sets per level); AST shape rules on the tree walker (ast + lark)",
            "op_remap/factor_remap equal Python's operator→special-method table; token→Term method→Expression op round-trips and "
            "reflected methods swap operands; the grammar's fall-through chain test…atom and the operator set of each level equal "
            "Python's (incl. right-associative ** binding tighter than unary minus); the walker folds left, keeps and/or n-ary, "
            "turns chained comparisons into conjunctions and applies unary operators to the right operand.",
            "Trusted: Python language reference tables (DESIGN.md 3.1). Not decided: value equality with Python on operands.",
            "DESIGN.md 6/C13"),
    "C16": ("join-type vocabulary tables per back end; paired-field rewrite rule; coalesce-direction and ON-pairing by template/AST shape with polarity from `left_is_first`; third-party null-key contracts (ast)",
            "Each accepted join type maps to the same join in Pandas, Polars and SQL (deviations are listed findings); a rewrite "
            "that swaps a join node's sources swaps on_a/on_b; shared non-key columns take the left value first in all three "
            "back ends and ON pairs on_a[i] with on_b[i]; Pandas' suffixed-twin clean-up is decided on key pairs.",
            "Trusted: pandas.merge / polars.join / SQL null-key contracts (DESIGN.md 3.2). Six known findings. "
            "Not decided: duplicate-key multiplicities and all value-level behaviour.",
            "DESIGN.md 6/C16"),
    "C04": ("def-use classification of stores into existing NearSQL objects + post-dominance of the cache-key update; value-kind dataflow for the None guard of the CTE cache; emitter/re-wrap field matrix; syntactic-context classification of every option read (ast)",
            "CTE-elimination cache key is coherent with step content (every redefinition of an existing step is followed by an "
            "ops_key update; keyless steps are never cached; key includes columns); the extend-merge guard and the declared "
            "dependencies of windowed terms are complete; to_with_form of each NearSQL kind forwards every field its emitter "
            "reads; each sql_format_options read sits in a layout-only context.",
            "Trusted: the table of layout-only option contexts. Not decided: that WITH form and nested form are equivalent SQL.",
            "DESIGN.md 6/C04"),
    "C09": ("def-use polarity of group keys in the SQL project generator, guard-dependency of the un-grouped case, third-party API contract (pandas groupby dropna) on every user-keyed groupby (ast)",
            "SQL: all group keys are selected and grouped, never filtered by the pruning set, an un-grouped project stays "
            "aggregating under pruning and the emitter never falls back to `*` while the step has terms; Pandas: every groupby "
            "on user keys keeps the null-key group; Polars: declared keys, one row for empty un-grouped input.",
            "Trusted: pandas/polars groupby null-key contracts (table 3.2 of DESIGN.md). Not decided: row counts on data.",
            "DESIGN.md 6/C09"),
    "C06": ("set-algebra entailment over the merge function (symbolic facts from guards on every CFG path) + def-use guard dependencies + delegation parameter coverage (ast)",
            "Decides the structural conditions under which the builder's simplifications preserve meaning: the extend-merge "
            "guard entails used(ops2) ∩ keys(ops1) = ∅ on every merged return path and ops2 is the last writer; the merged node "
            "is built only under equal window specs; every trivial-intermediate delegation forwards every builder parameter; "
            "collapse shortcuts validate first; only an un-limited order_rows is removable.",
            "Trusted: one extend evaluates all expressions on the incoming table (simultaneous assignment). "
            "Not decided: value-level equality of chained vs stepwise evaluation.",
            "DESIGN.md 6/C06"),
    "C10": ("abstract interpretation of columns_used_from_sources into set-algebra terms, evaluated on witness valuations per column-bearing field; def-use rule for SQL pruning (ast)",
            "For each of the 13 node kinds every symbolic return path of columns_used_from_sources, evaluated over witness "
            "tokens, contains every column an evaluator reads (window/group/join keys, decision columns, rename pre-images, "
            "op arguments, requested pass-through columns) positively and unconditionally; the DAG walk accumulates and "
            "recurses into every source; every SQL generator step prunes with the node's own report.",
            "Trusted: the witness tables (their completeness is checked against the constructors' column validations). "
            "Not decided: perturbation invariance of results on data.",
            "DESIGN.md 6/C10"),
    "C17": ("constructor-call binding, CFG ordering and def-use of the RecordMap wiring; sibling signature/return-shape comparison of the two data models (ast)",
            "inverse() exchanges blocks_in/blocks_out under the strictness assertion; transform() applies blocks→rows before "
            "rows→blocks, each under its own guard with its own field, chaining the result (same order and pairing in the SQL "
            "realisation); compose() applies `other` first; both data models implement the conversions with the abstract signature.",
            "Narrow claim: wiring only. Not decided: that pivot/unpivot are mutually inverse on data, Pandas/Polars agreement.",
            "DESIGN.md 6/C17"),
    "C18": ("index-clean typestate dataflow over the Pandas executor (producers/cleaners/preservers table); partial evaluation of direction flags; CFG ordering of sort and limit (ast)",
            "Every frame a Pandas step returns, every operand of a column-wise concat / positional attachment and every position "
            "capture is index-clean (necessary for row-order independence because results are re-attached by position); the "
            "direction flags of order_rows have the right polarity in all three back ends and iterate the sort keys; the limit is "
            "applied after the sort and keeps the first rows.",
            "Trusted: the pandas producer/cleaner/preserver table (sa/frames.py). Not decided: multiset invariance on data, ties.",
            "DESIGN.md 6/C18"),
    "C19": ("ownership / may-alias dataflow on the statement CFG with fresh-producer cut-offs; in-place effect catalogue (ast)",
            "No in-place effect reaches an alias of a caller-owned frame in the table-source steps, RecordMap.transform and the "
            "user entry points, and table steps return fresh frames; none of the ~60 executor / SQL-generator / expression-actor "
            "functions mutates the operator node it is handed (attribute store or in-place operation on an alias of a node field), "
            "and no node method other than __init__ stores into self.",
            "Trusted: the in-place effect catalogue (pandas/python mutators) and fresh-producer assumption for calls. "
            "Not decided: value-level repeatability (third-party determinism), dtype preservation.",
            "DESIGN.md 6/C19"),
    "C20": ("path enumeration over insert/execute of both data spaces with partial evaluation of branch conditions into overwrite/absence facts; dominance for store-after-success (ast CFG)",
            "Every store effect on the key->table binding (subscript stores, insert_table/create_table, model_table) is "
            "reached only on paths that established 'overwrite allowed' or 'key absent'; auto-generated keys pass a freshness "
            "test after their last assignment on every path; the binding is written only after the fallible operation; "
            "keys/retrieve/describe read the single binding.",
            "Trusted: the fact vocabulary (allow_overwrite, key in <binding>). Two store-order defects of DBSpace are known findings. "
            "Not decided: equivalence with a reference map over arbitrary histories.",
            "DESIGN.md 6/C20"),
    "C22": ("dominance/guard polarity on the statement CFG, flow-sensitive def-use for dead-store detection (ast)",
            "The check switch dominates every schema raise and every _check_spec call with the right polarity; TypeError is "
            "what is raised; wrapped_fn returns exactly the wrapped function's result with checks before and after; normalised "
            "set/dict specifications reach the returned value; null cells are never type-checked; missing args/columns are reported.",
            "Not decided: 'raises exactly when' over all value/spec combinations.",
            "DESIGN.md 6/C22"),
    "C24": ("def-use order-source analysis of the ordered helpers; effect analysis of OrderedSet.add on its single backing field (ast)",
            "ordered_intersect/ordered_diff iterate their first argument filtered by (non-)membership in the second; "
            "ordered_union/OrderedSet.union consume the first operand before the second and only add; add has exactly one "
            "keyed store effect on an insertion-ordered mapping; every observer uses that single field.",
            "Narrow claim. Not decided: equivalence with set over arbitrary operation sequences (MutableSet mixin operators).",
            "DESIGN.md 6/C24"),
    "C25": ("def-use completeness of the cache key and of the frame hash; copy-on-return/copy-on-store check (ast)",
            "The key depends on dialect, SQL text and for every table (unfiltered, sorted) its name and hash; the hash depends "
            "on shape, column names and a whole-frame, index-inclusive, order-sensitive content hash; get returns a copy and "
            "store keeps copies; both key through make_cache_key with their own arguments.",
            "Not decided: collision-freeness of the hash; equality of the returned copy on data.",
            "DESIGN.md 6/C25"),
    "C26": ("obligation table of documented construction rules: def-use guard dependencies of every raise, one-to-one matching of rules to raises, difference-direction check (ast)",
            "Each documented build-time rule (39 rows over the constructors/builders) is enforced by a raise whose own guard "
            "depends on the inputs the rule talks about, on the failing side of the test, not as a sub-case of another rule, "
            "and no two rules share a raise unless they share the tested set; checks survive the builder's simplifications; "
            "no exception is constructed without being raised.",
            "Trusted: the obligation table (DESIGN.md Appendix C). Not decided: that conforming steps are accepted; "
            "numeric thresholds inside guards.",
            "DESIGN.md 6/C26"),
    "C07": ("sibling-field coverage matrix + def-use slot binding + whole-package call-signature binding (ast)",
            "Decides structural necessary conditions of composition: replace_leaves of all 13 node kinds forwards every "
            "semantic field into the builder parameter that feeds it; every certainly-resolved call in the package binds "
            "to its callee's signature; >>/act_on wiring and boundary-column guards. Holds for every pipeline because it "
            "quantifies over code paths of the composition mechanism, not over sample pipelines.",
            "Trusted: derived/advisory field tables (sa/nodes.py), each derived row re-confirmed per run. "
            "Not decided: value-level equality of composed vs sequential results, associativity on data.",
            "DESIGN.md 6/C07"),
    "C11": ("path-sensitive field-coverage of equality methods on a statement CFG + overloaded-== belief check (ast)",
            "For every structural-equality method (ViewRepresentation.__eq__, 13 _equiv_nodes, 5 Term is_equal, "
            "RecordMap/RecordSpecification/DataOpArrow.__eq__): on every CFG path that can accept, every semantic field is "
            "compared or known None; comparisons are symmetric; no Python == over Term-valued containers.",
            "Trusted: semantic-field derivation (fields assigned in __init__ and read by an evaluator), exemption tables "
            "with reasons. Not decided: that equal fields give equal results for values Python's == conflates (1 == True).",
            "DESIGN.md 6/C11"),
    "C12": ("string-template folding of printers + def-use slot binding against builder signatures; CFG path rule for parenthesisation (ast)",
            "Every semantic field of every node kind is printed under the builder keyword that feeds it (and for "
            "RecordMap/RecordSpecification under the constructor keyword); every inline printing path of Expression.to_python "
            "honours want_inline_parens; literals printed with repr.",
            "Trusted: Python call syntax; builder->constructor->field feeding computed by def-use. "
            "Not decided: black formatting, pickling, result equality after rebuild.",
            "DESIGN.md 6/C12"),
    "C03": ("dispatch-table exhaustiveness; CFG dominance (found-or-raise) in the expression actor; sibling-table agreement of every Polars implementation entry with its operator key (method alias table, operator/operand-order match, arity vs constructible arities, when/then/otherwise truth-table evaluation); constant propagation of the join type through the join step; per-column direction flags; guard analysis of the coalesce (ast)",
            "Structural necessary conditions of Polars/Pandas agreement: every node kind has a Polars step that refuses other kinds; a failed "
            "expression lookup raises on every path and nothing but the implementation tables supplies the callable; each of ~165 table entries "
            "calls the Polars primitive / Python operator of the operator it is filed under with operands in order (if_else / where by 12-row "
            "truth tables); sort and window directions follow `reverse` per column; each of the six join types reaches the Polars join of that "
            "meaning with correctly paired key lists, and shared columns are coalesced left-first for every type; every step projects to the "
            "declared columns. Known findings: maximum/minimum null behaviour, full-join key columns.",
            "Trusted: Polars Expr method names mean what the Polars API documents (frozen alias table); API contracts in sa/facts.py. "
            "Not decided: numerical agreement of each primitive with numpy/pandas, dtypes, behaviour on the installed Polars version.",
            "DESIGN.md 6/C03"),
    "C08": ("edge-sensitive may-carry dataflow of scratch columns over the statement CFG (stores under non-operator names vs del/drop/re-selection kills); guard-matched select-after-with_columns; pairwise twin clean-up rule; def-use of select terms from `using` (ast)",
            "Structural necessary conditions of 'the result has exactly the declared columns': no Pandas step returns a frame that may "
            "still carry a column stored under an internal (non-operator) name; Polars steps that add temporaries re-select "
            "op.columns_produced() under the same guard and joins do so unconditionally; suffixed join twins are cleaned unless an "
            "equal-named key pair; every generated SQL step's select terms derive from the requested column set, the top-level call "
            "requests everything and select_columns orders terms by the declared selection.",
            "Trusted: pandas/polars column semantics of del/drop/loc/select/merge; sub-results satisfy the property (induction over the DAG). "
            "Not decided: column order where operators do not define it; zero-row corner cases; that declared == produced at run time.",
            "DESIGN.md 6/C08"),
    "C14": ("sink-driven backward slicing of SQL text (concatenation / f-string / join / comprehension / local defs / inlined helpers) to leaves, with demands propagated to NearSQL constructor keywords and call sites; dialect quoting tables; regex-constant coverage; CFG dominance for the cleaner (ast)",
            "Structural necessary conditions of 'literals and identifiers are carried verbatim': every leaf of every expression that becomes SQL "
            "text (emitters, formatter functions of all five dialects, NearSQL fields spliced verbatim, statements handed to the database) is a "
            "constant, number, dialect configuration, sanitiser result or checked generator output; no expression source is built from user "
            "strings; comment text is constant or cleaned of every line break; quote_string / quote_identifier / quote_table_name carry the "
            "text whole and cover the dialect's special characters (frozen table: 6 listed findings for MySQL/BigQuery/Spark); no "
            "string-inspecting rewrite is applied to assembled SQL.",
            "Trusted: the sanitisers' names as the only quoting points; dialect lexical facts frozen from the vendors' documentation; "
            "triaged exceptions listed with reasons (numeric limits, operator names, pre-rendered fragments). Not decided: well-formedness "
            "of whole queries, server-side Unicode handling, read-back equality on a live server.",
            "DESIGN.md 6/C14"),
    "C15": ("inventory of internal names in shared namespaces by name-position queries over the syntax tree (frame stores, alias / suffix keywords, CTE-capable view names) with a freshness-guard recogniser; name-pattern capture lint over column-name variables; distinctness of internal names (ast)",
            "Structural necessary conditions of naming independence: every internal column / view name that shares a namespace with user names "
            "is either made fresh against the user's names or is a listed finding (28 sites today, reproduced where the step runs here); "
            "no executor step chooses columns by the shape of their names (endswith / startswith / regex / substring); internal names and "
            "suffixes of one step cannot be confused with each other. A new unguarded internal name, or a renamed one, is reported.",
            "Trusted: CTE names, frame column keys, aliases and join suffixes are the shared namespaces. Not decided: invariance of the data "
            "under renaming at run time; names reserved by pandas / polars / the database.",
            "DESIGN.md 6/C15"),
    "C27": ("def-use consumption of partition_by/order_by/reverse by each window realisation; flag partial evaluation; CFG effect ordering; index-clean typestate; per-term window coverage (ast)",
            "In Pandas, Polars and SQL the window is defined from all of partition_by, order_by and reverse with partition keys ahead "
            "of order keys and the right polarity; the sort precedes the windowed computation; Pandas captures positions before the "
            "sort and restores them before re-attachment on clean frames; every produced term is computed inside the window; the "
            "null partition is kept.",
            "Trusted: pandas/polars API contracts. Not decided: per-row values of each window function.",
            "DESIGN.md 6/C27"),
}

NOT_APPLICABLE = {
    "C21": "Entirely value-level: what four helper pipelines compute on Pandas/SQLite (mean tie rank, LOCF, replication counts, "
           "mapped values). The helpers are straight-line pipeline constructions with no structural necessary condition a static "
           "rule could decide without executing them; executing them is a different technique.",
    "C23": "Inductive invariant of a union-by-size loop over arbitrary hashable vertices (label = least vertex of the component). "
           "Candidate syntactic rules would alarm on behaviour-preserving rewrites and miss wrong ones; no sound static argument in reach.",
}

ALL = [f"C{i:02d}" for i in range(1, 28)]


def main():
    checks = []
    for pid in ALL:
        if pid not in CLAIMED:
            continue
        tech, text, note, ref = CLAIMED[pid]
        checks.append({
            "property_id": pid,
            "quick_cmd": f"./check {pid} --tier quick",
            "thorough_cmd": f"./check {pid} --tier thorough",
            "evidence_file": f"/verif/evidence/{pid}.json",
            "replay_cmd_template": f"./check {pid} --replay {{path}}",
            "engine": "sa",
            "level_claimed": {"category": "other", "text": text, "design_ref": ref},
            "level_note": note + " The list of rules actually decided on a run (ids and what each requires) is in the evidence file under "
                                 "coverage.rules and, for the current tree, in the generated table of DESIGN.md 10.2; rules added after the defect-hunting "
                                 "and seeding rounds are listed there.",
            "technique": "static analysis: " + tech,
        })
    na = []
    for pid in ALL:
        if pid in CLAIMED:
            continue
        reason = NOT_APPLICABLE.get(pid, "not yet claimed: static rules for this property are still under construction "
                                         "(see DESIGN.md section 6 for the planned structural clauses)")
        na.append({"property_id": pid, "reason": reason})
    doc = {
        "version": 1,
        "setup_cmd": "true",
        "hooks": {
            "guard": "DATA_ALGEBRA_VERIF",
            "enable": "no hooks: the analysis parses /repo's working tree with ast and never executes the repository",
            "baseline_off_cmd": "cd /repo && /venv/bin/python -m pytest -ra -q -p no:cacheprovider --timeout=900 --continue-on-collection-errors",
            "source_commits": [],
            "add_only": True,
        },
        "engines": [
            {"name": "sa", "path": "/verif/sa",
             "serves_properties": sorted(CLAIMED),
             "kind_free_text": "repository-specific static analysis: program index (classes, MRO, dispatch tables), statement CFG "
                               "with dominators/paths, flow-sensitive def-use dependency closure, sibling-field coverage matrix, "
                               "call-signature binding, string-template folding; Python ast only, no execution of the repository"},
        ],
        "checks": checks,
        "not_applicable": na,
        "notes": "Exit protocol: 0 = all armed rule instances hold (known findings printed as KNOWN-FINDING), 1 + VIOLATION line = "
                 "unlisted violation, 2 + ANALYSIS-ERROR = the analyser could not decide (vanished anchor / unrecognised idiom). "
                 "python -m sa.selftest runs the checker self-test corpus (single-edit variants in scratch copies).",
    }
    with open(os.path.join(HERE, "MANIFEST.json"), "w") as fh:
        json.dump(doc, fh, indent=1)
    print(f"{len(checks)} checks, {len(na)} not_applicable")


if __name__ == "__main__":
    main()
