import pandas as pd, traceback, numpy as np
import data_algebra as da
from data_algebra.data_ops import descr, TableDescription
import data_algebra.SQLite, data_algebra.PostgreSQL, data_algebra.BigQuery, data_algebra.SparkSQL, data_algebra.MySQL
from data_algebra.sql_format_options import SQLFormatOptions
from data_algebra.cdata import *
from data_algebra.expr_parse_fn import eval_da_ops
d = pd.DataFrame({'a':[1,2],'x':[10,20],'y':[100,200],'g':['u','v']})
td = TableDescription(table_name='d', column_names=list(d.columns))
print("== D6 RecordMap eq")
m1 = unpivot_specification(row_keys=['a'], value_cols=['x','y'])
m2 = unpivot_specification(row_keys=['a'], value_cols=['x','g'])
print(m1 == m2, m1.columns_needed, m2.columns_needed)
print("== D7 neg pow")
ops = td.extend({'z': '(-x) ** 2'})
print(ops.ops['z'].to_python(), ops.transform(d)['z'].tolist())
ops2 = eval_da_ops(repr(ops), data_model_map=None)
print(ops2.ops['z'].to_python(), ops2.transform(d)['z'].tolist(), ops == ops2)
print("== D8 comparison chain")
try:
    ops = td.extend({'z': 'a < x < y'})
    print(ops.ops['z'].to_python(), ops.transform(d)['z'].tolist())
except Exception as e:
    traceback.print_exc()
ops = td.extend({'z': '2 ** 3 ** 2', 'w': '-2 ** 2', 'v':'a - x - y', 'u': 'a / x / y', 't': 'a - x + y'})
print({k: str(v.to_python()) for k,v in ops.ops.items()}); print(ops.transform(d))
print("== D9 quoting")
for M in [data_algebra.SQLite.SQLiteModel(), data_algebra.BigQuery.BigQueryModel(), data_algebra.SparkSQL.SparkSQLModel(), data_algebra.MySQL.MySQLModel(), data_algebra.PostgreSQL.PostgreSQLModel()]:
    print(M, M.quote_string('a\\'), M.quote_string('it\'s "q"'))
try:
    ops = td.concat_rows(td, a_name='x" + "y', b_name='b')
    print(ops.to_sql(data_algebra.SQLite.SQLiteModel()))
except Exception as e:
    print('concat label raise', type(e).__name__, e)
try:
    ops = td.concat_rows(td, a_name='it"s', b_name='b')
    print(ops.transform(d) if False else ops.eval({'d': d}))
    print(ops.to_sql(data_algebra.SQLite.SQLiteModel()))
except Exception as e:
    print('concat label raise', type(e).__name__, e)
