import pandas as pd
from data_algebra.data_ops import TableDescription
from data_algebra.expr_rep import d_, Value
td = TableDescription(table_name='d', column_names=['g','x'])
for nm, f in {
 'select_rows preterm unknown': lambda: td.select_rows(d_.zz > 1),
 'select_rows str unknown': lambda: td.select_rows('zz > 1'),
 'extend preterm unknown': lambda: td.extend({'y': d_.zz + 1}),
 'project unknown group': lambda: td.project({'y': 'x.sum()'}, group_by=['q']),
 'order unknown': lambda: td.order_rows(['q']),
 'extend partition unknown': lambda: td.extend({'y': 'x.sum()'}, partition_by=['q']),
 'extend reverse not in order': lambda: td.extend({'y': 'x.cumsum()'}, order_by=['x'], reverse=['g']),
 'project nonagg': lambda: td.project({'y': 'x + 1'}),
 'project complex': lambda: td.project({'y': '(x + 1).sum()'}),
 'extend window complex': lambda: td.extend({'y': '(x + 1).sum()'}, partition_by=['g']),
 'extend change partition': lambda: td.extend({'g': 'x.sum()'}, partition_by=['g']),
 'extend change order': lambda: td.extend({'x': 'x.cumsum()'}, order_by=['x']),
 'extend use produce': lambda: td.extend({'y': 'x + 1', 'z': 'y + 1'}),
 'concat diff cols': lambda: td.concat_rows(TableDescription(table_name='e', column_names=['g'])),
 'order_rows then select unknown': lambda: td.order_rows(['x']).select_columns(['q']),
 'order reverse not in order': lambda: td.order_rows(['x'], reverse=['g']),
 'order limit str': lambda: td.order_rows(['x'], limit='1; drop'),
}.items():
    try:
        r = f(); print(nm, '-> ACCEPTED')
    except Exception as e:
        print(nm, '->', type(e).__name__, str(e)[:80])
