import pandas as pd, traceback, numpy as np, polars as pl
import data_algebra as da
from data_algebra.data_ops import descr, TableDescription
import data_algebra.SQLite, data_algebra.polars_model
import data_algebra.test_util as tu
print("== D11 maximum/fmax nulls")
d = pd.DataFrame({'x':[1.0, None, 3.0, None], 'y':[2.0, 5.0, None, None]})
td = TableDescription(table_name='d', column_names=['x','y'])
ops = td.extend({'mx':'x.maximum(y)','fx':'x.fmax(y)','mn':'x.minimum(y)','fn':'x.fmin(y)'})
print('pandas'); print(ops.transform(d))
h = data_algebra.SQLite.example_handle(); h.insert_table(d, table_name='d')
print('sqlite'); print(h.read_query(ops))
print('polars'); print(ops.transform(pl.DataFrame(d)))
print("== if_else / where null cond")
d2 = pd.DataFrame({'c':[True, False, None], 'x':[1,2,3], 'y':[10,20,30]})
td2 = TableDescription(table_name='d2', column_names=['c','x','y'])
ops2 = td2.extend({'ie':'c.if_else(x,y)','wh':'c.where(x,y)'})
try:
    print('pandas'); print(ops2.transform(d2))
except Exception as e: print('pandas raise', e)
h.insert_table(d2, table_name='d2'); print('sqlite'); print(h.read_query(ops2))
try:
    print('polars'); print(ops2.transform(pl.DataFrame(d2)))
except Exception as e: print('polars raise', e)
print("== D14 dataspace auto key")
import data_algebra.data_model_space as dms, data_algebra.db_space as dbs
s = dms.DataModelSpace()
s.insert(key='da_temp_1', value=pd.DataFrame({'u':[1]}))
s.insert(value=pd.DataFrame({'v':[2]}))
print(s.keys(), s.retrieve('da_temp_1').columns.tolist())
s2 = dbs.DBSpace()
s2.insert(key='da_temp_1', value=pd.DataFrame({'u':[1]}))
s2.insert(value=pd.DataFrame({'v':[2]}))
print(s2.keys(), s2.retrieve('da_temp_1').columns.tolist())
print("== D15 schema set with example values")
from data_algebra.data_schema import SchemaRaises, _prep_schema_specification
print(_prep_schema_specification({1, 'a'}), _prep_schema_specification(1))
@SchemaRaises({'x': {1, 'a'}})
def f(x): return x
try:
    print(f(3))
except Exception as e: print('raise', type(e).__name__, e)
print("== D17 work_col_group_arg")
try:
    r = td.extend({'z':'x.max()'}, partition_by=2)
    print('accepted', r)
except Exception as e: print('raise', type(e).__name__, e)
