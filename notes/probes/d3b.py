import pandas as pd, traceback, numpy as np
import data_algebra as da
from data_algebra.data_ops import descr, TableDescription
import data_algebra.SQLite, data_algebra.PostgreSQL
from data_algebra.sql_format_options import SQLFormatOptions
d = pd.DataFrame({'a':[1,2,3],'x':[10,20,5],'g':['u','v','u']})
td = TableDescription(table_name='d', column_names=list(d.columns))
A = td.extend({'y': 'x + 1'})
B = A.extend({'w': 'x.max()'}, partition_by=['g'])
C = A.extend({'w': 'x.min()'}, partition_by=['g'])
L = B.rename_columns({'w1':'w'}).select_columns(['a','y','w1'])
R = C.rename_columns({'w2':'w', 'y2':'y'}).select_columns(['a','y2','w2'])
ops = L.natural_join(R, on=['a'], jointype='inner')
print(ops.transform(d))
pg = data_algebra.PostgreSQL.PostgreSQLModel()
sql_elim = pg.to_sql(ops, sql_format_options=SQLFormatOptions(use_cte_elim=True, annotate=False))
sql_plain = pg.to_sql(ops, sql_format_options=SQLFormatOptions(use_cte_elim=False, annotate=False))
print(sql_elim); print('-----'); print(sql_plain)
with data_algebra.SQLite.example_handle() as h:
    h.insert_table(d, table_name='d')
    try:
        print(h.read_query(sql_elim))
        print(h.read_query(sql_plain))
    except Exception as e:
        print('sqlite run fail', e)
