import pandas as pd, numpy as np, polars as pl
from data_algebra.data_ops import TableDescription
import data_algebra.SQLite, data_algebra.polars_model
d = pd.DataFrame({'g':['a',None,'a',None,'b'], 'x':[1,2,3,4,5]})
td = TableDescription(table_name='d', column_names=['g','x'])
h = data_algebra.SQLite.example_handle(); h.insert_table(d, table_name='d')
for nm, ops in {'project': td.project({'s':'x.sum()'}, group_by=['g']), 'extend': td.extend({'s':'x.sum()'}, partition_by=['g'])}.items():
    print('==', nm)
    try: print(ops.transform(d))
    except Exception as e: print('pandas raise', type(e).__name__, e)
    print(h.read_query(ops))
    try: print(ops.transform(pl.DataFrame(d)))
    except Exception as e: print('polars raise', type(e).__name__, e)
