import pandas as pd, numpy as np, polars as pl
from data_algebra.data_ops import TableDescription
import data_algebra.SQLite, data_algebra.polars_model
l = pd.DataFrame({'k':[1.0,2.0,None],'v':[10,20,30]})
r = pd.DataFrame({'k':[2.0,4.0,None],'w':[200,400,500]})
tl = TableDescription(table_name='l', column_names=['k','v'])
tr = TableDescription(table_name='r', column_names=['k','w'])
h = data_algebra.SQLite.example_handle(); h.insert_table(l, table_name='l'); h.insert_table(r, table_name='r')
for jt in ['inner','left','right','full','cross']:
    try:
        ops = tl.natural_join(tr, on=(['k'] if jt!='cross' else []), jointype=jt)
    except Exception as e:
        print(jt, 'build raise', e); continue
    print('==', jt)
    for nm, f in {'pandas': lambda: ops.eval({'l':l,'r':r}), 'sqlite': lambda: h.read_query(ops), 'polars': lambda: ops.eval({'l':pl.DataFrame(l),'r':pl.DataFrame(r)})}.items():
        try: print(nm); print(f())
        except Exception as e: print(nm, 'raise', type(e).__name__, str(e)[:150])
