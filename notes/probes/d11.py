from data_algebra.data_ops import TableDescription
from data_algebra.expr_rep import d_
from data_algebra.expr_parse_fn import eval_da_ops
td = TableDescription(table_name='d', column_names=['g','x'])
a = td.select_rows(d_.g.is_in(['a','b']))
print(repr(a))
try:
    b = eval_da_ops(repr(a), data_model_map=None); print('rebuilt equal', a == b)
except Exception as e: print('rebuild raise', type(e).__name__, e)
a2 = td.select_rows(d_.g.is_in(['x']))
try:
    b2 = eval_da_ops(repr(a2), data_model_map=None); print('rebuilt2', repr(b2), a2 == b2)
except Exception as e: print('rebuild2 raise', type(e).__name__, e)
