import pandas as pd
from data_algebra.data_ops import TableDescription
import data_algebra.PostgreSQL, data_algebra.near_sql as ns
from data_algebra.sql_format_options import SQLFormatOptions
orig = ns.NearSQLContainer.to_with_form_stub
def patched(self, *, cte_cache):
    k = f"{self.near_sql.ops_key}"
    if self.columns is not None: k = f"{k}_{list(self.columns)}"
    print('STUB', type(self.near_sql).__name__, self.near_sql.quoted_query_name, repr(k)[-120:], 'HIT' if (cte_cache is not None and k in cte_cache) else '')
    return orig(self, cte_cache=cte_cache)
ns.NearSQLContainer.to_with_form_stub = patched
td = TableDescription(table_name='d', column_names=['a','x','g'])
A = td.extend({'y': 'x + 1'})
B = A.extend({'w': 'x.max()'}, partition_by=['g'])
C = A.extend({'w': 'x.min()'}, partition_by=['g'])
L = B.rename_columns({'w1':'w'}).select_columns(['a','y','w1'])
R = C.rename_columns({'w2':'w', 'y2':'y'}).select_columns(['a','y2','w2'])
ops = L.natural_join(R, on=['a'], jointype='inner')
pg = data_algebra.PostgreSQL.PostgreSQLModel()
sql_elim = pg.to_sql(ops, sql_format_options=SQLFormatOptions(use_cte_elim=True, annotate=False))
