import pandas as pd, traceback, numpy as np
import data_algebra as da
from data_algebra.data_ops import descr, TableDescription
import data_algebra.SQLite, data_algebra.PostgreSQL, data_algebra.BigQuery, data_algebra.SparkSQL, data_algebra.MySQL
from data_algebra.sql_format_options import SQLFormatOptions
d = pd.DataFrame({'a':[1,2,3],'x':[10,20,5],'g':['u','v','u']})
td = TableDescription(table_name='d', column_names=list(d.columns))
print("== D10 cte elim + merged extend")
A = td.extend({'y': 'x + 1'})
B = A.extend({'w': 'x.max()'}, partition_by=['g'])
C = A.extend({'w': 'x.min()'}, partition_by=['g'])
ops = B.natural_join(C.rename_columns({'w2': 'w'}).select_columns(['a','w2']), on=['a'], jointype='inner')
print(ops.transform(d))
pg = data_algebra.PostgreSQL.PostgreSQLModel()
sql_elim = pg.to_sql(ops, sql_format_options=SQLFormatOptions(use_cte_elim=True, annotate=False))
sql_plain = pg.to_sql(ops, sql_format_options=SQLFormatOptions(use_cte_elim=False, annotate=False))
print(sql_elim); print('-----'); print(sql_plain)
# run elim text on sqlite (syntax compatible here)
with data_algebra.SQLite.example_handle() as h:
    h.insert_table(d, table_name='d')
    try:
        print(h.read_query(sql_elim))
        print(h.read_query(sql_plain))
    except Exception as e:
        print('sqlite run fail', e)
