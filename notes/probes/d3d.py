import pandas as pd, itertools
from data_algebra.data_ops import TableDescription
import data_algebra.PostgreSQL, data_algebra.SQLite
from data_algebra.sql_format_options import SQLFormatOptions
import data_algebra.test_util as tu
d = pd.DataFrame({'a':[1,2,3],'x':[10,20,5],'g':['u','v','u']})
td = TableDescription(table_name='d', column_names=['a','x','g'])
A = td.extend({'y': 'x + 1'})
B = A.extend({'w': 'x.max()'}, partition_by=['g'])
C = A.extend({'w': 'x.min()'}, partition_by=['g'])
pg = data_algebra.PostgreSQL.PostgreSQLModel()
h = data_algebra.SQLite.example_handle()
h.insert_table(d, table_name='d')
variants = {
 'v1': B.rename_columns({'w1':'w'}).natural_join(C.rename_columns({'w2':'w'}), on=['a'], jointype='inner'),
 'v2': B.map_columns({'w':'w1'}).natural_join(C.map_columns({'w':'w2'}), on=['a'], jointype='inner'),
 'v3': B.select_rows('a > 0').natural_join(C.select_rows('a > 0').rename_columns({'w2':'w'}), on=['a'], jointype='inner'),
 'v4': B.order_rows(['a'], limit=10).natural_join(C.order_rows(['a'], limit=10).rename_columns({'w2':'w'}), on=['a'], jointype='inner'),
 'v5': B.concat_rows(C, id_column='src'),
}
for nm, ops in variants.items():
    expect = ops.transform(d) if nm!='v5' else ops.eval({'d': d})
    e = pg.to_sql(ops, sql_format_options=SQLFormatOptions(use_cte_elim=True, annotate=False))
    p = pg.to_sql(ops, sql_format_options=SQLFormatOptions(use_cte_elim=False, annotate=False))
    re_, rp = h.read_query(e), h.read_query(p)
    print(nm, 'same_text', e==p, 'elim_ok', tu.equivalent_frames(re_, expect), 'plain_ok', tu.equivalent_frames(rp, expect))
    if not tu.equivalent_frames(re_, expect):
        print(e); print(re_); print(expect)
