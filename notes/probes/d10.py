import pandas as pd
from data_algebra.data_ops import TableDescription
import data_algebra.expr_rep as er
td = TableDescription(table_name='d', column_names=['g','x'])
a = td.select_rows('x.is_in([1, 2])')
b = td.select_rows('x.is_in([3, 4])')
print('pipelines equal:', a == b)
d = pd.DataFrame({'g':['a','b','c'],'x':[1,3,5]})
print(a.transform(d)['x'].tolist(), b.transform(d)['x'].tolist())
print(type(a.expr.args[1]), [type(v) for v in a.expr.args[1].value])
c = td.extend({'y': 'g.mapv({"a": 1}, 0)'}); e = td.extend({'y': 'g.mapv({"a": 2}, 0)'})
print('mapv equal:', c == e)
# polars concat_rows helper
import polars as pl, data_algebra.polars_model as pm
print(pm.PolarsModel().concat_rows([pl.DataFrame({'a':[1]}), pl.DataFrame({'a':[2]})]))
