import pandas as pd, traceback, numpy as np, polars as pl
from data_algebra.data_ops import descr, TableDescription
import data_algebra.SQLite, data_algebra.polars_model
import data_algebra.test_util as tu
l = pd.DataFrame({'k':[1,2,3],'v':[10,20,30]})
r = pd.DataFrame({'j':[2,3,4],'w':[200,300,400]})
tl = TableDescription(table_name='l', column_names=['k','v'])
tr = TableDescription(table_name='r', column_names=['j','w'])
h = data_algebra.SQLite.example_handle(); h.insert_table(l, table_name='l'); h.insert_table(r, table_name='r')
for jt in ['inner','left','right','full']:
    ops = tl.natural_join(tr, on=[('k','j')], jointype=jt)
    print('==', jt, ops.column_names)
    try:
        print('pandas'); print(ops.eval({'l':l,'r':r}))
    except Exception as e: print('pandas raise', type(e).__name__, e)
    try:
        print('sqlite'); print(h.read_query(ops))
    except Exception as e: print('sqlite raise', type(e).__name__, str(e)[:200])
    try:
        print('polars'); print(ops.eval({'l':pl.DataFrame(l),'r':pl.DataFrame(r)}))
    except Exception as e: print('polars raise', type(e).__name__, str(e)[:200])
print("== D16 leftover col: both have k; on k=j")
r2 = pd.DataFrame({'j':[2,3,4],'k':[7,8,9]})
tr2 = TableDescription(table_name='r2', column_names=['j','k'])
ops = tl.natural_join(tr2, on=[('k','j')], jointype='inner')
print(ops.column_names); print(ops.eval({'l':l,'r2':r2}))
print("== D12 scratch")
d = pd.DataFrame({'g':['a','a','b'], '_data_table_temp_col':[5,6,7], 'x':[1,2,3]})
td = TableDescription(table_name='d', column_names=list(d.columns))
ops = td.project({'s':'_data_table_temp_col.sum()'}, group_by=['g'])
print(ops.transform(d))
