from data_algebra.data_ops import TableDescription
td = TableDescription(table_name='d', column_names=['g','x','y'])
for nm, f in {
 'drop then select dropped': lambda: td.drop_columns(['x']).select_columns(['x']),
 'select then select missing': lambda: td.select_columns(['g']).select_columns(['x']),
 'select then extend missing': lambda: td.select_columns(['g']).extend({'z':'x+1'}),
}.items():
    try:
        r = f(); print(nm, '-> ACCEPTED', r.column_names)
    except Exception as e:
        print(nm, '->', type(e).__name__, str(e)[:80])
