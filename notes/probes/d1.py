import pandas as pd, traceback
import data_algebra as da
from data_algebra.data_ops import descr, TableDescription
import data_algebra.SQLite, data_algebra.PostgreSQL, data_algebra.BigQuery
from data_algebra.sql_format_options import SQLFormatOptions
d = pd.DataFrame({'a':[1,2],'x':[10,20],'y':[100,200],'g':['u','v']})
td = TableDescription(table_name='d', column_names=list(d.columns))
print("== D1 merge")
ops = td.extend({'x': '1', 'y': 'a + 1'}).extend({'x': '2', 'z': 'y + 1'})
print(ops)
print(ops.transform(d))
step = td.extend({'x': '1', 'y': 'a + 1'}).transform(d)
print(TableDescription(table_name='d', column_names=list(step.columns)).extend({'x': '2', 'z': 'y + 1'}).transform(step))
print("== D2 select_rows compose")
try:
    a = td.select_rows('a > 1')
    b = TableDescription(table_name='d', column_names=list(d.columns)).extend({'a':'a+1'})
    print(b >> a)
except Exception as e:
    traceback.print_exc()
print("== D3 map_columns compose")
try:
    m = td.map_columns({'a':'aa','x':None})
    print(m.column_names)
    b = TableDescription(table_name='d', column_names=list(d.columns)).extend({'a':'a+1'})
    c = m.replace_leaves({'d': b})
    print(c.column_names)
except Exception as e:
    traceback.print_exc()
print("== D4 join check")
t2 = TableDescription(table_name='e', column_names=['a','x'])
try:
    r = td.natural_join(t2, on=['a'], jointype='left', check_all_common_keys_in_equi_spec=True)
    print('no raise 1')
except Exception as e:
    print('raise1', type(e).__name__, e)
try:
    r = td.order_rows(['a']).natural_join(t2, on=['a'], jointype='left', check_all_common_keys_in_equi_spec=True)
    print('no raise 2')
except Exception as e:
    print('raise2', type(e).__name__, e)
print("== D5 project pruned")
ops = td.project({'s': 'x.sum()'}).extend({'s': '1'})
print(ops.transform(d))
sql = ops.to_sql(data_algebra.SQLite.SQLiteModel())
print(sql)
with data_algebra.SQLite.example_handle() as h:
    h.insert_table(d, table_name='d')
    print(h.read_query(sql))
