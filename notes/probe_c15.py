"""Probe (not part of the machinery): does renaming a user column / table to an internal name change the result?
Run: cd /tmp && /venv/bin/python /verif/notes/probe_c15.py"""
import warnings, sqlite3, traceback
warnings.filterwarnings("ignore")
import pandas as pd
import data_algebra
from data_algebra.data_ops import *
import data_algebra.SQLite
try:
    import polars as pl
except Exception:
    pl = None


def same(a, b):
    a = a.reset_index(drop=True); b = b.reset_index(drop=True)
    if list(a.columns) != list(b.columns) or a.shape != b.shape:
        return False
    return a.astype(str).sort_values(list(a.columns)).reset_index(drop=True).equals(b.astype(str).sort_values(list(b.columns)).reset_index(drop=True))


def run_all(build, tables, rename_back):
    """build(tables)->ops; returns dict backend -> result (renamed back) or exception text"""
    out = {}
    ops = build(tables)
    try:
        out["pandas"] = ops.eval(tables).rename(columns=rename_back)
    except Exception as e:
        out["pandas"] = f"EXC {type(e).__name__}: {e}"[:120]
    try:
        with sqlite3.connect(":memory:") as conn:
            m = data_algebra.SQLite.SQLiteModel(); m.prepare_connection(conn)
            h = m.db_handle(conn)
            for k, v in tables.items():
                h.insert_table(v, table_name=k, allow_overwrite=True)
            out["sqlite"] = h.read_query(ops).rename(columns=rename_back)
    except Exception as e:
        out["sqlite"] = f"EXC {type(e).__name__}: {e}"[:120]
    if pl is not None:
        try:
            r = ops.eval({k: pl.DataFrame(v) for k, v in tables.items()})
            out["polars"] = r.to_pandas().rename(columns=rename_back)
        except Exception as e:
            out["polars"] = f"EXC {type(e).__name__}: {e}"[:120]
    return out


def case(label, build, tables, col_rename=None, table_rename=None):
    col_rename = col_rename or {}
    table_rename = table_rename or {}
    base = run_all(lambda t: build(t, lambda c: c, lambda n: n), tables, {})
    t2 = {table_rename.get(k, k): v.rename(columns=col_rename) for k, v in tables.items()}
    ren = run_all(lambda t: build(t, lambda c: col_rename.get(c, c), lambda n: table_rename.get(n, n)), t2, {v: k for k, v in col_rename.items()})
    for be in base:
        b, r = base[be], ren.get(be)
        if isinstance(b, str):
            verdict = "base-fails"
        elif isinstance(r, str):
            verdict = "RENAMED RAISES: " + r
        else:
            verdict = "same" if same(b, r) else "RESULT DIFFERS"
        print(f"{label:58s} {be:7s} {verdict}")


d = pd.DataFrame({"g": ["a", "a", "b"], "x": [1, 2, 3], "y": [10, 20, 30]})
e = pd.DataFrame({"g": ["a", "b"], "x": [5, None], "z": [7, 8]})

# Pandas project scratch
for nm in ["_data_table_temp_col", "data_algebra_project_temp_col_0"]:
    case(f"project sum over column named {nm}", lambda t, c, n: descr(**{n('d'): t[n('d')]}).project({"s": f"{c('x')}.sum()", "k": "(1).sum()"}, group_by=[c("g")]),
         {"d": d}, col_rename={"x": nm})
for nm in ["_data_algebra_temp_g", "_data_algebra_orig_index", "data_algebra_extend_temp_col_0"]:
    case(f"window extend over column named {nm}", lambda t, c, n: descr(**{n('d'): t[n('d')]}).extend({"s": f"{c('x')}.sum()", "k": "(1).sum()"}, partition_by=[c("g")]).select_columns([c("g"), c("x"), "s", "k"]),
         {"d": d}, col_rename={"x": nm})
    case(f"window extend, order column named {nm}", lambda t, c, n: descr(**{n('d'): t[n('d')]}).extend({"s": f"{c('y')}.cumsum()"}, partition_by=[c("g")], order_by=[c("x")]),
         {"d": d}, col_rename={"x": nm})
for nm in ["data_algebra_temp_merge_col"]:
    case(f"cross join with column named {nm}", lambda t, c, n: descr(**{n('d'): t[n('d')]}).natural_join(b=descr(**{n('e'): t[n('e')]}).select_columns(["z"]), on=[], jointype="cross"),
         {"d": d, "e": e}, col_rename={"y": nm})
for nm in ["x_tmp_right_col", "x_da_right_tmp", "x_da_left_tmp", "g_da_join_tmp_key"]:
    case(f"join (shared x) with left column named {nm}", lambda t, c, n: descr(**{n('d'): t[n('d')]}).natural_join(b=descr(**{n('e'): t[n('e')]}), on=["g"], jointype="left"),
         {"d": d, "e": e}, col_rename={"y": nm})
    case(f"right join (shared x) with left column named {nm}", lambda t, c, n: descr(**{n('d'): t[n('d')]}).natural_join(b=descr(**{n('e'): t[n('e')]}), on=["g"], jointype="right"),
         {"d": d, "e": e}, col_rename={"y": nm})
for nm in ["_da_temp_one_column", "_da_temp_zero_column", "_da_extend_temp_partition_column", "_da_extend_temp_v_column_0", "_da_project_temp_group_by_column", "_da_project_temp_v_column_0"]:
    case(f"extend count/sum with column named {nm}", lambda t, c, n: descr(**{n('d'): t[n('d')]}).extend({"s": f"{c('x')}.cumsum()", "r": "_row_number()"}, partition_by=[c("g")], order_by=[c("y")]).extend({"k": "(1).sum()", "z": "_size()"}, partition_by=[c("g")]),
         {"d": d}, col_rename={"x": nm})
    case(f"project with column named {nm}", lambda t, c, n: descr(**{n('d'): t[n('d')]}).project({"s": f"{c('x')}.sum()", "k": "(1).sum()", "q": "_size()"}),
         {"d": d}, col_rename={"x": nm})
# SQL view names
for nm in ["table_reference_0", "extend_0", "extend_1", "project_1", "select_rows_1", "order_rows_1", "natural_join_2", "join_source_left_2", "join_source_right_2", "concat_rows_2", "rename_1", "map_columns_1", "table_values"]:
    case(f"table named {nm}", lambda t, c, n: descr(**{n('d'): t[n('d')]}).select_columns(["g", "x"]).extend({"w": "x + 1"}).select_rows("w > 1").order_rows(["x"]).rename_columns({"xx": "x"}).natural_join(
        b=descr(**{n('e'): t[n('e')]}).select_columns(["g", "z"]), on=["g"], jointype="left"),
         {"d": d, "e": e}, table_rename={"d": nm})
    case(f"concat of table named {nm}", lambda t, c, n: descr(**{n('d'): t[n('d')]}).select_columns(["g", "x"]).concat_rows(b=descr(**{n('e'): t[n('e')]}).select_columns(["g", "x"])),
         {"d": d, "e": e}, table_rename={"e": nm})
