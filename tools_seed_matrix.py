#!/usr/bin/env python3
"""developer helper (not a registered check): run every registered check against every seeded change.

For each /verif/seeded/<name>/patch.diff: copy /repo/data_algebra to a scratch directory, apply the patch there
(`git apply --directory`), run every rule module of MANIFEST.json on the scratch tree, and record which checks report a
violation that is not a listed finding.  Writes /verif/seeded/MATRIX.json and prints a table.  /repo is never touched.

usage: python3-vt tools_seed_matrix.py [--jobs N] [name ...]
"""
import concurrent.futures as cf
import importlib
import io
import json
import os
import shutil
import subprocess
import sys
import tempfile
from contextlib import redirect_stdout

sys.path.insert(0, "/verif")
SEEDED = "/verif/seeded"


def one(name):
    from sa import index, report
    man = json.load(open("/verif/MANIFEST.json"))
    props = [c["property_id"] for c in man["checks"]]
    tmp = tempfile.mkdtemp(prefix="seedmx_")
    out = {"name": name, "caught_by": {}, "analysis_error": {}}
    try:
        shutil.copytree("/repo/data_algebra", os.path.join(tmp, "data_algebra"), ignore=shutil.ignore_patterns("__pycache__"))
        subprocess.run(["git", "init", "-q", tmp], check=True, capture_output=True)
        r = subprocess.run(["git", "-C", tmp, "apply", os.path.join(SEEDED, name, "patch.diff")], capture_output=True, text=True)
        if r.returncode != 0:
            out["error"] = "patch does not apply to the current tree: " + r.stderr.strip()[:200]
            return out
        known = report.load_known()
        program = index.Program(tmp)
        for pid in props:
            mod = importlib.import_module(f"sa.rules.{pid.lower()}")
            res = report.Result(pid)
            try:
                with redirect_stdout(io.StringIO()):
                    mod.run(program, res, "quick")
                new = [f for f in res.findings if report.match_known(pid, f, known) is None]
                if new:
                    out["caught_by"][pid] = [f"{f.rule} {f.where} [{f.construct}]"[:160] for f in new[:3]]
            except index.AnalysisError as e:
                out["analysis_error"][pid] = str(e)[:200]
            except Exception as e:
                out["analysis_error"][pid] = f"{type(e).__name__}: {e}"[:200]
        return out
    finally:
        shutil.rmtree(tmp, ignore_errors=True)


def main():
    args = [a for a in sys.argv[1:] if not a.startswith("--")]
    jobs = 16
    if "--jobs" in sys.argv:
        jobs = int(sys.argv[sys.argv.index("--jobs") + 1])
        args = [a for a in args if a != str(jobs)]
    names = sorted(d for d in os.listdir(SEEDED) if os.path.exists(os.path.join(SEEDED, d, "patch.diff")))
    if args:
        names = [n for n in names if n in args]
    with cf.ProcessPoolExecutor(max_workers=jobs) as ex:
        results = list(ex.map(one, names))
    matrix = {}
    for r in results:
        meta = json.load(open(os.path.join(SEEDED, r["name"], "meta.json")))
        target = meta.get("property")
        r["target"] = target
        r["target_caught"] = target in r["caught_by"]
        matrix[r["name"]] = r
        flag = "CAUGHT" if r["caught_by"] else ("ERROR " if r.get("error") or r["analysis_error"] else "MISSED")
        print(f"{flag} {r['name']:58s} target={target} by={','.join(sorted(r['caught_by'])) or '-'}"
              + (f" analysis-error={','.join(sorted(r['analysis_error']))}" if r["analysis_error"] else "")
              + (f" {r['error']}" if r.get("error") else ""))
    if not args:
        json.dump(matrix, open(os.path.join(SEEDED, "MATRIX.json"), "w"), indent=1, sort_keys=True)
    missed = [n for n, r in matrix.items() if not r["caught_by"]]
    print(f"{len(matrix)} seeded changes, {len(matrix) - len(missed)} caught by at least one check, {len(missed)} not caught: {missed}")


if __name__ == "__main__":
    main()
