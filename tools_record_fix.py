"""development aid: append a 'fixed:' record to known_findings.json.  usage: tools_record_fix.py C13[,C12] <commit> "D40 what failed" """
import json, sys
props, commit, text = sys.argv[1].split(","), sys.argv[2], sys.argv[3]
p = "/verif/known_findings.json"
doc = json.load(open(p))
for i, prop in enumerate(props):
    t = text if i == 0 else text.split(" ", 1)[0] + " (same commit) " + text.split(" ", 1)[1]
    doc["fixed"].append(f"fixed: property={prop} {commit} {t}")
json.dump(doc, open(p, "w"), indent=1)
print(len(doc["fixed"]), "fixed records")
