#!/usr/bin/env python3
"""developer helper (not a registered check): robustness of the rules against behaviour-preserving renaming.

For every function a check analysed (evidence `functions_analysed`), rename one local variable consistently
(`x` -> `x_r`; locals only, never parameters, attributes or keyword names) in a scratch copy of /repo/data_algebra and
re-run the check.  A renamed local cannot change behaviour, so the only acceptable outcomes are `clean` (exit 0).
`violation` = the rule keys on a variable's spelling (a false alarm in waiting); `analysis-error` = the rule cannot
find its construct any more (exit 2: the check would be broken by that refactor).

usage: python3-vt tools_alpha_twins.py [PROP ...] [--max-per-func N]
"""
import ast
import concurrent.futures as cf
import importlib
import io
import json
import os
import shutil
import sys
import tempfile
from contextlib import redirect_stdout

sys.path.insert(0, "/verif")
REPO = "/repo"


def find_func(tree, qual):
    parts = qual.split(".")
    node = tree
    for p in parts:
        nxt = None
        for ch in ast.walk(node) if node is tree else ast.iter_child_nodes(node):
            if isinstance(ch, (ast.FunctionDef, ast.AsyncFunctionDef, ast.ClassDef)) and ch.name == p:
                nxt = ch
                break
        if nxt is None:
            # nested function: search deeper
            for ch in ast.walk(node):
                if isinstance(ch, (ast.FunctionDef, ast.AsyncFunctionDef, ast.ClassDef)) and ch.name == p and ch is not node:
                    nxt = ch
                    break
        if nxt is None:
            return None
        node = nxt
    return node if isinstance(node, (ast.FunctionDef, ast.AsyncFunctionDef)) else None


def locals_of(fn):
    args = {a.arg for a in ast.walk(fn) if isinstance(a, ast.arg)}
    stores = {}
    for n in ast.walk(fn):
        if isinstance(n, ast.Name) and isinstance(n.ctx, ast.Store) and n.id not in args:
            stores[n.id] = stores.get(n.id, 0) + 1
    uses = {}
    for n in ast.walk(fn):
        if isinstance(n, ast.Name) and n.id in stores:
            uses[n.id] = uses.get(n.id, 0) + 1
    for n in ast.walk(fn):
        if isinstance(n, (ast.Global, ast.Nonlocal)):
            for nm in n.names:
                uses.pop(nm, None)
    return sorted(uses, key=lambda k: -uses[k])


def rename(src, fn, name, new):
    lines = src.split("\n")
    spots = [(n.lineno, n.col_offset, n.end_col_offset) for n in ast.walk(fn) if isinstance(n, ast.Name) and n.id == name]
    for (ln, c0, c1) in sorted(spots, reverse=True):
        line = lines[ln - 1]
        # col offsets are utf-8 byte offsets
        b = line.encode("utf-8")
        lines[ln - 1] = (b[:c0] + new.encode() + b[c1:]).decode("utf-8")
    return "\n".join(lines)


def run_one(job):
    prop, rel, qual, name = job
    from sa import index, report
    path = os.path.join(REPO, "data_algebra", rel)
    src = open(path, encoding="utf-8").read()
    tree = ast.parse(src)
    fn = find_func(tree, qual)
    if fn is None:
        return job, "skip", "function not found"
    new = name + "_r"
    if new in {n.id for n in ast.walk(fn) if isinstance(n, ast.Name)}:
        return job, "skip", "target name in use"
    edited = rename(src, fn, name, new)
    try:
        compile(edited, rel, "exec")
    except SyntaxError as e:
        return job, "skip", f"does not compile: {e}"
    tmp = tempfile.mkdtemp(prefix="sa_alpha_")
    try:
        dst = os.path.join(tmp, "data_algebra")
        shutil.copytree(os.path.join(REPO, "data_algebra"), dst, ignore=shutil.ignore_patterns("__pycache__"))
        open(os.path.join(dst, rel), "w", encoding="utf-8").write(edited)
        mod = importlib.import_module(f"sa.rules.{prop.lower()}")
        res = report.Result(prop)
        try:
            with redirect_stdout(io.StringIO()):
                mod.run(index.Program(tmp), res, "quick")
            known = report.load_known()
            newf = [f for f in res.findings if report.match_known(prop, f, known) is None]
            if newf:
                return job, "violation", "; ".join(f"{f.rule} [{f.construct}]" for f in newf[:2])[:200]
            return job, "clean", ""
        except index.AnalysisError as e:
            return job, "analysis-error", str(e)[:200]
        except Exception as e:
            return job, "analysis-error", f"{type(e).__name__}: {e}"[:200]
    finally:
        shutil.rmtree(tmp, ignore_errors=True)


def main():
    args = [a for a in sys.argv[1:] if not a.startswith("--")]
    maxper = 3
    if "--max-per-func" in sys.argv:
        maxper = int(sys.argv[sys.argv.index("--max-per-func") + 1])
        args = [a for a in args if a != str(maxper)]
    man = json.load(open("/verif/MANIFEST.json"))
    props = [c["property_id"] for c in man["checks"] if not args or c["property_id"] in args]
    from sa import index
    program = index.Program(REPO)
    jobs = []
    for prop in props:
        ev = json.load(open(f"/verif/evidence/{prop}.json"))
        for w in ev["coverage"].get("functions_analysed", []):
            modname, qual = w.split(":")
            if modname not in program.modules:
                continue
            rel = os.path.relpath(program.modules[modname].path, os.path.join(REPO, "data_algebra"))
            tree = program.modules[modname].tree
            fn = find_func(tree, qual)
            if fn is None:
                continue
            for nm in locals_of(fn)[:maxper]:
                jobs.append((prop, rel, qual, nm))
    with cf.ProcessPoolExecutor(max_workers=16) as ex:
        results = list(ex.map(run_one, jobs, chunksize=4))
    bad = [(j, s, d) for (j, s, d) in results if s in ("violation", "analysis-error")]
    counts = {}
    for (_j, s, _d) in results:
        counts[s] = counts.get(s, 0) + 1
    for (j, s, d) in bad:
        print(f"{s:15s} {j[0]} {j[1]}:{j[2]} rename {j[3]} -> {j[3]}_r   {d}")
    print(json.dumps({"jobs": len(jobs), **counts}))


if __name__ == "__main__":
    main()
