#!/bin/sh
# run the repository's pinned suite on /repo's working tree and compare with the baseline's stable passes (development aid; no check uses it)
out=$(mktemp -d)
cd /repo && PYTHONPATH=/repo /venv/bin/python -m pytest -q -p no:cacheprovider -n 16 --timeout=900 --junitxml=$out/j.xml tests > $out/log 2>&1
tail -1 $out/log
python3 - $out/j.xml <<'PY'
import json,sys,xml.etree.ElementTree as ET
b=json.load(open('/root/.vp/BASELINE.json'))
st=set(b['stable_pass'])
ok=set()
for tc in ET.parse(sys.argv[1]).getroot().iter('testcase'):
    if not any(c.tag in('failure','error','skipped') for c in tc):
        ok.add(tc.get('classname')+'::'+tc.get('name'))
def norm(x): return x
miss=[s for s in st if s not in ok and s.replace('/','.').replace('.py::','::') not in ok]
print('stable', len(st), 'missing', len(miss)); print(miss[:10])
PY
cd /repo && git status --short | head -5
rm -rf $out
