#!/usr/bin/env python3
"""developer helper (not a check): regenerate the seeded-change table of DESIGN.md (between the SEED-TABLE markers) from
/verif/seeded/*/meta.json, /verif/seeded/MATRIX.json and /verif/seeded/HISTORY.json (hand-written: what happened when the
change was first run against the checks)."""
import json, os, re
S = "/verif/seeded"
matrix = json.load(open(os.path.join(S, "MATRIX.json")))
hist = json.load(open(os.path.join(S, "HISTORY.json")))
rows = []
for name in sorted(matrix):
    meta = json.load(open(os.path.join(S, name, "meta.json")))
    summ = (meta.get("summary") or "").replace("\n", " ").replace("|", "/")
    summ = re.sub(r"\s+", " ", summ)
    short = summ[:230] + ("…" if len(summ) > 230 else "")
    r = matrix[name]
    by = []
    for pid in sorted(r["caught_by"]):
        rules = sorted({x.split(" ")[0] for x in r["caught_by"][pid]})
        by.append(f"{pid} ({', '.join(rules)})")
    rows.append(f"| `{name}` | {meta.get('property')} | {short} | {'; '.join(by) or '**none**'} | {hist.get(name, 'caught when first run')} |")
table = "| seeded change | written against | what it does | caught by (rule) | first run |\n|---|---|---|---|---|\n" + "\n".join(rows)
p = "/verif/DESIGN.md"
s = open(p).read()
a, b = "<!-- SEED-TABLE-BEGIN -->", "<!-- SEED-TABLE-END -->"
i, j = s.index(a) + len(a), s.index(b)
s = s[:i] + "\n" + table + "\n" + s[j:]
# known-findings summary
kf = json.load(open("/verif/known_findings.json"))
from collections import Counter
cnt = Counter((f["property"], f["rule"]) for f in kf["findings"])
lines = ["| property | rule | listed findings |", "|---|---|---|"]
for (pp, rr), n in sorted(cnt.items()):
    ex = next(f for f in kf["findings"] if (f["property"], f["rule"]) == (pp, rr))
    lines.append(f"| {pp} | {rr} | {n} — e.g. `{ex['construct']}` |")
lines.append(f"| | total | {len(kf['findings'])} listed, {len({l.split()[3] for l in kf['fixed']})} repaired defects ({len(kf['fixed'])} `fixed:` records) |")
import re as _re
later = {}
for l in kf["fixed"]:
    m = _re.match(r"fixed: property=(C\d\d) (\S+) D(\d+)\b ?(.*)", l)
    if m and int(m.group(3)) >= 33:
        d = later.setdefault(int(m.group(3)), {"props": [], "hash": m.group(2), "text": None})
        d["props"].append(m.group(1))
        if not m.group(4).startswith("(same commit)") and d["text"] is None:
            d["text"] = m.group(4)
fl = ["| # | property | commit | what failed (input) |", "|---|---|---|---|"]
for k in sorted(later):
    d = later[k]
    fl.append(f"| D{k} | {'/'.join(sorted(set(d['props'])))} | {d['hash']} | {(d['text'] or '').replace('|', '/')} |")
a3, b3 = "<!-- FIX-TABLE-BEGIN -->", "<!-- FIX-TABLE-END -->"
if a3 in s:
    i3, j3 = s.index(a3) + len(a3), s.index(b3)
    s = s[:i3] + "\n" + "\n".join(fl) + "\n" + s[j3:]
a2, b2 = "<!-- KF-TABLE-BEGIN -->", "<!-- KF-TABLE-END -->"
if a2 in s:
    i2, j2 = s.index(a2) + len(a2), s.index(b2)
    s = s[:i2] + "\n" + "\n".join(lines) + "\n" + s[j2:]
# ---- rules table (10.2) from the evidence files of the last run
import glob as _glob
rl = ["| property | rule | what it requires (as printed by the check) |", "|---|---|---|"]
tot = []
for ef in sorted(_glob.glob("/verif/evidence/C*.json")):
    ev = json.load(open(ef))
    cov = ev["coverage"]
    pid = ev["property_id"]
    for rid, desc in cov.get("rules", {}).items():
        rl.append(f"| {pid} | {rid} | {desc.replace('|', '/')} |")
    tot.append(f"{pid}: {cov.get('obligations')} instances over {len(cov.get('functions_analysed', []))} functions")
a4, b4 = "<!-- RULES-TABLE-BEGIN -->", "<!-- RULES-TABLE-END -->"
if a4 in s:
    i4, j4 = s.index(a4) + len(a4), s.index(b4)
    s = s[:i4] + "\n" + "\n".join(rl) + "\n\nRule instances on the current tree — " + "; ".join(tot) + ".\n" + s[j4:]
open(p, "w").write(s)
print(len(rows), "rows;", len(kf["findings"]), "findings")
