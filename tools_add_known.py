#!/usr/bin/env python3
"""developer helper (not used by any check): add a known finding entry.  usage: tools_add_known.py PROP RULE WHERE CONSTRUCT WHAT"""
import json, sys
p = '/verif/known_findings.json'
doc = json.load(open(p))
prop, rule, where, construct, what = sys.argv[1:6]
for f in doc['findings']:
    if (f['property'], f['rule'], f['where'], f['construct']) == (prop, rule, where, construct):
        f['what'] = what
        break
else:
    doc['findings'].append({"property": prop, "rule": rule, "where": where, "construct": construct, "status": "known", "what": what})
json.dump(doc, open(p, 'w'), indent=1)
