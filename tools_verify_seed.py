#!/usr/bin/env python3
"""developer helper (not a check): independently confirm a seeded change produced by a sub-agent and file it under
/verif/seeded/<name>/.   usage: tools_verify_seed.py <PROP> <mutation dir> <name> [--skip-suite]

Confirms in a fresh scratch worktree of /repo HEAD: the patch applies; the demo passes without it and fails with it;
the baseline suite's stable tests still pass with it.  Then runs every registered quick check against the patched
scratch tree (via --repo) and records which ones report a violation."""
import json
import os
import shutil
import subprocess
import sys
import tempfile
import xml.etree.ElementTree as ET

prop, mdir, name = sys.argv[1:4]
skip_suite = "--skip-suite" in sys.argv
patch = os.path.join(mdir, "patch.diff")
demo = os.path.join(mdir, "demo.py")
meta = json.load(open(os.path.join(mdir, "meta.json"))) if os.path.exists(os.path.join(mdir, "meta.json")) else {}
wt = tempfile.mkdtemp(prefix="seedcheck_")
os.rmdir(wt)


def sh(cmd, **kw):
    return subprocess.run(cmd, shell=True, capture_output=True, text=True, **kw)


out = {"property": prop, "name": name}
try:
    r = sh(f"git -C /repo worktree add -f --detach {wt} HEAD")
    assert r.returncode == 0, r.stderr
    env = dict(os.environ, PYTHONPATH=wt)
    r0 = sh(f"/venv/bin/python {demo}", env=env, cwd="/tmp")
    out["demo_clean_rc"] = r0.returncode
    r = sh(f"git -C {wt} apply {patch}")
    assert r.returncode == 0, "patch does not apply: " + r.stderr
    r1 = sh(f"/venv/bin/python {demo}", env=env, cwd="/tmp")
    out["demo_patched_rc"] = r1.returncode
    out["demo_patched_tail"] = (r1.stdout + r1.stderr)[-600:]
    files = sh(f"git -C {wt} diff --name-only").stdout.split()
    out["files"] = files
    for f in files:
        if f.endswith(".py"):
            c = sh(f"/venv/bin/python -m py_compile {os.path.join(wt, f)}")
            assert c.returncode == 0, "does not compile: " + c.stderr
    if not skip_suite:
        junit = f"/tmp/junit_seed_{name}.xml"
        sh(f"cd {wt} && /venv/bin/python -m pytest -q -p no:cacheprovider -n 16 --timeout=900 --junitxml={junit} tests", env=env)
        b = json.load(open("/root/.vp/BASELINE.json"))
        passed = set()
        for tc in ET.parse(junit).iter("testcase"):
            if not any(ch.tag in ("failure", "error", "skipped") for ch in tc):
                passed.add(tc.get("classname") + "::" + tc.get("name"))
        out["suite_passed"] = len(passed)
        out["stable_missing"] = sorted(set(b["stable_pass"]) - passed)
        os.remove(junit)
    # which checks catch it
    man = json.load(open("/verif/MANIFEST.json"))
    caught = {}
    for chk in man["checks"]:
        pid = chk["property_id"]
        r = sh(f"cd /verif && python3-vt -B - <<'EOF'\nimport sys\nsys.path.insert(0,'/verif')\nfrom sa import index, report\nimport importlib\nm=importlib.import_module('sa.rules.{pid.lower()}')\np=index.Program('{wt}')\nres=report.Result('{pid}')\ntry:\n    m.run(p,res,'quick')\n    k=report.load_known()\n    new=[f for f in res.findings if report.match_known('{pid}',f,k) is None]\n    print('NEW',len(new))\n    for f in new[:4]: print('  ',f.rule,f.where,f.construct)\nexcept index.AnalysisError as e:\n    print('ANALYSIS-ERROR',e)\nEOF")
        txt = r.stdout.strip()
        if txt.startswith("NEW 0"):
            continue
        caught[pid] = txt[:500]
    out["caught_by"] = caught
    ok = out["demo_clean_rc"] == 0 and out["demo_patched_rc"] != 0 and (skip_suite or not out["stable_missing"])
    out["confirmed"] = bool(ok)
    if ok:
        dst = f"/verif/seeded/{name}"
        os.makedirs(dst, exist_ok=True)
        shutil.copy(patch, os.path.join(dst, "patch.diff"))
        shutil.copy(demo, os.path.join(dst, "demo.py"))
        m2 = {"property": prop, "summary": meta.get("summary"), "needs": meta.get("needs"), "files": files,
              "confirmed_by": {"demo_clean_rc": out["demo_clean_rc"], "demo_patched_rc": out["demo_patched_rc"],
                               "suite_passed": out.get("suite_passed"), "stable_missing": out.get("stable_missing"),
                               "how": "fresh scratch worktree of /repo HEAD; demo run with PYTHONPATH=<worktree> before and after "
                                      "`git apply patch.diff`; baseline suite (pytest -n 16) compared with stable_pass of BASELINE.json"},
              "caught_by_at_filing": sorted(caught)}
        json.dump(m2, open(os.path.join(dst, "meta.json"), "w"), indent=1)
finally:
    sh(f"git -C /repo worktree remove --force {wt}")
    shutil.rmtree(wt, ignore_errors=True)
print(json.dumps(out, indent=1))
