"""Self-test corpus: single-edit variants (anchor-relative) of the current tree, one broken rule instance each,
plus behaviour-preserving twins (expect='silent').  See sa/selftest.py."""

VR = "view_representations.py"
VARIANTS = []


def v(id, prop, file, old, new, expect="detect"):
    VARIANTS.append({"id": id, "prop": prop, "file": file, "old": old, "new": new, "expect": expect})


# ---------------------------------------------------------------- C07
v("c07-extend-drops-order_by", "C07", VR,
  "            partition_by=self.partition_by,\n            order_by=self.order_by,\n            reverse=self.reverse,\n        )\n\n    def _equiv_nodes",
  "            partition_by=self.partition_by,\n            reverse=self.reverse,\n        )\n\n    def _equiv_nodes")
v("c07-selectrows-bad-keyword", "C07", VR,
  "select_rows_parsed_(parsed_expr=self.ops)", "select_rows_parsed_(parsed_ops=self.ops)")
v("c07-mapcolumns-drops-deletions", "C07", VR,
  "        column_remapping = self.column_remapping.copy()\n        column_remapping.update({k: None for k in self.column_deletions})\n        return new_sources[0].map_columns(column_remapping=column_remapping)",
  "        column_remapping = self.column_remapping.copy()\n        return new_sources[0].map_columns(column_remapping=column_remapping)")
v("c07-order-rows-swaps-slots", "C07", VR,
  "columns=self.order_columns, reverse=self.reverse, limit=self.limit",
  "columns=self.reverse, reverse=self.order_columns, limit=self.limit")
v("c07-concat-drops-b_name", "C07", VR,
  "            a_name=self.a_name,\n            b_name=self.b_name,\n        )\n\n    def _equiv_nodes",
  "            a_name=self.a_name,\n        )\n\n    def _equiv_nodes")
v("c07-join-drops-jointype-default", "C07", VR,
  "            on=[(va, vb) for (va, vb) in zip(self.on_a, self.on_b)],\n            jointype=self.jointype,",
  "            on=[(va, vb) for (va, vb) in zip(self.on_a, self.on_a)],\n            jointype=self.jointype,")
v("c07-rshift-swapped", "C07", "shift_pipe_action.py",
  "            return b.act_on(self, correct_ordered_first_call=True)",
  "            return self.act_on(b, correct_ordered_first_call=True)")
v("c07-rrshift-swapped", "C07", "shift_pipe_action.py",
  "        Implement b >> self to self.act_on(b).\n        This is read as \"self acting on b.\"\n        \"\"\"\n        return self.act_on(b, correct_ordered_first_call=True)",
  "        Implement b >> self to self.act_on(b).\n        This is read as \"self acting on b.\"\n        \"\"\"\n        return b.act_on(self, correct_ordered_first_call=True)")
v("c07-arrow-no-excess-check", "C07", "arrow.py",
  "            excess = set(b.outgoing_columns) - set(self.incoming_columns)\n            if len(excess) > 0:\n                raise ValueError(\"extra incoming columns: \" + str(excess))\n",
  "")
v("c07-arrow-wrong-free-table", "C07", "arrow.py",
  "                free_table_key=b.free_table_key,\n", "                free_table_key=self.free_table_key,\n")
v("c07-acton-no-column-assert", "C07", VR,
  "            assert set(b.column_names) == set(\n                old.column_names\n            )  # this is defending associativity of composition against table narrowing\n",
  "")
v("c07-twin-rename-local", "C07", VR,
  "        new_sources = [s.replace_leaves(replacement_map) for s in self.sources]\n        return new_sources[0].drop_columns(column_deletions=self.column_deletions)",
  "        new_sources = [s.replace_leaves(replacement_map) for s in self.sources]\n        deletions = self.column_deletions\n        return new_sources[0].drop_columns(column_deletions=deletions)",
  expect="silent")
v("c07-twin-positional", "C07", VR,
  "return new_sources[0].rename_columns(column_remapping=self.column_remapping)",
  "return new_sources[0].rename_columns(self.column_remapping)", expect="silent")

# ---------------------------------------------------------------- C11
v("c11-order-equiv-drops-limit", "C11", VR,
  "        if not self.limit == other.limit:\n            return False\n", "")
v("c11-join-equiv-drops-jointype", "C11", VR,
  "        if not self.jointype == other.jointype:\n            return False\n", "")
v("c11-extend-equiv-drops-reverse", "C11", VR,
  "        if not self.reverse == other.reverse:\n            return False\n        if set(self.ops.keys()) != set(other.ops.keys()):\n            return False\n        for k in self.ops.keys():\n            if not self.ops[k].is_equal(other.ops[k]):\n                return False\n        return True\n\n    def get_method_uses_",
  "        if set(self.ops.keys()) != set(other.ops.keys()):\n            return False\n        for k in self.ops.keys():\n            if not self.ops[k].is_equal(other.ops[k]):\n                return False\n        return True\n\n    def get_method_uses_")
v("c11-project-ops-by-eq", "C11", VR,
  "        if not self.group_by == other.group_by:\n            return False\n        if set(self.ops.keys()) != set(other.ops.keys()):\n            return False\n        for k in self.ops.keys():\n            if not self.ops[k].is_equal(other.ops[k]):\n                return False\n        return True",
  "        if not self.group_by == other.group_by:\n            return False\n        if self.ops != other.ops:\n            return False\n        return True")
v("c11-recordmap-guard-reverted", "C11", "cdata.py",
  "        if self.blocks_out is not None:\n            if self.blocks_out != other.blocks_out:",
  "        if self.blocks_in is not None:\n            if self.blocks_out != other.blocks_out:")
v("c11-listterm-eq-reverted", "C11", "expr_rep.py",
  "        if len(self.value) != len(other.value):\n            return False\n        for lft, rgt in zip(self.value, other.value):\n            if isinstance(lft, PreTerm):\n                if not lft.is_equal(rgt):\n                    return False\n            elif isinstance(rgt, PreTerm) or (lft != rgt):\n                return False\n        return True",
  "        return self.value == other.value")
v("c11-expression-drops-op", "C11", "expr_rep.py",
  "        if self.op != other.op:\n            return False\n        if self.inline != other.inline:",
  "        if self.inline != other.inline:")
v("c11-expression-drops-args", "C11", "expr_rep.py",
  "        for lft, rgt in zip(self.args, other.args):\n            if not lft.is_equal(rgt):\n                return False\n        return True",
  "        return True")
v("c11-asymmetric-compare", "C11", VR,
  "        if not self.order_columns == other.order_columns:", "        if not self.order_columns == other.reverse:")
v("c11-base-eq-no-sources", "C11", VR,
  "        for i in range(len(self.sources)):\n            if not self.sources[i].__eq__(other.sources[i]):\n                return False\n        return True",
  "        return True")
v("c11-concat-drops-a_name", "C11", VR,
  "        if not self.a_name == other.a_name:\n            return False\n", "")
v("c11-twin-reorder", "C11", VR,
  "        if not self.on_a == other.on_a:\n            return False\n        if not self.on_b == other.on_b:\n            return False\n",
  "        if not self.on_b == other.on_b:\n            return False\n        if not self.on_a == other.on_a:\n            return False\n",
  expect="silent")
v("c11-twin-ne-form", "C11", VR,
  "        if not self.column_selection == other.column_selection:", "        if self.column_selection != other.column_selection:",
  expect="silent")

# ---------------------------------------------------------------- C12
v("c12-extend-no-reverse", "C12", VR,
  "        if len(self.reverse) > 0:\n            s = s + \",\" + spacer + \"reverse=\" + self.reverse.__repr__()\n        s = s + \")\"\n        return s\n\n    def to_near_sql_implementation_(\n        self, db_model, *, using, temp_id_source, sql_format_options=None\n    ) -> data_algebra.near_sql.NearSQL:\n        \"\"\"\n        Convert operator dag into NearSQL type for translation to SQL string.\n\n        :param db_model: database model\n        :param using: optional column restriction set\n        :param temp_id_source: source of temporary ids\n        :param sql_format_options: options for sql formatting\n        :return: data_algebra.near_sql.NearSQL\n        \"\"\"\n        return db_model.extend_to_near_sql(",
  "        s = s + \")\"\n        return s\n\n    def to_near_sql_implementation_(\n        self, db_model, *, using, temp_id_source, sql_format_options=None\n    ) -> data_algebra.near_sql.NearSQL:\n        \"\"\"\n        Convert operator dag into NearSQL type for translation to SQL string.\n\n        :param db_model: database model\n        :param using: optional column restriction set\n        :param temp_id_source: source of temporary ids\n        :param sql_format_options: options for sql formatting\n        :return: data_algebra.near_sql.NearSQL\n        \"\"\"\n        return db_model.extend_to_near_sql(")
v("c12-extend-reverse-prints-order_by", "C12", VR,
  "\"reverse=\" + self.reverse.__repr__()\n        s = s + \")\"\n        return s\n\n    def to_near_sql_implementation_(\n        self, db_model, *, using, temp_id_source, sql_format_options=None\n    ) -> data_algebra.near_sql.NearSQL:\n        \"\"\"\n        Convert operator dag into NearSQL type for translation to SQL string.\n\n        :param db_model: database model\n        :param using: optional column restriction set\n        :param temp_id_source: source of temporary ids\n        :param sql_format_options: options for sql formatting\n        :return: data_algebra.near_sql.NearSQL\n        \"\"\"\n        return db_model.extend_to_near_sql(",
  "\"reverse=\" + self.order_by.__repr__()\n        s = s + \")\"\n        return s\n\n    def to_near_sql_implementation_(\n        self, db_model, *, using, temp_id_source, sql_format_options=None\n    ) -> data_algebra.near_sql.NearSQL:\n        \"\"\"\n        Convert operator dag into NearSQL type for translation to SQL string.\n\n        :param db_model: database model\n        :param using: optional column restriction set\n        :param temp_id_source: source of temporary ids\n        :param sql_format_options: options for sql formatting\n        :return: data_algebra.near_sql.NearSQL\n        \"\"\"\n        return db_model.extend_to_near_sql(")
v("c12-order-misspelled-keyword", "C12", VR, "s = s + \", limit=\" + self.limit.__repr__()", "s = s + \", limits=\" + self.limit.__repr__()")
v("c12-order-no-limit", "C12", VR,
  "        if self.limit is not None:\n            s = s + \", limit=\" + self.limit.__repr__()\n", "")
v("c12-concat-swapped-names", "C12", VR,
  "            + \", a_name=\"\n            + self.a_name.__repr__()\n            + \", b_name=\"\n            + self.b_name.__repr__()",
  "            + \", a_name=\"\n            + self.b_name.__repr__()\n            + \", b_name=\"\n            + self.a_name.__repr__()")
v("c12-unary-parens-reverted", "C12", "expr_rep.py",
  "                if want_inline_parens:\n                    return PythonText(\"(\" + result + \")\", is_in_parens=True)\n                return PythonText(result, is_in_parens=False)\n            if self.method:",
  "                return PythonText(result, is_in_parens=False)\n            if self.method:")
v("c12-nary-operands-no-parens", "C12", "expr_rep.py",
  "subs_strs = [str(ai.to_python(want_inline_parens=True)) for ai in self.args]",
  "subs_strs = [str(ai.to_python(want_inline_parens=False)) for ai in self.args]")
v("c12-value-str", "C12", "expr_rep.py",
  "return PythonText(self.value.__repr__(), is_in_parens=False)", "return PythonText(str(self.value), is_in_parens=False)")
v("c12-join-str-jointype", "C12", VR,
  "\"on=\" + on_arg.__repr__() + \", jointype=\" + self.jointype.__repr__() + \")\"",
  "\"on=\" + on_arg.__repr__() + \", jointype=\" + str(self.jointype) + \")\"")
v("c12-recordmap-swapped", "C12", "cdata.py",
  "self.blocks_in.__repr__()", "self.blocks_out.__repr__()")
v("c12-twin-spacer", "C12", VR,
  "        s = s + (\".select_columns(\" + self.column_selection.__repr__() + \")\")",
  "        s = s + \".select_columns(\"\n        s = s + self.column_selection.__repr__() + \")\"", expect="silent")
v("c12-twin-repr-fn", "C12", VR,
  "        s = s + (\".drop_columns(\" + self.column_deletions.__repr__() + \")\")",
  "        s = s + (\".drop_columns(\" + repr(self.column_deletions) + \")\")", expect="silent")
