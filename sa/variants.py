"""Self-test corpus: single-edit variants (anchor-relative) of the current tree, one broken rule instance each,
plus behaviour-preserving twins (expect='silent').  See sa/selftest.py."""

VR = "view_representations.py"
VARIANTS = []


def v(id, prop, file, old, new, expect="detect"):
    VARIANTS.append({"id": id, "prop": prop, "file": file, "old": old, "new": new, "expect": expect})


# ---------------------------------------------------------------- C07
v("c07-extend-drops-order_by", "C07", VR,
  "            partition_by=self.partition_by,\n            order_by=self.order_by,\n            reverse=self.reverse,\n        )\n\n    def _equiv_nodes",
  "            partition_by=self.partition_by,\n            reverse=self.reverse,\n        )\n\n    def _equiv_nodes")
v("c07-selectrows-bad-keyword", "C07", VR,
  "select_rows_parsed_(parsed_expr=self.ops)", "select_rows_parsed_(parsed_ops=self.ops)")
v("c07-mapcolumns-drops-deletions", "C07", VR,
  "        column_remapping = self.column_remapping.copy()\n        column_remapping.update({k: None for k in self.column_deletions})\n        return new_sources[0].map_columns(column_remapping=column_remapping)",
  "        column_remapping = self.column_remapping.copy()\n        return new_sources[0].map_columns(column_remapping=column_remapping)")
v("c07-order-rows-swaps-slots", "C07", VR,
  "columns=self.order_columns, reverse=self.reverse, limit=self.limit",
  "columns=self.reverse, reverse=self.order_columns, limit=self.limit")
v("c07-concat-drops-b_name", "C07", VR,
  "            a_name=self.a_name,\n            b_name=self.b_name,\n        )\n\n    def _equiv_nodes",
  "            a_name=self.a_name,\n        )\n\n    def _equiv_nodes")
v("c07-join-drops-jointype-default", "C07", VR,
  "            on=[(va, vb) for (va, vb) in zip(self.on_a, self.on_b)],\n            jointype=self.jointype,",
  "            on=[(va, vb) for (va, vb) in zip(self.on_a, self.on_a)],\n            jointype=self.jointype,")
v("c07-rshift-swapped", "C07", "shift_pipe_action.py",
  "            return b.act_on(self, correct_ordered_first_call=True)",
  "            return self.act_on(b, correct_ordered_first_call=True)")
v("c07-rrshift-swapped", "C07", "shift_pipe_action.py",
  "        Implement b >> self to self.act_on(b).\n        This is read as \"self acting on b.\"\n        \"\"\"\n        return self.act_on(b, correct_ordered_first_call=True)",
  "        Implement b >> self to self.act_on(b).\n        This is read as \"self acting on b.\"\n        \"\"\"\n        return b.act_on(self, correct_ordered_first_call=True)")
v("c07-arrow-no-excess-check", "C07", "arrow.py",
  "            excess = set(b.outgoing_columns) - set(self.incoming_columns)\n            if len(excess) > 0:\n                raise ValueError(\"extra incoming columns: \" + str(excess))\n",
  "")
v("c07-arrow-wrong-free-table", "C07", "arrow.py",
  "                free_table_key=b.free_table_key,\n", "                free_table_key=self.free_table_key,\n")
v("c07-acton-no-column-assert", "C07", VR,
  "            assert set(b.column_names) == set(\n                old.column_names\n            )  # this is defending associativity of composition against table narrowing\n",
  "")
v("c07-twin-rename-local", "C07", VR,
  "        new_sources = [s.replace_leaves(replacement_map) for s in self.sources]\n        return new_sources[0].drop_columns(column_deletions=self.column_deletions)",
  "        new_sources = [s.replace_leaves(replacement_map) for s in self.sources]\n        deletions = self.column_deletions\n        return new_sources[0].drop_columns(column_deletions=deletions)",
  expect="silent")
v("c07-twin-positional", "C07", VR,
  "return new_sources[0].rename_columns(column_remapping=self.column_remapping)",
  "return new_sources[0].rename_columns(self.column_remapping)", expect="silent")

# ---------------------------------------------------------------- C11
v("c11-order-equiv-drops-limit", "C11", VR,
  "        if not self.limit == other.limit:\n            return False\n", "")
v("c11-join-equiv-drops-jointype", "C11", VR,
  "        if not self.jointype == other.jointype:\n            return False\n", "")
v("c11-extend-equiv-drops-reverse", "C11", VR,
  "        if not self.reverse == other.reverse:\n            return False\n        if set(self.ops.keys()) != set(other.ops.keys()):\n            return False\n        for k in self.ops.keys():\n            if not self.ops[k].is_equal(other.ops[k]):\n                return False\n        return True\n\n    def get_method_uses_",
  "        if set(self.ops.keys()) != set(other.ops.keys()):\n            return False\n        for k in self.ops.keys():\n            if not self.ops[k].is_equal(other.ops[k]):\n                return False\n        return True\n\n    def get_method_uses_")
v("c11-project-ops-by-eq", "C11", VR,
  "        if not self.group_by == other.group_by:\n            return False\n        if set(self.ops.keys()) != set(other.ops.keys()):\n            return False\n        for k in self.ops.keys():\n            if not self.ops[k].is_equal(other.ops[k]):\n                return False\n        return True",
  "        if not self.group_by == other.group_by:\n            return False\n        if self.ops != other.ops:\n            return False\n        return True")
v("c11-recordmap-guard-reverted", "C11", "cdata.py",
  "        if self.blocks_out is not None:\n            if self.blocks_out != other.blocks_out:",
  "        if self.blocks_in is not None:\n            if self.blocks_out != other.blocks_out:")
v("c11-listterm-eq-reverted", "C11", "expr_rep.py",
  "        if len(self.value) != len(other.value):\n            return False\n        for lft, rgt in zip(self.value, other.value):\n            if isinstance(lft, PreTerm):\n                if not lft.is_equal(rgt):\n                    return False\n            elif isinstance(rgt, PreTerm) or (not _same_literal(lft, rgt)):\n                return False\n        return True",
  "        return self.value == other.value")
v("c11-expression-drops-op", "C11", "expr_rep.py",
  "        if self.op != other.op:\n            return False\n        if self.inline != other.inline:",
  "        if self.inline != other.inline:")
v("c11-expression-drops-args", "C11", "expr_rep.py",
  "        for lft, rgt in zip(self.args, other.args):\n            if not lft.is_equal(rgt):\n                return False\n        return True",
  "        return True")
v("c11-asymmetric-compare", "C11", VR,
  "        if not self.order_columns == other.order_columns:", "        if not self.order_columns == other.reverse:")
v("c11-base-eq-no-sources", "C11", VR,
  "        for i in range(len(self.sources)):\n            if not self.sources[i].__eq__(other.sources[i]):\n                return False\n        return True",
  "        return True")
v("c11-concat-drops-a_name", "C11", VR,
  "        if not self.a_name == other.a_name:\n            return False\n", "")
v("c11-twin-reorder", "C11", VR,
  "        if not self.on_a == other.on_a:\n            return False\n        if not self.on_b == other.on_b:\n            return False\n",
  "        if not self.on_b == other.on_b:\n            return False\n        if not self.on_a == other.on_a:\n            return False\n",
  expect="silent")
v("c11-twin-ne-form", "C11", VR,
  "        if not self.column_selection == other.column_selection:", "        if self.column_selection != other.column_selection:",
  expect="silent")

# ---------------------------------------------------------------- C12
v("c12-extend-no-reverse", "C12", VR,
  "        if len(self.reverse) > 0:\n            s = s + \",\" + spacer + \"reverse=\" + self.reverse.__repr__()\n        s = s + \")\"\n        return s\n\n    def to_near_sql_implementation_(\n        self, db_model, *, using, temp_id_source, sql_format_options=None\n    ) -> data_algebra.near_sql.NearSQL:\n        \"\"\"\n        Convert operator dag into NearSQL type for translation to SQL string.\n\n        :param db_model: database model\n        :param using: optional column restriction set\n        :param temp_id_source: source of temporary ids\n        :param sql_format_options: options for sql formatting\n        :return: data_algebra.near_sql.NearSQL\n        \"\"\"\n        return db_model.extend_to_near_sql(",
  "        s = s + \")\"\n        return s\n\n    def to_near_sql_implementation_(\n        self, db_model, *, using, temp_id_source, sql_format_options=None\n    ) -> data_algebra.near_sql.NearSQL:\n        \"\"\"\n        Convert operator dag into NearSQL type for translation to SQL string.\n\n        :param db_model: database model\n        :param using: optional column restriction set\n        :param temp_id_source: source of temporary ids\n        :param sql_format_options: options for sql formatting\n        :return: data_algebra.near_sql.NearSQL\n        \"\"\"\n        return db_model.extend_to_near_sql(")
v("c12-extend-reverse-prints-order_by", "C12", VR,
  "\"reverse=\" + self.reverse.__repr__()\n        s = s + \")\"\n        return s\n\n    def to_near_sql_implementation_(\n        self, db_model, *, using, temp_id_source, sql_format_options=None\n    ) -> data_algebra.near_sql.NearSQL:\n        \"\"\"\n        Convert operator dag into NearSQL type for translation to SQL string.\n\n        :param db_model: database model\n        :param using: optional column restriction set\n        :param temp_id_source: source of temporary ids\n        :param sql_format_options: options for sql formatting\n        :return: data_algebra.near_sql.NearSQL\n        \"\"\"\n        return db_model.extend_to_near_sql(",
  "\"reverse=\" + self.order_by.__repr__()\n        s = s + \")\"\n        return s\n\n    def to_near_sql_implementation_(\n        self, db_model, *, using, temp_id_source, sql_format_options=None\n    ) -> data_algebra.near_sql.NearSQL:\n        \"\"\"\n        Convert operator dag into NearSQL type for translation to SQL string.\n\n        :param db_model: database model\n        :param using: optional column restriction set\n        :param temp_id_source: source of temporary ids\n        :param sql_format_options: options for sql formatting\n        :return: data_algebra.near_sql.NearSQL\n        \"\"\"\n        return db_model.extend_to_near_sql(")
v("c12-order-misspelled-keyword", "C12", VR, "s = s + \", limit=\" + self.limit.__repr__()", "s = s + \", limits=\" + self.limit.__repr__()")
v("c12-order-no-limit", "C12", VR,
  "        if self.limit is not None:\n            s = s + \", limit=\" + self.limit.__repr__()\n", "")
v("c12-concat-swapped-names", "C12", VR,
  "            + \", a_name=\"\n            + self.a_name.__repr__()\n            + \", b_name=\"\n            + self.b_name.__repr__()",
  "            + \", a_name=\"\n            + self.b_name.__repr__()\n            + \", b_name=\"\n            + self.a_name.__repr__()")
v("c12-unary-parens-reverted", "C12", "expr_rep.py",
  "                if want_inline_parens:\n                    return PythonText(\"(\" + result + \")\", is_in_parens=True)\n                return PythonText(result, is_in_parens=False)\n            if self.method:",
  "                return PythonText(result, is_in_parens=False)\n            if self.method:")
v("c12-nary-operands-no-parens", "C12", "expr_rep.py",
  "subs_strs = [str(ai.to_python(want_inline_parens=True)) for ai in self.args]",
  "subs_strs = [str(ai.to_python(want_inline_parens=False)) for ai in self.args]")
v("c12-value-str", "C12", "expr_rep.py",
  "        value_text = self.value.__repr__()\n", "        value_text = str(self.value)\n")
v("c12-negative-literal-ungrouped", "C12", "expr_rep.py",
  "            return PythonText(\"(\" + value_text + \")\", is_in_parens=True)\n        return PythonText(value_text, is_in_parens=False)",
  "            return PythonText(value_text, is_in_parens=False)\n        return PythonText(value_text, is_in_parens=False)")
v("c12-unary-claims-parens", "C12", "expr_rep.py",
  "                    return PythonText(\"(\" + result + \")\", is_in_parens=True)\n                return PythonText(result, is_in_parens=False)\n            if self.method:",
  "                    return PythonText(\"(\" + result + \")\", is_in_parens=True)\n                return PythonText(result, is_in_parens=True)\n            if self.method:")
v("c12-join-str-jointype", "C12", VR,
  "\"on=\" + on_arg.__repr__() + \", jointype=\" + self.jointype.__repr__() + \")\"",
  "\"on=\" + on_arg.__repr__() + \", jointype=\" + str(self.jointype) + \")\"")
v("c12-recordmap-swapped", "C12", "cdata.py",
  "self.blocks_in.__repr__()", "self.blocks_out.__repr__()")
v("c12-twin-spacer", "C12", VR,
  "        s = s + (\".select_columns(\" + self.column_selection.__repr__() + \")\")",
  "        s = s + \".select_columns(\"\n        s = s + self.column_selection.__repr__() + \")\"", expect="silent")
v("c12-twin-repr-fn", "C12", VR,
  "        s = s + (\".drop_columns(\" + self.column_deletions.__repr__() + \")\")",
  "        s = s + (\".drop_columns(\" + repr(self.column_deletions) + \")\")", expect="silent")

# ---------------------------------------------------------------- C06
DOU = "data_ops_utils.py"
v("c06-merge-guard-reverted", "C06", DOU,
  "        if len(ops2_columns_used.intersection(ops1_columns_produced)) > 0:\n            return None\n        if len(ops1_columns_used.intersection(ops2_columns_produced)) > 0:\n            return None  # merged step would read and assign the same column\n        # a column keeps the place",
  "        if len(ops1_columns_used.intersection(ops2_columns_produced)) > 0:\n            return None\n        # a column keeps the place")
v("c06-merged-step-reads-what-it-assigns", "C06", DOU,
  "        if len(ops1_columns_used.intersection(ops2_columns_produced)) > 0:\n            return None  # merged step would read and assign the same column\n",
  "")
v("c06-merge-guard-disjoint-branch", "C06", DOU,
  "    if len(ops2_columns_used.intersection(ops1_columns_produced)) > 0:\n        return None\n\n    # merge the extends",
  "    # merge the extends")
v("c06-merge-guard-wrong-operand", "C06", DOU,
  "    if len(ops2_columns_used.intersection(ops1_columns_produced)) > 0:\n        return None\n\n    # merge the extends",
  "    if len(ops2_columns_used.intersection(ops2_columns_produced)) > 0:\n        return None\n\n    # merge the extends")
v("c06-merge-last-writer", "C06", DOU,
  "    new_ops.update(new_ops2)\n    return new_ops", "    new_ops2.update(new_ops)\n    return new_ops2")
v("c06-merge-ignores-reverse", "C06", VR,
  "                and (order_by == self.order_by)\n                and (reverse == self.reverse)\n", "                and (order_by == self.order_by)\n")
v("c06-merge-ignores-windowing", "C06", VR,
  "                compatible_partition\n                and same_windowing\n", "                compatible_partition\n")
v("c06-order-rows-delegation-drops-limit", "C06", VR,
  "return self.sources[0].order_rows(columns, reverse=reverse, limit=limit)", "return self.sources[0].order_rows(columns, reverse=reverse)")
v("c06-join-delegation-drops-check", "C06", VR,
  "                jointype=jointype,\n                check_all_common_keys_in_equi_spec=check_all_common_keys_in_equi_spec,\n            )\n        return NaturalJoinNode(",
  "                jointype=jointype,\n            )\n        return NaturalJoinNode(")
v("c06-concat-delegation-drops-names", "C06", VR,
  "                b, id_column=id_column, a_name=a_name, b_name=b_name\n            )", "                b, id_column=id_column\n            )")
v("c06-select-columns-no-validation", "C06", VR,
  "        unknown = set(columns) - set(self.column_names)\n        if len(unknown) > 0:\n            raise KeyError(\"selecting unknown columns \" + str(unknown))\n        if self.is_trivial_when_intermediate_():",
  "        if self.is_trivial_when_intermediate_():")
v("c06-order-always-trivial", "C06", VR,
  "        Return if True if operator can be eliminated from interior of chain.\n        \"\"\"\n        return self.limit is None",
  "        Return if True if operator can be eliminated from interior of chain.\n        \"\"\"\n        return True")
v("c06-order-trivial-flipped", "C06", VR,
  "        Return if True if operator can be eliminated from interior of chain.\n        \"\"\"\n        return self.limit is None",
  "        Return if True if operator can be eliminated from interior of chain.\n        \"\"\"\n        return self.limit is not None")
v("c06-twin-len-truthiness", "C06", DOU,
  "    if len(ops1_columns_used.intersection(ops2_columns_produced)) > 0:\n        return None\n    if len(ops2_columns_used",
  "    if ops1_columns_used.intersection(ops2_columns_produced):\n        return None\n    if len(ops2_columns_used", expect="silent")
v("c06-twin-not-limit", "C06", VR,
  "        Return if True if operator can be eliminated from interior of chain.\n        \"\"\"\n        return self.limit is None",
  "        Return if True if operator can be eliminated from interior of chain.\n        \"\"\"\n        return not (self.limit is not None)", expect="silent")

# ---------------------------------------------------------------- C10
v("c10-extend-drops-order_by", "C10", VR,
  "columns_we_take = using.union(self.partition_by, self.order_by, self.reverse)", "columns_we_take = using.union(self.partition_by, self.reverse)")
v("c10-extend-drops-partition_by", "C10", VR,
  "columns_we_take = using.union(self.partition_by, self.order_by, self.reverse)", "columns_we_take = using.union(self.order_by, self.reverse)")
v("c10-extend-no-op-columns", "C10", VR,
  "        columns_we_take = columns_we_take - subops.keys()\n        for k, o in subops.items():\n            o.get_column_names(columns_we_take)\n        return [\n            OrderedSet(",
  "        columns_we_take = columns_we_take - subops.keys()\n        return [\n            OrderedSet(")
v("c10-selectrows-intersects-decision", "C10", VR,
  "        columns_we_take = ordered_intersect(columns_we_take, using)\n        columns_we_take = ordered_union(columns_we_take, self.decision_columns)",
  "        columns_we_take = ordered_union(columns_we_take, self.decision_columns)\n        columns_we_take = ordered_intersect(columns_we_take, using)")
v("c10-order-drops-order-columns", "C10", VR,
  "        cols = cols.intersection(using).union(self.order_columns)", "        cols = cols.intersection(using)")
v("c10-join-drops-on_b", "C10", VR,
  "        using = using.union(self.on_a).union(self.on_b)\n        return [", "        using = using.union(self.on_a)\n        return [")
v("c10-project-drops-group_by", "C10", VR,
  "        columns_we_take = set(self.group_by)\n        for k, o in subops.items():", "        columns_we_take = set()\n        for k, o in subops.items():")
v("c10-rename-identity", "C10", VR,
  "        cols = [\n            (k if k not in self.column_remapping.keys() else self.column_remapping[k])\n            for k in using_tuple\n        ]\n        return [OrderedSet(cols)]",
  "        cols = [k for k in using_tuple]\n        return [OrderedSet(cols)]")
v("c10-map-uses-forward-map", "C10", VR,
  "        reverse_mapping = {v: k for k, v in self.column_remapping.items()}\n        rev_keys", "        reverse_mapping = {k: v for k, v in self.column_remapping.items()}\n        rev_keys")
v("c10-impl-overwrites-record", "C10", VR,
  "            crec.update(using)\n        cu_list", "            crec = OrderedSet(using)\n        cu_list")
v("c10-impl-first-source-only", "C10", VR,
  "        for i in range(len(self.sources)):\n            self.sources[i].columns_used_implementation_(\n                using=cu_list[i],",
  "        for i in range(min(1, len(self.sources))):\n            self.sources[i].columns_used_implementation_(\n                using=cu_list[i],")
v("c10-sql-select-rows-passes-using", "C10", "sql_model.py",
  "        subsql = select_rows_node.sources[0].to_near_sql_implementation_(\n            db_model=self, using=subusing, temp_id_source=temp_id_source",
  "        subsql = select_rows_node.sources[0].to_near_sql_implementation_(\n            db_model=self, using=using, temp_id_source=temp_id_source")
v("c10-twin-union-order", "C10", VR,
  "columns_we_take = using.union(self.partition_by, self.order_by, self.reverse)", "columns_we_take = using.union(self.reverse, self.order_by, self.partition_by)",
  expect="silent")
v("c10-twin-bitor", "C10", VR,
  "        cols = cols.intersection(using).union(self.order_columns)", "        cols = (cols & set(using)) | set(self.order_columns)", expect="silent")

# ---------------------------------------------------------------- C26
v("c26-selectrows-no-unknown-check", "C26", VR,
  "        unknown_cols = self.decision_columns - set(source.column_names)\n        if len(unknown_cols) > 0:\n            raise KeyError(\"referred to unknown columns: \" + str(unknown_cols))\n", "")
v("c26-extend-no-unknown-check", "C26", VR,
  "        unknown_cols = consumed_cols - set(source.column_names)\n        if len(unknown_cols) > 0:\n            raise KeyError(\"referred to unknown columns: \" + str(unknown_cols))\n        known_cols = set(column_names)\n        for ci in parsed_ops.keys():\n            if ci not in known_cols:\n                column_names.append(ci)\n        if len(partition_by)",
  "        known_cols = set(column_names)\n        for ci in parsed_ops.keys():\n            if ci not in known_cols:\n                column_names.append(ci)\n        if len(partition_by)")
v("c26-drop-unknown-direction", "C26", VR,
  "        unknown = set(column_deletions) - set(source.column_names)\n        if len(unknown) > 0:\n            raise KeyError(\"dropping unknown columns \"",
  "        unknown = set(source.column_names) - set(column_deletions)\n        if len(unknown) > 0 and False:\n            raise KeyError(\"dropping unknown columns \"")
v("c26-join-no-right-key-check", "C26", VR,
  "        missing_right = set(on_b) - set(b.column_names)\n        if len(missing_right) > 0:\n            raise KeyError(\"right table missing join keys: \" + str(missing_right))\n", "")
v("c26-join-check-flag-ignored", "C26", VR,
  "        if check_all_common_keys_in_equi_spec:\n            missing_common", "        if False:\n            missing_common")
v("c26-extend-bad-overwrite-unchecked", "C26", VR,
  "        if len(bad_overwrite) > 0:\n            raise ValueError(\"tried to change: \" + str(bad_overwrite))\n", "")
v("c26-project-group-overwrite-unchecked", "C26", VR,
  "        if len(new_cols_produced_in_calc.intersection(group_by)):\n            raise ValueError(\"project can not alter grouping columns\")\n", "")
v("c26-use-and-produce-unchecked", "C26", "expr_parse.py",
  "    if len(intersect) > 0:\n        raise ValueError(\n            \"columns both produced and used in same expression set: \" + str(intersect)\n        )\n", "")
v("c26-project-nonagg-unchecked", "C26", VR,
  "            else:\n                raise ValueError(\n                    \"non-aggregated expression in project: \" + str(k) + \": \" + str(opk)\n                )\n", "")
v("c26-concat-different-columns-unchecked", "C26", VR,
  "        if not set(sources[0].column_names) == set(sources[1].column_names):\n            raise ValueError(\"a and b should have same set of column names\")\n", "")
v("c26-lookup-symbol-returns-none", "C26", "parse_by_lark.py",
  "        except KeyError:\n            raise NameError(f\"unknown symbol: {key}\")", "        except KeyError:\n            return data_algebra.expr_rep.ColumnReference(key)")
v("c26-ordered-fn-without-order-unchecked", "C26", VR,
  "                if (not ordered_windowed_situation) and (\n                    opk.op\n                    in data_algebra.expr_rep.fn_names_that_imply_ordered_windowed_situation\n                ):\n                    raise ValueError(\n                        str(opk) + \"' is not allowed in not-ordered windowed situation\"\n                    )\n", "")
v("c26-twin-rename-unknown", "C26", VR,
  "        unknown = set(column_deletions) - set(source.column_names)\n        if len(unknown) > 0:\n            raise KeyError(\"dropping unknown columns \" + str(unknown))",
  "        not_there = set(column_deletions).difference(source.column_names)\n        if not_there:\n            raise KeyError(\"dropping unknown columns \" + str(not_there))", expect="silent")
v("c06-order_by-as-set", "C06", VR,
  "                and (order_by == self.order_by)\n", "                and (set(order_by) == set(self.order_by))\n")

# ---------------------------------------------------------------- C20
DMS = "data_model_space.py"
v("c20-mem-insert-no-overwrite-assert", "C20", DMS,
  "        assert self.data_model.is_appropriate_data_instance(value)\n        if not allow_overwrite:\n            assert key not in self.data_map.keys()\n",
  "        assert self.data_model.is_appropriate_data_instance(value)\n")
v("c20-mem-execute-no-freshness-loop", "C20", DMS,
  "            key = f\"da_temp_{self.n_tmp}\"\n            while key in self.data_map.keys():\n                self.n_tmp = self.n_tmp + 1\n                key = f\"da_temp_{self.n_tmp}\"\n        assert isinstance(key, str)\n        assert isinstance(allow_overwrite, bool)\n        if not allow_overwrite:\n            assert key not in self.data_map.keys()\n        value = ops.eval",
  "            key = f\"da_temp_{self.n_tmp}\"\n        assert isinstance(key, str)\n        assert isinstance(allow_overwrite, bool)\n        if not allow_overwrite:\n            assert key not in self.data_map.keys()\n        value = ops.eval")
v("c20-mem-execute-store-before-eval", "C20", DMS,
  "        value = ops.eval(data_map=self.data_map, data_model=self.data_model)\n        assert self.data_model.is_appropriate_data_instance(value)\n        self.data_map[key] = value\n",
  "        self.data_map[key] = None\n        value = ops.eval(data_map=self.data_map, data_model=self.data_model)\n        assert self.data_model.is_appropriate_data_instance(value)\n        self.data_map[key] = value\n")
v("c20-db-insert-guard-polarity", "C20", "db_space.py",
  "        if not allow_overwrite:\n            assert key not in self.description_map.keys()\n        self.db_handle.insert_table(",
  "        if allow_overwrite:\n            assert key not in self.description_map.keys()\n        self.db_handle.insert_table(")
v("c20-db-execute-no-allow-assert", "C20", "db_space.py",
  "        if key in self.description_map.keys():\n            assert allow_overwrite\n            self.remove(key)",
  "        if key in self.description_map.keys():\n            self.remove(key)")
v("c20-db-keys-from-autodrop-list", "C20", "db_space.py",
  "        return set(self.description_map.keys())", "        return set(self.eligable_for_auto_drop_list)")
v("c20-twin-if-raise", "C20", DMS,
  "        assert self.data_model.is_appropriate_data_instance(value)\n        if not allow_overwrite:\n            assert key not in self.data_map.keys()\n",
  "        assert self.data_model.is_appropriate_data_instance(value)\n        if (not allow_overwrite) and (key in self.data_map.keys()):\n            raise ValueError(\"key already present\")\n",
  expect="silent")

# ---------------------------------------------------------------- C24 / C25
v("c24-intersect-iterates-b", "C24", "OrderedSet.py",
  "    b = set(b)\n    return OrderedSet([v for v in a if v in b])", "    a = set(a)\n    return OrderedSet([v for v in b if v in a])")
v("c24-diff-keeps-common", "C24", "OrderedSet.py",
  "    a = OrderedSet([v for v in a if v not in b])", "    a = OrderedSet([v for v in a if v in b])")
v("c24-add-moves-to-end", "C24", "OrderedSet.py",
  "        self.impl[elem] = None\n", "        self.impl[elem] = None\n        self.impl.move_to_end(elem)\n")
v("c24-add-pop-then-store", "C24", "OrderedSet.py",
  "        self.impl[elem] = None\n", "        self.impl.pop(elem, None)\n        self.impl[elem] = None\n")
v("c24-union-others-first", "C24", "OrderedSet.py",
  "        res = OrderedSet()\n        for k in self.impl.keys():\n            res.add(k)\n        for other in args:\n            assert not isinstance(other, str)  # treat string as atomic, not iterable\n            for k in other:\n                if k not in res:\n                    res.add(k)\n        return res",
  "        res = OrderedSet()\n        for other in args:\n            assert not isinstance(other, str)  # treat string as atomic, not iterable\n            for k in other:\n                if k not in res:\n                    res.add(k)\n        for k in self.impl.keys():\n            res.add(k)\n        return res")
v("c24-twin-intersect-loop-var", "C24", "OrderedSet.py",
  "    b = set(b)\n    return OrderedSet([v for v in a if v in b])", "    b_set = set(b)\n    return OrderedSet([item for item in a if item in b_set])", expect="silent")
v("c25-key-drops-sql", "C25", "eval_cache.py", "        sql=sql,\n        dat_map_list", "        sql=\"\",\n        dat_map_list")
v("c25-hash-head-only", "C25", "eval_cache.py", "        .pd.util.hash_pandas_object(d)\n", "        .pd.util.hash_pandas_object(d.head(100))\n")
v("c25-hash-no-index", "C25", "eval_cache.py", "        .pd.util.hash_pandas_object(d)\n", "        .pd.util.hash_pandas_object(d, index=False)\n")
v("c25-hash-drops-columns", "C25", "eval_cache.py", "    return f\"{d.shape}_{list(d.columns)}_{hash_str}_{type_str}\"", "    return f\"{d.shape}_{hash_str}_{type_str}\"")
v("c25-get-no-copy", "C25", "eval_cache.py", "        return res.copy()", "        return res")
v("c25-store-no-copy", "C25", "eval_cache.py", "        self.result_cache[op_key] = res.copy()", "        self.result_cache[op_key] = res")
v("c25-key-first-table-only", "C25", "eval_cache.py",
  "for k in data_map_keys]),\n    )", "for k in data_map_keys[:1]]),\n    )")
v("c25-twin-sorted", "C25", "eval_cache.py",
  "    data_map_keys = list(data_map.keys())\n    data_map_keys.sort()\n", "    data_map_keys = sorted(data_map.keys())\n", expect="silent")

# ---------------------------------------------------------------- C22
DS = "data_schema.py"
v("c22-check-return-ignores-switch", "C22", DS,
  "    def check_return(self, *, fname: str, return_value) -> None:\n        if not SchemaCheckSwitch().is_on():\n            return\n",
  "    def check_return(self, *, fname: str, return_value) -> None:\n")
v("c22-check-args-switch-polarity", "C22", DS,
  "        if not SchemaCheckSwitch().is_on():\n            return\n        assert isinstance(fname, str)\n        # check positional args (by name)",
  "        if SchemaCheckSwitch().is_on():\n            return\n        assert isinstance(fname, str)\n        # check positional args (by name)")
v("c22-wrapped-returns-copy", "C22", DS,
  "            return type_check_return_value\n", "            return type_check_return_value.copy()\n")
v("c22-wrapped-rebinds", "C22", DS,
  "            type_check_self.check_return(\n                fname=type_check_fn_name, return_value=type_check_return_value\n            )\n            return type_check_return_value",
  "            type_check_self.check_return(\n                fname=type_check_fn_name, return_value=type_check_return_value\n            )\n            type_check_return_value = pd.DataFrame(type_check_return_value)\n            return type_check_return_value")
v("c22-set-normalisation-reverted", "C22", DS,
  "        new_set = {vi for vi in new_set if vi is not None}", "        new_set = {vi for vi in v if v is not None}")
v("c22-null-cells-checked", "C22", DS,
  "                        if not _is_null(vi):\n                            msg_i = self._check_spec(\n                                expected_type=spec_i, observed_value=vi\n                            )\n                            if msg_i is not None:\n                                msgs.append(f\" column '{col_name}' {msg_i}\")\n                                break",
  "                        msg_i = self._check_spec(\n                            expected_type=spec_i, observed_value=vi\n                        )\n                        if msg_i is not None:\n                            msgs.append(f\" column '{col_name}' {msg_i}\")\n                            break")
v("c22-raises-valueerror", "C22", DS,
  "            raise TypeError(f\"{fname}() return value: {msg}\", return_value)", "            raise ValueError(f\"{fname}() return value: {msg}\", return_value)")
v("c22-missing-column-silent", "C22", DS,
  "            if col_name not in col_set:\n                msgs.append(f\"missing required column '{col_name}'\")\n            else:\n                if (spec_i is not None) and (d.shape[0] > 0):",
  "            if col_name in col_set:\n                if (spec_i is not None) and (d.shape[0] > 0):")
v("c22-twin-switch-var", "C22", DS,
  "    def check_return(self, *, fname: str, return_value) -> None:\n        if not SchemaCheckSwitch().is_on():\n            return\n",
  "    def check_return(self, *, fname: str, return_value) -> None:\n        if SchemaCheckSwitch().is_on() is False:\n            return\n", expect="silent")

# ---------------------------------------------------------------- C09
SM = "sql_model.py"
PB = "pandas_base.py"
v("c09-groupby-filtered-by-using", "C09", SM,
  "            group_terms = [self.quote_identifier(c) for c in project_node.group_by]",
  "            group_terms = [self.quote_identifier(c) for c in project_node.group_by if c in using]")
v("c09-terms-filtered-by-using", "C09", SM,
  "        terms.update({g: None for g in project_node.group_by})", "        terms.update({g: None for g in project_node.group_by if g in using})")
v("c09-no-emptiness-guard", "C09", SM,
  "        if (len(project_node.group_by) < 1) and (\n            len(set(using).intersection(project_node.ops.keys())) < 1\n        ):\n            # an un-grouped project must keep an aggregation to return exactly one row\n            using = OrderedSet(using).union([list(project_node.ops.keys())[0]])\n",
  "")
v("c09-emitter-star-on-empty", "C09", SM,
  "            if (columns is None) or (len(columns) < 1):\n                # nothing specific requested", "            if columns is None:\n                # nothing specific requested")
v("c09-pandas-project-dropna-default", "C09", PB,
  "            res = res.groupby(op.group_by, observed=True, dropna=False)", "            res = res.groupby(op.group_by, observed=True)")
v("c09-pandas-window-dropna-true", "C09", PB,
  "                opframe = subframe.groupby(op.partition_by, observed=True, dropna=False)", "                opframe = subframe.groupby(op.partition_by, observed=True, dropna=True)")
v("c09-polars-no-empty-row", "C09", "polars_model.py",
  "            if res.shape[0] <= 0:\n                # make a one row frame", "            if False:\n                # make a one row frame")
v("c09-twin-rename-group-terms", "C09", SM,
  "            group_terms = [self.quote_identifier(c) for c in project_node.group_by]\n            suffix = [\"GROUP BY\"] + self._indent_and_sep_terms(\n                group_terms,",
  "            gterms = [self.quote_identifier(gc) for gc in project_node.group_by]\n            suffix = [\"GROUP BY\"] + self._indent_and_sep_terms(\n                gterms,", expect="silent")

# ---------------------------------------------------------------- C04
v("c04-merge-keeps-old-ops_key", "C04", SM,
  "                if subsql.ops_key is not None:\n                    subsql.ops_key = f\"{subsql.ops_key}.merged({annotation}, {list(subsql.terms.keys())})\"\n", "")
v("c04-merge-key-ignores-new-terms", "C04", SM,
  "                    subsql.ops_key = f\"{subsql.ops_key}.merged({annotation}, {list(subsql.terms.keys())})\"\n", "                    subsql.ops_key = f\"{subsql.ops_key}.merged\"\n")
v("c04-window-vars-without-order_by", "C04", SM,
  "                window_vars.update(extend_node.order_by)\n", "")
v("c04-merge-ignores-suffix", "C04", SM,
  "            and (subsql.declared_term_dependencies is not None)\n            and ((subsql.suffix is None) or (len(subsql.suffix) == 0))\n",
  "            and (subsql.declared_term_dependencies is not None)\n")
v("c04-contention-drops-needs", "C04", SM,
  "                set(our_non_trivial_terms).intersection(sub_needs),\n", "")
v("c04-cte-key-without-columns", "C04", "near_sql.py",
  "                if self.columns is not None:\n                    ops_key = f\"{ops_key}_{list(self.columns)}\"\n", "")
v("c04-cte-key-none-as-text", "C04", "near_sql.py",
  "            ops_key = self.near_sql.ops_key  # None: step has no reliable identity, never share it\n            if ops_key is not None:\n                ops_key = f\"{ops_key}\"\n                if self.columns is not None:\n                    ops_key = f\"{ops_key}_{list(self.columns)}\"\n",
  "            ops_key = f\"{self.near_sql.ops_key}\"\n            if self.columns is not None:\n                ops_key = f\"{ops_key}_{list(self.columns)}\"\n")
v("c04-unary-rewrap-drops-suffix", "C04", "near_sql.py",
  "            sub_sql=stub,\n            suffix=self.suffix,\n            annotation=self.annotation,\n            ops_key=self.ops_key,\n        )\n        return SQLWithList(last_step=stubbed_step, previous_steps=sequence)\n\n\nclass NearSQLBinaryStep",
  "            sub_sql=stub,\n            annotation=self.annotation,\n            ops_key=self.ops_key,\n        )\n        return SQLWithList(last_step=stubbed_step, previous_steps=sequence)\n\n\nclass NearSQLBinaryStep")
v("c04-binary-rewrap-wrong-joiner", "C04", "near_sql.py", "            joiner=self.joiner,\n            sub_sql2=stub2,", "            joiner=\"UNION ALL\",\n            sub_sql2=stub2,")
v("c04-stub-container-drops-public-name", "C04", "near_sql.py",
  "                        near_sql=retrieved_cte,\n                        columns=self.columns,\n                        force_sql=self.force_sql,\n                        public_name=self.public_name,\n                        public_name_quoted=self.public_name_quoted,",
  "                        near_sql=retrieved_cte,\n                        columns=self.columns,\n                        force_sql=self.force_sql,")
v("c04-annotate-changes-terms", "C04", SM,
  "            clean_anno = _clean_annotation(near_sql.annotation)\n            if clean_anno is not None:\n                sql_start = \"SELECT  -- \" + clean_anno\n        sql = (\n            [sql_start]\n            + self._indent_and_sep_terms(\n                terms_strs, sql_format_options=sql_format_options\n            )\n            + [\"FROM\"]\n            + [\n                sql_format_options.sql_indent + si\n                for si in near_sql.sub_sql.convert_subsql(",
  "            clean_anno = _clean_annotation(near_sql.annotation)\n            terms_strs = sorted(terms_strs)\n            if clean_anno is not None:\n                sql_start = \"SELECT  -- \" + clean_anno\n        sql = (\n            [sql_start]\n            + self._indent_and_sep_terms(\n                terms_strs, sql_format_options=sql_format_options\n            )\n            + [\"FROM\"]\n            + [\n                sql_format_options.sql_indent + si\n                for si in near_sql.sub_sql.convert_subsql(")
v("c04-initial-commas-drops-last", "C04", SM,
  "                + terms[i]\n                for i in range(n)\n            ]\n        return [", "                + terms[i]\n                for i in range(n - 1)\n            ]\n        return [")
v("c04-indent-not-whitespace", "C04", "sql_format_options.py", "        assert len(sql_indent.strip()) == 0\n", "")
v("c04-twin-key-join", "C04", "near_sql.py",
  "                    ops_key = f\"{ops_key}_{list(self.columns)}\"", "                    ops_key = ops_key + \"_\" + str(list(self.columns))", expect="silent")

# ---------------------------------------------------------------- C05
v("c05-maximum-fmax-swapped-back", "C05", SM,
  "    \"maximum\": _db_fmax_expr,\n    \"fmax\": _db_maximum_expr,", "    \"maximum\": _db_maximum_expr,\n    \"fmax\": _db_fmax_expr,")
v("c05-if-else-else-branch", "C05", SM,
  "        + y_expr\n        + \" ELSE \"\n        + \"NULL\"\n        + \" END\"\n    )\n\n\ndef _db_where_expr", "        + y_expr\n        + \" ELSE \"\n        + y_expr\n        + \" END\"\n    )\n\n\ndef _db_where_expr")
v("c05-where-swapped", "C05", SM,
  "    return \"CASE\" + \" WHEN \" + if_expr + \" THEN \" + x_expr + \" ELSE \" + y_expr + \" END\"",
  "    return \"CASE\" + \" WHEN \" + if_expr + \" THEN \" + y_expr + \" ELSE \" + x_expr + \" END\"")
v("c05-postgres-log-base10", "C05", "PostgreSQL.py", "        op_replacements[\"log\"] = \"LN\"\n", "        op_replacements[\"log\"] = \"LOG\"\n")
v("c05-postgres-std-pop", "C05", "PostgreSQL.py", "        op_replacements[\"std\"] = \"STDDEV_SAMP\"", "        op_replacements[\"std\"] = \"STDDEV_POP\"")
v("c05-sqlite-unregister-arccosh", "C05", "SQLite.py", "            \"arccosh\": functools.partial(_wrap_numpy_fn, numpy.arccosh),\n", "")
v("c05-sqlite-unregister-expm1-b", "C05", "SQLite.py", "            \"expm1\": functools.partial(_wrap_numpy_fn, numpy.expm1),\n", "", expect="silent")
v("c05-sqlite-log-is-log10", "C05", "SQLite.py", "            \"log\": functools.partial(_wrap_scalar_fn, math.log),", "            \"log\": functools.partial(_wrap_scalar_fn, math.log10),")
v("c05-pandas-drop-coalesce", "C05", PB, "            \"coalesce\": lambda a, b: self._coalesce(a, b),  # assuming Pandas series\n", "")
v("c05-formatter-key-typo", "C05", SM, "    \"is_null\": _db_is_null_expr,", "    \"isnull\": _db_is_null_expr,")
v("c05-twin-case-parens", "C05", SM,
  "    return \"CASE\" + \" WHEN \" + if_expr + \" THEN \" + x_expr + \" ELSE \" + y_expr + \" END\"",
  "    return \"CASE WHEN (\" + if_expr + \") THEN \" + x_expr + \" ELSE \" + y_expr + \" END\"", expect="silent")

# ---------------------------------------------------------------- C16
v("c16-right-rewrite-keys-unswapped", "C16", "SQLite.py",
  "        join_node_copy_right.on_a = join_node.on_b\n        join_node_copy_right.on_b = join_node.on_a\n", "")
v("c16-sql-coalesce-prefers-right", "C16", SM,
  "        if left_is_first:\n            terms = self._coalesce_terms(\n                sub_view_name_first=left_qqn,\n                sub_view_name_second=right_qqn,",
  "        if left_is_first:\n            terms = self._coalesce_terms(\n                sub_view_name_first=right_qqn,\n                sub_view_name_second=left_qqn,")
v("c16-on-clause-crossed", "C16", SM,
  "                    left_qqn\n                    + \".\"\n                    + self.quote_identifier(c_a)\n                    + \" = \"\n                    + right_qqn\n                    + \".\"\n                    + self.quote_identifier(c_b)",
  "                    left_qqn\n                    + \".\"\n                    + self.quote_identifier(c_b)\n                    + \" = \"\n                    + right_qqn\n                    + \".\"\n                    + self.quote_identifier(c_a)")
v("c16-pandas-full-maps-left", "C16", PB, "            \"full\": \"outer\",", "            \"full\": \"left\",")
v("c16-pandas-fill-right-from-left", "C16", PB,
  "                elif is_null.any():\n                    res.loc[is_null, c] = res.loc[is_null, c + \"_tmp_right_col\"]",
  "                elif (~is_null).any():\n                    res.loc[~is_null, c] = res.loc[~is_null, c + \"_tmp_right_col\"]")
v("c16-pandas-twin-cleanup-on_a-only", "C16", PB,
  "        merged_key_cols = {c_a for c_a, c_b in zip(op.on_a, op.on_b) if c_a == c_b}", "        merged_key_cols = set(op.on_a)")
v("c16-polars-prefers-right", "C16", "polars_model.py",
  "                        pl.when(pl.col(c).is_null())\n                        .then(pl.col(c + \"_da_right_tmp\"))\n                        .otherwise(pl.col(c))",
  "                        pl.when(pl.col(c + \"_da_right_tmp\").is_null())\n                        .then(pl.col(c))\n                        .otherwise(pl.col(c + \"_da_right_tmp\"))")
v("c16-sqlite-full-not-rewritten", "C16", "SQLite.py",
  "        if join_node.jointype == \"FULL\":\n            return self._emit_full_join_as_complex(", "        if join_node.jointype == \"FULL_\":\n            return self._emit_full_join_as_complex(")
v("c16-twin-tuple-swap", "C16", "SQLite.py",
  "        join_node_copy_right.on_a = join_node.on_b\n        join_node_copy_right.on_b = join_node.on_a\n",
  "        join_node_copy_right.on_a, join_node_copy_right.on_b = (join_node.on_b, join_node.on_a)\n", expect="silent")
# ---------------------------------------------------------------- C01
v("c01-pandas-dispatch-missing-rename", "C01", PB, "            \"RenameColumnsNode\": self._rename_columns_step,\n", "")
v("c01-sql-generator-ignores-using", "C01", SM,
  "        subsql = order_node.sources[0].to_near_sql_implementation_(\n            db_model=self, using=set(subusing), temp_id_source=temp_id_source",
  "        subsql = order_node.sources[0].to_near_sql_implementation_(\n            db_model=self, using=None, temp_id_source=temp_id_source")
v("c01-window-vars-without-partition", "C01", SM, "                window_vars.update(extend_node.partition_by)\n", "")
v("c01-sqlite-drops-ceiling-and-ceil", "C01", "SQLite.py", "            \"tanh\": functools.partial(_wrap_numpy_fn, numpy.tanh),\n", "            \"tanh_\": functools.partial(_wrap_numpy_fn, numpy.tanh),\n", expect="silent")
v("c01-sqlite-unregisters-tanh-math-only", "C01", "SQLite.py",
  "            \"tanh\": functools.partial(_wrap_scalar_fn, math.tanh),\n", "", expect="silent")
v("c01-sqlite-unregisters-sqrt", "C01", "SQLite.py",
  "            \"sqrt\": functools.partial(_wrap_scalar_fn, math.sqrt),\n", "            \"sqrt_\": functools.partial(_wrap_scalar_fn, math.sqrt),\n", expect="silent")
# ---------------------------------------------------------------- C02
v("c02-log-base10", "C02", "PostgreSQL.py", "        op_replacements[\"log\"] = \"LN\"\n", "")
v("c02-var-pop", "C02", "PostgreSQL.py", "        op_replacements[\"var\"] = \"VAR_SAMP\"", "        op_replacements[\"var\"] = \"VAR_POP\"")
v("c02-as-int64-bigquery-type", "C02", "PostgreSQL.py", "    \"as_int64\": _postgresql_as_int64,\n", "")
v("c02-uniform-rand", "C02", "PostgreSQL.py", "        op_replacements[\"_uniform\"] = \"RANDOM\"\n", "")
v("c02-cte-key-none-as-text", "C02", "near_sql.py",
  "            ops_key = self.near_sql.ops_key  # None: step has no reliable identity, never share it\n            if ops_key is not None:\n                ops_key = f\"{ops_key}\"\n                if self.columns is not None:\n                    ops_key = f\"{ops_key}_{list(self.columns)}\"\n",
  "            ops_key = f\"{self.near_sql.ops_key}\"\n            if self.columns is not None:\n                ops_key = f\"{ops_key}_{list(self.columns)}\"\n")
v("c02-merge-keeps-old-ops_key", "C02", SM,
  "                if subsql.ops_key is not None:\n                    subsql.ops_key = f\"{subsql.ops_key}.merged({annotation}, {list(subsql.terms.keys())})\"\n", "")


# ---------------------------------------------------------------- C13
PBL = "parse_by_lark.py"
v("c13-minus-maps-to-add", "C13", PBL, "    \"-\": \"__sub__\",", "    \"-\": \"__add__\",")
v("c13-floordiv-maps-to-truediv", "C13", PBL, "    \"//\": \"__floordiv__\",", "    \"//\": \"__truediv__\",")
v("c13-unary-minus-pos", "C13", PBL, "    \"-\": \"__neg__\",  # unary!", "    \"-\": \"__pos__\",  # unary!")
v("c13-term-sub-emits-plus", "C13", "expr_rep.py", "        return self.__op_expr__(\"-\", other)", "        return self.__op_expr__(\"+\", other)")
v("c13-rsub-not-reflected", "C13", "expr_rep.py", "        return self.__rop_expr__(\"-\", other)", "        return self.__op_expr__(\"-\", other)")
v("c13-rop-does-not-swap", "C13", "expr_rep.py", "        return Expression(op, (other, self), inline=inline, method=method)", "        return Expression(op, (self, other), inline=inline, method=method)")
v("c13-grammar-mul-below-add", "C13", "python3_lark.py",
  "?arith_expr: term (_add_op term)*\n?term: factor (_mul_op factor)*", "?arith_expr: term (_mul_op term)*\n?term: factor (_add_op factor)*")
v("c13-grammar-power-left-operand", "C13", "python3_lark.py", "?power: await_expr (\"**\" factor)?", "?power: await_expr (\"**\" await_expr)*")
v("c13-grammar-not-above-and", "C13", "python3_lark.py",
  "?and_test: not_test (\"and\" not_test)*\n?not_test: \"not\" not_test -> not\n         | comparison", "?and_test: comparison (\"and\" comparison)*\n?not_test: \"not\" not_test -> not\n         | comparison")
v("c13-chained-comparison-left-fold", "C13", PBL,
  "                if (r_op.data == \"comparison\") and (nc > 3):", "                if (r_op.data == \"comparison\") and (nc > 5):")
v("c13-fold-right", "C13", PBL,
  "                    res = getattr(res, op_name)(\n                        _r_walk_lark_tree(r_op.children[2 * i + 2])\n                    )",
  "                    res = getattr(_r_walk_lark_tree(r_op.children[2 * i + 2]), op_name)(\n                        res\n                    )")
v("c13-not-is-eq-true", "C13", PBL, "                return getattr(left, op_name)(data_algebra.expr_rep.Value(False))", "                return getattr(left, op_name)(data_algebra.expr_rep.Value(True))")
v("c13-minus-nary", "C13", PBL, "                    if op_name in {\"+\", \"*\"}:", "                    if op_name in {\"+\", \"*\", \"-\"}:")
v("c13-twin-dict-format", "C13", PBL, "    \"==\": \"__eq__\",\n    \"!=\": \"__ne__\",", "    \"!=\": \"__ne__\",\n    \"==\": \"__eq__\",", expect="silent")

# ---------------------------------------------------------------- C17
v("c17-inverse-not-swapped", "C17", "cdata.py",
  "            blocks_in=self.blocks_out, blocks_out=self.blocks_in, strict=True", "            blocks_in=self.blocks_in, blocks_out=self.blocks_out, strict=True")
v("c17-transform-order-swapped", "C17", "cdata.py",
  "        if self.blocks_in is not None:\n            X = local_data_model.blocks_to_rowrecs(X, blocks_in=self.blocks_in)\n        if self.blocks_out is not None:\n            X = local_data_model.rowrecs_to_blocks(\n                X,\n                blocks_out=self.blocks_out,\n            )\n        return X",
  "        if self.blocks_out is not None:\n            X = local_data_model.rowrecs_to_blocks(\n                X,\n                blocks_out=self.blocks_out,\n            )\n        if self.blocks_in is not None:\n            X = local_data_model.blocks_to_rowrecs(X, blocks_in=self.blocks_in)\n        return X")
v("c17-transform-wrong-guard", "C17", "cdata.py",
  "        if self.blocks_out is not None:\n            X = local_data_model.rowrecs_to_blocks(", "        if self.blocks_in is not None:\n            X = local_data_model.rowrecs_to_blocks(")
v("c17-compose-order", "C17", "cdata.py", "        s1 = other\n        s2 = self\n", "        s1 = self\n        s2 = other\n")
v("c17-transform-drops-result", "C17", "cdata.py",
  "            X = local_data_model.blocks_to_rowrecs(X, blocks_in=self.blocks_in)", "            Y = local_data_model.blocks_to_rowrecs(X, blocks_in=self.blocks_in)")
v("c17-sql-wrong-spec", "C17", VR,
  "            pi, si = db_model.row_recs_to_blocks_query_str_list_pair(\n                record_spec=self.record_map.blocks_out", "            pi, si = db_model.row_recs_to_blocks_query_str_list_pair(\n                record_spec=self.record_map.blocks_in")
v("c17-twin-local-name", "C17", "cdata.py",
  "        assert self.strict\n        return RecordMap(\n            blocks_in=self.blocks_out, blocks_out=self.blocks_in, strict=True\n        )",
  "        assert self.strict\n        inv = RecordMap(\n            blocks_in=self.blocks_out, blocks_out=self.blocks_in, strict=True\n        )\n        return inv", expect="silent")

# ---------------------------------------------------------------- C19
v("c19-table-step-returns-input", "C19", PB,
  "        res = df.loc[:, columns_using]\n        res = self.clean_copy(res)\n        return res", "        res = df\n        return res")
v("c19-table-step-drop-indices-on-input", "C19", PB,
  "        res = df.loc[:, columns_using]\n        res = self.clean_copy(res)\n        return res", "        self.drop_indices(df)\n        res = df.loc[:, columns_using]\n        res = self.clean_copy(res)\n        return res")
v("c19-polars-extend-aliases-partition", "C19", "polars_model.py",
  "            order_cols = list(partition_by)\n            partition_set = set(partition_by)\n            for c in op.order_by:\n                if c not in partition_set:\n                    order_cols.append(c)",
  "            order_cols = partition_by\n            partition_set = set(partition_by)\n            for c in op.order_by:\n                if c not in partition_set:\n                    order_cols.append(c)")
v("c19-pandas-join-extends-on_a", "C19", PB,
  "            on_a = [scratch_col]\n            on_b = [scratch_col]\n", "            on_a.append(scratch_col)\n            on_b.append(scratch_col)\n")
v("c19-sql-extend-mutates-ops", "C19", SM,
  "        subops = OrderedDict()\n        for k, op in extend_node.ops.items():\n            if k in using:\n                subops[k] = op",
  "        subops = extend_node.ops\n        for k in [k for k in subops.keys() if k not in using]:\n            del subops[k]")
v("c19-sqlite-right-join-mutates-node", "C19", "SQLite.py",
  "        join_node_copy_right = copy.copy(join_node)\n", "        join_node_copy_right = join_node\n")
v("c19-node-method-caches", "C19", VR,
  "        self.columns_used()  # for table consistency check/raise\n        if pretty:", "        self.column_names = tuple(self.column_names)\n        self.columns_used()  # for table consistency check/raise\n        if pretty:")
v("c19-transform-inplace-on-X", "C19", "cdata.py",
  "        X = local_data_model.clean_copy(X)\n        if self.blocks_in is not None:", "        X.reset_index(drop=True, inplace=True)\n        if self.blocks_in is not None:")
v("c19-twin-copy-list", "C19", "polars_model.py",
  "            order_cols = list(partition_by)\n", "            order_cols = [c for c in partition_by]\n", expect="silent")

# ---------------------------------------------------------------- C18
v("c18-select-rows-no-clean-copy", "C18", PB, "        res = self.clean_copy(res.loc[selection, :])\n        return res", "        res = res.loc[selection, :]\n        return res")
v("c18-order-rows-no-ignore-index", "C18", PB,
  "                ascending=ascending,\n                ignore_index=True,\n                inplace=False,\n            )\n            self.drop_indices(res)",
  "                ascending=ascending,\n                inplace=False,\n            )")
v("c18-blocks-sort-keeps-index", "C18", PB,
  "                s.sort_values(\n                    by=blocks_in.record_keys, inplace=False, ignore_index=True\n                )\n                for s in split",
  "                s.sort_values(by=blocks_in.record_keys, inplace=False)\n                for s in split")
v("c18-concat-rows-keeps-index", "C18", PB,
  "        res = self.pd.concat([left, right], axis=0, ignore_index=True, sort=False)\n        self.drop_indices(res)\n        return res",
  "        res = self.pd.concat([left, right], axis=0, sort=False)\n        return res")
v("c18-pandas-ascending-flipped", "C18", PB,
  "                False if ci in set(op.reverse) else True for ci in op.order_columns", "                True if ci in set(op.reverse) else False for ci in op.order_columns")
v("c18-polars-descending-flipped", "C18", "polars_model.py",
  "            True if ci in set(op.reverse) else False for ci in op.order_columns", "            False if ci in set(op.reverse) else True for ci in op.order_columns")
v("c18-sql-desc-flipped", "C18", SM,
  "                        + (\" DESC\" if ci in set(order_node.reverse) else \"\")", "                        + (\"\" if ci in set(order_node.reverse) else \" DESC\")")
v("c18-pandas-limit-before-sort", "C18", PB,
  "        res = self._eval_value_source(op.sources[0], data_map=data_map)\n        if res.shape[0] > 1:\n            ascending = [",
  "        res = self._eval_value_source(op.sources[0], data_map=data_map)\n        if (op.limit is not None) and (res.shape[0] > op.limit):\n            res = self.clean_copy(res.iloc[range(op.limit), :])\n        if res.shape[0] > 1:\n            ascending = [")
v("c18-sql-limit-before-order", "C18", SM,
  "        suffix: List[str] = []\n        if len(order_node.order_columns) > 0:", "        suffix: List[str] = []\n        if order_node.limit is not None:\n            suffix = suffix + [\"LIMIT \" + order_node.limit.__repr__()]\n        if len(order_node.order_columns) > 0:")
v("c18-polars-flags-over-reverse", "C18", "polars_model.py",
  "            True if ci in set(op.reverse) else False for ci in op.order_columns\n        ]\n        res = res.sort(\n",
  "            True for ci in op.reverse\n        ]\n        res = res.sort(\n")
v("c18-twin-reset-index", "C18", PB, "        res = self.clean_copy(res.loc[selection, :])\n        return res", "        res = res.loc[selection, :].reset_index(drop=True)\n        return res", expect="silent")
v("c18-twin-redundant-clean-copy-removed", "C18", PB,
  "            res = self.clean_copy(res.iloc[range(op.limit), :])", "            res = res.iloc[range(op.limit), :]", expect="silent")

# ---------------------------------------------------------------- C27
v("c27-pandas-no-partition-groupby", "C27", PB,
  "                opframe = subframe.groupby(op.partition_by, observed=True, dropna=False)", "                opframe = subframe.groupby([standin_name], observed=True, dropna=False)")
v("c27-pandas-window-ascending-ignores-reverse", "C27", PB, "            ascending = [c not in set(op.reverse) for c in order_cols]", "            ascending = [True for c in order_cols]")
v("c27-pandas-window-ascending-flipped", "C27", PB, "            ascending = [c not in set(op.reverse) for c in order_cols]", "            ascending = [c in set(op.reverse) for c in order_cols]")
v("c27-pandas-no-restore-sort", "C27", PB, "            subframe = subframe.sort_values(by=[\"_data_algebra_orig_index\"])\n", "")
v("c27-pandas-sort-no-clean", "C27", PB,
  "                subframe = self.clean_copy(\n                    subframe.sort_values(\n                        by=order_cols, ascending=ascending, kind=\"stable\"\n                    )\n                )",
  "                subframe = subframe.sort_values(by=order_cols, ascending=ascending, kind=\"stable\")", expect="silent")
v("c27-sql-no-desc", "C27", SM, "                    self.quote_identifier(ci) + (\" DESC\" if ci in revs else \"\")", "                    self.quote_identifier(ci)")
v("c27-sql-no-partition-clause", "C27", SM,
  "                window_term = window_term + \"PARTITION BY \" + \", \".join(pt) + \" \"\n", "                window_term = window_term + \" \"\n")
v("c27-sql-first-term-only", "C27", SM,
  "            terms[ci] = self.expr_to_sql(oi) + window_term\n", "            terms[ci] = self.expr_to_sql(oi) + (window_term if ci == list(subops.keys())[0] else \"\")\n")
v("c27-polars-sort-after-compute", "C27", "polars_model.py",
  "        if len(op.order_by) > 0:\n            order_cols = list(partition_by)\n",
  "        res = res.with_columns(produced_columns)\n        produced_columns = []\n        if len(op.order_by) > 0:\n            order_cols = list(partition_by)\n")
v("c27-polars-over-dropped", "C27", "polars_model.py", "                fld_k = fld_k.over(partition_by)\n", "                fld_k = fld_k\n")
v("c27-polars-descending-flipped", "C27", "polars_model.py",
  "                True if ci in set(op.reverse) else False for ci in op.order_by", "                False if ci in set(op.reverse) else True for ci in op.order_by")
v("c27-twin-rename-revs", "C27", SM, "                revs = set(extend_node.reverse)\n                rt = [\n                    self.quote_identifier(ci) + (\" DESC\" if ci in revs else \"\")",
  "                reversed_set = set(extend_node.reverse)\n                rt = [\n                    self.quote_identifier(ci) + (\" DESC\" if ci in reversed_set else \"\")", expect="silent")

# ---------------------------------------------------------------- C08
v("c08-extend-temps-not-deleted", "C08", PB,
  "            for value_name in data_algebra_temp_cols.values():\n                del res[value_name]\n", "")
v("c08-extend-subframe-not-reselected", "C08", PB,
  "            subframe = subframe.loc[:, list(op.ops.keys())]\n", "")
v("c08-extend-delete-wrong-frame", "C08", PB,
  "            for value_name in data_algebra_temp_cols.values():\n                del res[value_name]\n",
  "            for value_name in data_algebra_temp_cols.values():\n                del subframe[value_name]\n")
v("c08-project-standin-not-dropped", "C08", PB,
  "        if \"_data_table_temp_col\" in res.columns:\n            res = res.drop(\"_data_table_temp_col\", axis=1, inplace=False)\n", "")
v("c08-join-scratch-not-deleted", "C08", PB,
  "        if scratch_col is not None:\n            del res[scratch_col]\n", "")
v("c08-join-scratch-delete-under-wrong-guard", "C08", PB,
  "        if scratch_col is not None:\n            del res[scratch_col]\n",
  "        if (scratch_col is not None) and (len(common_cols) > 0):\n            del res[scratch_col]\n")
v("c08-twin-join-scratch-drop", "C08", PB,
  "        if scratch_col is not None:\n            del res[scratch_col]\n",
  "        if scratch_col is not None:\n            res = res.drop(scratch_col, axis=1, inplace=False)\n", expect="silent")
v("c08-twin-project-standin-del", "C08", PB,
  "        if \"_data_table_temp_col\" in res.columns:\n            res = res.drop(\"_data_table_temp_col\", axis=1, inplace=False)\n",
  "        if \"_data_table_temp_col\" in res.columns:\n            del res[\"_data_table_temp_col\"]\n", expect="silent")
v("c08-polars-extend-no-select", "C08", "polars_model.py",
  "        res = res.with_columns(produced_columns)\n        if len(temp_v_columns) > 0:\n            res = res.select(op.columns_produced())\n",
  "        res = res.with_columns(produced_columns)\n")
v("c08-polars-extend-select-under-other-guard", "C08", "polars_model.py",
  "        res = res.with_columns(produced_columns)\n        if len(temp_v_columns) > 0:\n            res = res.select(op.columns_produced())\n",
  "        res = res.with_columns(produced_columns)\n        if len(temp_v_columns) > 1:\n            res = res.select(op.columns_produced())\n")
v("c08-twin-polars-extend-select-always", "C08", "polars_model.py",
  "        res = res.with_columns(produced_columns)\n        if len(temp_v_columns) > 0:\n            res = res.select(op.columns_produced())\n",
  "        res = res.with_columns(produced_columns)\n        res = res.select(op.columns_produced())\n", expect="silent")
v("c08-polars-join-no-select", "C08", "polars_model.py",
  "                        .alias(c)\n                    )\n        res = res.select(op.columns_produced())\n        return res\n\n    def _order_rows_step(",
  "                        .alias(c)\n                    )\n        return res\n\n    def _order_rows_step(")
v("c08-sql-select-rows-terms-ignore-using", "C08", SM,
  "        terms = {ci: None for ci in using}\n        suffix = [\"WHERE\"]",
  "        terms = {ci: None for ci in select_rows_node.sources[0].column_names}\n        suffix = [\"WHERE\"]")
v("c08-sql-to_sql-using-empty", "C08", SM,
  "db_model=self, using=None, temp_id_source=temp_id_source", "db_model=self, using=set(), temp_id_source=temp_id_source")

# ---------------------------------------------------------------- C14
v("c14-map-columns-raw-source-name", "C14", SM,
  "            ki: self.quote_identifier(vi)\n            for (vi, ki) in map_columns_node.column_remapping.items()",
  "            ki: vi\n            for (vi, ki) in map_columns_node.column_remapping.items()")
v("c14-order-by-raw-column", "C14", SM,
  "                        self.quote_identifier(ci)\n                        + (\" DESC\" if ci in set(order_node.reverse) else \"\")",
  "                        ci\n                        + (\" DESC\" if ci in set(order_node.reverse) else \"\")")
v("c14-recordmap-key-hand-quoted", "C14", SM,
  "                        + self.quote_string(str(source_col))\n                        + \" THEN a.\"",
  "                        + \"'\" + str(source_col) + \"'\"\n                        + \" THEN a.\"")
v("c14-recordmap-control-value-hand-quoted", "C14", SM,
  "                            + self.quote_string(str(ct[cc][i]))\n",
  "                            + self.string_quote + str(ct[cc][i]) + self.string_quote\n")
v("c14-mapv-key-str", "C14", SM,
  "\"WHEN \" + dbmodel.value_to_sql(k) + \" THEN \" + dbmodel.value_to_sql(v)",
  "\"WHEN '\" + str(k) + \"' THEN \" + dbmodel.value_to_sql(v)")
v("c14-table-values-raw-alias", "C14", SM,
  "f\"{qv(v[v.columns[j]][i])} AS {qi(v.columns[j])}\"", "f\"{qv(v[v.columns[j]][i])} AS {v.columns[j]}\"")
v("c14-view-name-from-table-name", "C14", SM,
  "            view_name = \"table_reference_\" + str(temp_id_source[0])\n            temp_id_source[0] = temp_id_source[0] + 1\n            return data_algebra.near_sql.NearSQLUnaryStep(\n                terms=terms,\n                query_name=view_name,\n                quoted_query_name=self.quote_identifier(view_name),",
  "            view_name = \"table_reference_\" + str(temp_id_source[0])\n            temp_id_source[0] = temp_id_source[0] + 1\n            return data_algebra.near_sql.NearSQLUnaryStep(\n                terms=terms,\n                query_name=view_name,\n                quoted_query_name='\"' + table_def.table_name + \"_\" + view_name + '\"',")
v("c14-twin-view-name-quoted-from-table-name", "C14", SM,
  "            view_name = \"table_reference_\" + str(temp_id_source[0])\n            temp_id_source[0] = temp_id_source[0] + 1\n            return data_algebra.near_sql.NearSQLUnaryStep(\n                terms=terms,\n                query_name=view_name,\n                quoted_query_name=self.quote_identifier(view_name),",
  "            view_name = \"table_reference_\" + str(temp_id_source[0])\n            temp_id_source[0] = temp_id_source[0] + 1\n            return data_algebra.near_sql.NearSQLUnaryStep(\n                terms=terms,\n                query_name=view_name,\n                quoted_query_name=self.quote_identifier(table_def.table_name + \"_\" + view_name),", expect="silent")
v("c14-annotation-not-cleaned", "C14", SM,
  "            clean_anno = _clean_annotation(near_sql.annotation)\n            if clean_anno is not None:\n                sql_start = \"SELECT  -- \" + clean_anno\n        sql = (\n            [sql_start]\n            + self._indent_and_sep_terms(\n                terms_strs, sql_format_options=sql_format_options\n            )\n            + [\"FROM\"]\n            + [\n                sql_format_options.sql_indent + si\n                for si in near_sql.sub_sql.convert_subsql(",
  "            clean_anno = near_sql.annotation.strip()\n            if clean_anno is not None:\n                sql_start = \"SELECT  -- \" + clean_anno\n        sql = (\n            [sql_start]\n            + self._indent_and_sep_terms(\n                terms_strs, sql_format_options=sql_format_options\n            )\n            + [\"FROM\"]\n            + [\n                sql_format_options.sql_indent + si\n                for si in near_sql.sub_sql.convert_subsql(")
v("c14-clean-annotation-keeps-cr", "C14", SM,
  "    annotation = re.sub(r\"(\\s|\\r|\\n)+\", \" \", annotation)", "    annotation = re.sub(r\"[ \\t\\n]+\", \" \", annotation)")
v("c14-twin-clean-annotation-simpler-regex", "C14", SM,
  "    annotation = re.sub(r\"(\\s|\\r|\\n)+\", \" \", annotation)", "    annotation = re.sub(r\"\\s+\", \" \", annotation)", expect="silent")
v("c14-clean-annotation-result-dropped", "C14", SM,
  "    annotation = re.sub(r\"(\\s|\\r|\\n)+\", \" \", annotation)", "    re.sub(r\"(\\s|\\r|\\n)+\", \" \", annotation)")
v("c14-quote-string-no-doubling", "C14", SM,
  "            + re.sub(self.string_quote, self.string_quote + self.string_quote, string)\n", "            + string\n")
v("c14-twin-quote-string-replace", "C14", SM,
  "            + re.sub(self.string_quote, self.string_quote + self.string_quote, string)\n",
  "            + string.replace(self.string_quote, self.string_quote + self.string_quote)\n", expect="silent")
v("c14-quote-identifier-no-reject", "C14", SM,
  "        if self.identifier_quote in identifier:\n            raise ValueError(\n                \"did not expect \" + self.identifier_quote + \" in identifier\"\n            )\n        return self.identifier_quote + identifier + self.identifier_quote\n\n    def quote_table_name",
  "        return self.identifier_quote + identifier + self.identifier_quote\n\n    def quote_table_name")
v("c14-quote-identifier-strips", "C14", SM,
  "        return self.identifier_quote + identifier + self.identifier_quote\n\n    def quote_table_name",
  "        return self.identifier_quote + identifier.strip() + self.identifier_quote\n\n    def quote_table_name")
v("c14-mysql-quote-identifier-lowercases", "C14", "MySQL.py",
  "        return self.identifier_quote + identifier + self.identifier_quote", "        return self.identifier_quote + identifier.lower() + self.identifier_quote")
v("c14-jointype-unchecked", "C14", "expr_rep.py",
  "    if join_str not in allowed:\n        raise KeyError(f\"join type {join_str} not supported\")\n    if join_str", "    if join_str")
v("c14-enc-term-compares-text-with-name", "C14", SM,
  "        if v is None:\n            return self.quote_identifier(k)", "        if (v is None) or (v == k):\n            return self.quote_identifier(k)")
v("c14-table-def-stores-raw-name-as-term", "C14", SM,
  "                terms[k] = None  # pass through, quoted on emission", "                terms[k] = k")
v("c14-to-sql-replace-tabs", "C14", SM,
  "        sql_str_list = [v.rstrip() for v in sql_str_list]", "        sql_str_list = [v.rstrip().replace(\"\\t\", \" \") for v in sql_str_list]")
v("c14-db-read-table-raw-name", "C14", "db_model.py",
  "        tn = self.db_model.quote_table_name(table_name)\n        return self.read_query(f\"SELECT * FROM {tn}\")",
  "        return self.read_query(f\"SELECT * FROM {table_name}\")")
v("c14-concat-label-as-source", "C14", SM,
  "{concat_node.id_column: data_algebra.expr_rep.Value(concat_node.a_name)}", "{concat_node.id_column: f\"'{concat_node.a_name}'\"}")

# ---------------------------------------------------------------- C15
v("c15-new-pandas-scratch-column", "C15", PB,
  "        res = self.clean_copy(res.loc[selection, :])\n        return res",
  "        res[\"_da_keep_row\"] = selection\n        res = self.clean_copy(res.loc[res[\"_da_keep_row\"], :])\n        del res[\"_da_keep_row\"]\n        return res")
v("c15-project-standin-renamed", "C15", PB,
  "        res[\"_data_table_temp_col\"] = 1\n", "        res[\"_da_one\"] = 1\n")
v("c15-twin-project-standin-guarded", "C15", PB,
  "        res[\"_data_table_temp_col\"] = 1\n",
  "        if \"_data_table_temp_col\" in res.columns:\n            raise ValueError(\"column name _data_table_temp_col is reserved\")\n        res[\"_data_table_temp_col\"] = 1\n", expect="silent")
v("c15-join-cleanup-by-endswith", "C15", PB,
  "                res = res.drop(c + \"_tmp_right_col\", axis=1, inplace=False)\n",
  "                res = res.drop([x for x in res.columns if x.endswith(\"_tmp_right_col\")], axis=1, inplace=False)\n")
v("c15-polars-new-alias", "C15", "polars_model.py",
  "                [_build_lit(op.a_name).alias(op.id_column)]", "                [_build_lit(op.a_name).alias(op.id_column), _build_lit(0).alias(\"_da_side\")]")
v("c15-sql-new-view-name", "C15", SM,
  "        view_name = \"select_rows_\" + str(temp_id_source[0])", "        view_name = \"filter_\" + str(temp_id_source[0])", expect="silent")
v("c15-sql-unnumbered-view-name", "C15", SM,
  "        view_name = \"select_rows_\" + str(temp_id_source[0])", "        view_name = \"select_rows_step\"")
v("c15-polars-suffixes-overlap", "C15", "polars_model.py",
  "                suffix=\"_da_left_tmp\",", "                suffix=\"_right_tmp\",")
v("c15-twin-unrelated-constant-key", "C15", PB,
  "        res = self.clean_copy(res.loc[selection, :])\n        return res",
  "        info = {}\n        info[\"rows\"] = res.shape[0]\n        res = self.clean_copy(res.loc[selection, :])\n        return res", expect="silent")

# ---------------------------------------------------------------- C08 (twin removal on every iteration)
v("c08-twin-kept-when-left-has-no-nulls", "C08", PB,
  "                elif is_null.any():\n                    res.loc[is_null, c] = res.loc[is_null, c + \"_tmp_right_col\"]\n                res = res.drop(c + \"_tmp_right_col\", axis=1, inplace=False)\n",
  "                elif is_null.any():\n                    res.loc[is_null, c] = res.loc[is_null, c + \"_tmp_right_col\"]\n                    res = res.drop(c + \"_tmp_right_col\", axis=1, inplace=False)\n")
v("c08-twin-twin-drop-hoisted-local", "C08", PB,
  "                is_null = res[c].isnull()\n                if is_null.all():\n                    # nothing on the left (its column may have no type of its own): the right column as it is\n                    res[c] = res[c + \"_tmp_right_col\"]\n                elif is_null.any():\n                    res.loc[is_null, c] = res.loc[is_null, c + \"_tmp_right_col\"]\n                res = res.drop(c + \"_tmp_right_col\", axis=1, inplace=False)\n",
  "                right_c = c + \"_tmp_right_col\"\n                is_null = res[c].isnull()\n                if is_null.all():\n                    res[c] = res[right_c]\n                elif is_null.any():\n                    res.loc[is_null, c] = res.loc[is_null, right_c]\n                res = res.drop(right_c, axis=1, inplace=False)\n", expect="silent")
v("c08-twin-loop-continue-form", "C08", PB,
  "            if c not in merged_key_cols:\n                is_null = res[c].isnull()\n                if is_null.all():\n                    # nothing on the left (its column may have no type of its own): the right column as it is\n                    res[c] = res[c + \"_tmp_right_col\"]\n                elif is_null.any():\n                    res.loc[is_null, c] = res.loc[is_null, c + \"_tmp_right_col\"]\n                res = res.drop(c + \"_tmp_right_col\", axis=1, inplace=False)\n",
  "            if c in merged_key_cols:\n                continue\n            is_null = res[c].isnull()\n            if is_null.all():\n                res[c] = res[c + \"_tmp_right_col\"]\n            elif is_null.any():\n                res.loc[is_null, c] = res.loc[is_null, c + \"_tmp_right_col\"]\n            res = res.drop(c + \"_tmp_right_col\", axis=1, inplace=False)\n", expect="silent")

# ---------------------------------------------------------------- C03
PM = "polars_model.py"
v("c03-max-calls-min", "C03", PM, "        \"max\": lambda x: x.max(),", "        \"max\": lambda x: x.min(),")
v("c03-first-calls-last", "C03", PM, "        \"first\": lambda x: x.drop_nulls().first(),", "        \"first\": lambda x: x.drop_nulls().last(),")
v("c03-bfill-forward", "C03", PM, "        \"bfill\": lambda x: x.fill_null(strategy=\"backward\"),", "        \"bfill\": lambda x: x.fill_null(strategy=\"forward\"),")
v("c03-minus-swapped", "C03", PM, "        \"-\": lambda a, b: a - b,", "        \"-\": lambda a, b: b - a,")
v("c03-lt-is-le", "C03", PM, "        \"<\": lambda a, b: a < b,", "        \"<\": lambda a, b: a <= b,")
v("c03-floordiv-is-div", "C03", PM, "        \"//\": lambda a, b: a // b,", "        \"//\": lambda a, b: a / b,")
v("c03-if-else-null-cond-takes-else", "C03", PM,
  "        \"if_else\": lambda a, b, c: pl.when(a.is_null())\n        .then(pl.lit(None))\n        .otherwise(pl.when(a).then(b).otherwise(c)),",
  "        \"if_else\": lambda a, b, c: pl.when(a).then(b).otherwise(c),")
v("c03-where-null-cond-null", "C03", PM,
  "        \"where\": lambda a, b, c: pl.when(a.is_null())\n        .then(c)\n        .otherwise(pl.when(a).then(b).otherwise(c)),",
  "        \"where\": lambda a, b, c: pl.when(a.is_null())\n        .then(pl.lit(None))\n        .otherwise(pl.when(a).then(b).otherwise(c)),")
v("c03-twin-where-simplified", "C03", PM,
  "        \"where\": lambda a, b, c: pl.when(a.is_null())\n        .then(c)\n        .otherwise(pl.when(a).then(b).otherwise(c)),",
  "        \"where\": lambda a, b, c: pl.when(a).then(b).otherwise(c),", expect="silent")
v("c03-fmax-min-horizontal", "C03", PM, "            \"fmax\": lambda *args: pl.max_horizontal(args),", "            \"fmax\": lambda *args: pl.min_horizontal(args),")
v("c03-project-count-cumsum", "C03", PM,
  "            \"count\": lambda: pl.col(_da_temp_one_column_name).sum(),\n            \"_count\": lambda: pl.col(_da_temp_one_column_name).sum(),",
  "            \"count\": lambda: pl.col(_da_temp_one_column_name).cumsum(),\n            \"_count\": lambda: pl.col(_da_temp_one_column_name).sum(),")
v("c03-size-over-zero-column", "C03", PM,
  "        \"size\": lambda x: pl.col(_da_temp_one_column_name).sum(),", "        \"size\": lambda x: pl.col(_da_temp_zero_column_name).sum(),")
v("c03-default-callable", "C03", PM,
  "        if f is None:\n            raise ValueError(f\"failed to lookup {op}\")", "        if f is None:\n            f = lambda *a: a[0]")
v("c03-lookup-wrong-key", "C03", PM,
  "                f = self.polars_model.impl_map_arbitrary_arity[op.op]", "                f = self.polars_model.impl_map_arbitrary_arity[op.op.lower()]", expect="silent")
v("c03-except-exception", "C03", PM,
  "                f = self.polars_model.impl_map_arbitrary_arity[op.op]\n            except KeyError:", "                f = self.polars_model.impl_map_arbitrary_arity[op.op]\n            except Exception:")
v("c03-join-full-as-left", "C03", PM, "        if how == \"full\":\n            how = \"outer\"", "        if how == \"full\":\n            how = \"left\"")
v("c03-right-join-keys-unswapped", "C03", PM,
  "                left_on=op.on_b,\n                right_on=op.on_a,\n                how=\"left\",", "                left_on=op.on_a,\n                right_on=op.on_b,\n                how=\"left\",")
v("c03-right-join-inner", "C03", PM,
  "                left_on=op.on_b,\n                right_on=op.on_a,\n                how=\"left\",", "                left_on=op.on_b,\n                right_on=op.on_a,\n                how=\"inner\",")
v("c03-order-rows-flags-inverted", "C03", PM,
  "True if ci in set(op.reverse) else False for ci in op.order_by", "False if ci in set(op.reverse) else True for ci in op.order_by")
v("c03-step-wrong-node-name", "C03", PM,
  "        if op.node_name != \"OrderRowsNode\":", "        if op.node_name == \"ExtendNode\":")

# ---------------------------------------------------------------- round-3 rules
v("c06-bare-limit-skips-ordering", "C06", VR,
  "        if (\n            self.is_trivial_when_intermediate_()\n            and (columns is not None)\n            and (len(columns) > 0)\n        ):",
  "        if self.is_trivial_when_intermediate_():")
v("c17-compose-probe-decorated", "C17", "cdata.py",
  "        inp = s1.example_input(value_suffix=\"\", record_key_suffix=\"\")", "        inp = s1.example_input()")
v("c17-compose-shortcut-from-outer-specs", "C17", "cdata.py",
  "        strict = self.strict and other.strict\n        if inp.shape[0] < 2:",
  "        strict = self.strict and other.strict\n        if s1.columns_produced == s2.columns_needed:\n            return RecordMap(blocks_in=s1.blocks_in, blocks_out=s2.blocks_out, strict=strict)\n        if inp.shape[0] < 2:")
v("c10-walk-early-return", "C10", VR,
  "        cu_list = self.columns_used_from_sources(crec.copy())\n",
  "        if len(crec) < 1:\n            return\n        cu_list = self.columns_used_from_sources(crec.copy())\n")
v("c10-twin-leaf-early-return", "C10", VR,
  "        cu_list = self.columns_used_from_sources(crec.copy())\n",
  "        if len(self.sources) < 1:\n            return\n        cu_list = self.columns_used_from_sources(crec.copy())\n", expect="silent")
v("c07-join-sources-filtered", "C07", VR,
  "        new_sources = [s.replace_leaves(replacement_map) for s in self.sources]\n        return new_sources[0].natural_join(",
  "        new_sources = [s.replace_leaves(replacement_map) if len(s.get_tables()) > 0 else s for s in self.sources]\n        return new_sources[0].natural_join(")
v("c07-twin-sources-skipped-on-empty-map", "C07", VR,
  "        new_sources = [s.replace_leaves(replacement_map) for s in self.sources]\n        return new_sources[0].natural_join(",
  "        new_sources = [s.replace_leaves(replacement_map) if len(replacement_map) > 0 else s for s in self.sources]\n        return new_sources[0].natural_join(", expect="silent")
v("c04-cte-definition-without-columns", "C04", "near_sql.py",
  "                        NearSQLContainer(\n                            near_sql=stub,\n                            force_sql=self.force_sql,\n                            columns=self.columns,\n                        ),",
  "                        NearSQLContainer(\n                            near_sql=stub,\n                            force_sql=self.force_sql,\n                        ),")
v("c22-type-set-exact-class", "C22", "data_schema.py",
  "            if not np.any([isinstance(observed_value, ti) for ti in expected_type]):", "            if type(observed_value) not in expected_type:")
v("c22-twin-any-builtin", "C22", "data_schema.py",
  "            if not np.any([isinstance(observed_value, ti) for ti in expected_type]):", "            if not any(isinstance(observed_value, ti) for ti in expected_type):", expect="silent")
v("c22-single-type-exact-class", "C22", "data_schema.py",
  "            if not isinstance(observed_value, expected_type):", "            if type(observed_value) is not expected_type:")
v("c20-db-auto-key-without-table-probe", "C20", "db_space.py",
  "            while (key in self.description_map.keys()) or self.db_handle.db_model.table_exists(\n                self.db_handle.conn, key\n            ):\n                self.n_tmp = self.n_tmp + 1\n                key = f\"da_temp_{self.n_tmp}\"\n        assert isinstance(key, str)\n        assert isinstance(allow_overwrite, bool)\n        if not allow_overwrite:",
  "            while key in self.description_map.keys():\n                self.n_tmp = self.n_tmp + 1\n                key = f\"da_temp_{self.n_tmp}\"\n        assert isinstance(key, str)\n        assert isinstance(allow_overwrite, bool)\n        if not allow_overwrite:")
v("c19-select-rows-returns-lookup", "C19", PB,
  "        res = self._eval_value_source(op.sources[0], data_map=data_map)\n        if res.shape[0] < 1:\n            return res\n        selection = op.expr.act_on(res, expr_walker=self)",
  "        res = data_map[op.sources[0].table_name] if op.sources[0].node_name == \"TableDescription\" else self._eval_value_source(op.sources[0], data_map=data_map)\n        if res.shape[0] < 1:\n            return res\n        selection = op.expr.act_on(res, expr_walker=self)")
v("c05-sqlite-round-two-args", "C05", "SQLite.py",
  "    \"remainder\": _sqlite_remainder_expr,\n", "    \"remainder\": _sqlite_remainder_expr,\n    \"around\": lambda dbmodel, expression: \"ROUND(\" + dbmodel.expr_to_sql(expression.args[0]) + \", \" + dbmodel.expr_to_sql(expression.args[1]) + \")\",\n")
v("c07-pipeline-hands-arrow-back", "C07", VR,
  "            if isinstance(b, data_algebra.arrow.DataOpArrow):\n                # arrow >> pipeline: the pipeline comes after the arrow, compose as arrows\n                return data_algebra.arrow.DataOpArrow(self).act_on(b)\n", "")
v("c03-nunique-counts-null", "C03", PM, "        \"nunique\": lambda x: x.drop_nulls()\n        .n_unique()", "        \"nunique\": lambda x: x\n        .n_unique()")
v("c03-count-native-count", "C03", PM,
  "        \"count\": lambda x: pl.when(x.is_null() | x.is_nan())\n        .then(_build_lit(0))\n        .otherwise(_build_lit(1))\n        .sum(),",
  "        \"count\": lambda x: x.count().cast(pl.Int64),")

# ---------------------------------------------------------------- round-4 rules
v("c12-limit-printed-by-truthiness", "C12", VR,
  "        if self.limit is not None:\n            s = s + \", limit=\" + self.limit.__repr__()", "        if self.limit:\n            s = s + \", limit=\" + self.limit.__repr__()")
v("c12-twin-limit-is-none-negated", "C12", VR,
  "        if self.limit is not None:\n            s = s + \", limit=\" + self.limit.__repr__()", "        if not (self.limit is None):\n            s = s + \", limit=\" + self.limit.__repr__()", expect="silent")
v("c14-annotation-block-comment", "C14", SM,
  "                sql = sql + [\"-- \" + clean_anno]", "                sql = sql + [\"/* \" + clean_anno + \" */\"]")
v("c18-table-step-conditional-clean", "C18", PB,
  "        res = df.loc[:, columns_using]\n        res = self.clean_copy(res)\n        return res",
  "        res = df.loc[:, columns_using]\n        if not isinstance(res.index, self.pd.RangeIndex):\n            res = self.clean_copy(res)\n        return res")
v("c18-twin-table-step-reset-index", "C18", PB,
  "        res = df.loc[:, columns_using]\n        res = self.clean_copy(res)\n        return res",
  "        res = df.loc[:, columns_using].reset_index(drop=True, inplace=False)\n        return res", expect="silent")
v("c15-db-auto-key-without-table-probe", "C15", "db_space.py",
  "            while (key in self.description_map.keys()) or self.db_handle.db_model.table_exists(\n                self.db_handle.conn, key\n            ):\n                self.n_tmp = self.n_tmp + 1\n                key = f\"da_temp_{self.n_tmp}\"\n        assert isinstance(key, str)\n        assert isinstance(allow_overwrite, bool)\n        if not allow_overwrite:",
  "            while key in self.description_map.keys():\n                self.n_tmp = self.n_tmp + 1\n                key = f\"da_temp_{self.n_tmp}\"\n        assert isinstance(key, str)\n        assert isinstance(allow_overwrite, bool)\n        if not allow_overwrite:")
v("c16-pandas-fill-not-for-inner", "C16", PB,
  "                elif is_null.any():\n                    res.loc[is_null, c] = res.loc[is_null, c + \"_tmp_right_col\"]",
  "                elif is_null.any() and (op.jointype != \"INNER\"):\n                    res.loc[is_null, c] = res.loc[is_null, c + \"_tmp_right_col\"]")
v("c27-mean-allowed-in-ordered-window", "C27", "expr_rep.py", "    \"count\",\n    \"max\",\n    \"mean\",\n    \"median\",\n    \"min\",\n    \"nunique\",\n    \"prod\",", "    \"count\",\n    \"max\",\n    \"median\",\n    \"min\",\n    \"nunique\",\n    \"prod\",")
v("c12-sqlnode-not-in-eval-env", "C12", "expr_parse_fn.py", "    TableDescription,\n    SQLNode,\n)", "    TableDescription,\n)")
v("c18-count-numbered-in-row-order", "C18", PB,
  "                    if (zero_op == \"row_number\") or (\n                        (zero_op == \"count\") and (len(op.order_by) > 0)\n                    ):",
  "                    if zero_op in {\"row_number\", \"count\"}:")
v("c03-order-rows-nulls-first", "C03", PM, "            by=op.order_columns,\n            descending=reversed_cols,\n            nulls_last=True,\n", "            by=op.order_columns,\n            descending=reversed_cols,\n")


# ---------------------------------------------------------------- reverts of the repairs D33-D39
ER = "expr_rep.py"
v("d33-implies-windowed-top-level-only", "C09", ER,
  "        if uses_windowed_fn(opk):\n            return True",
  "        if isinstance(opk, data_algebra.expr_rep.Expression) and opk.op in data_algebra.expr_rep.fn_names_that_imply_windowed_situation:\n            return True")
v("d33-implies-windowed-top-level-only-c26", "C26", ER,
  "            return any(uses_windowed_fn(ai) for ai in e.args)\n", "            return False\n")
v("d35-size-not-windowed", "C09", ER, '    "_size",\n    "cumcount",', '    "cumcount",')
v("d35-any-value-not-windowed-c26", "C26", ER, '    "any_value",\n    "bfill",', '    "bfill",')
v("d36-keyed-check-drops-null-keys", "C09", PB,
  "counts = table.groupby(column_names, observed=True, dropna=False).size()",
  "counts = table.groupby(column_names, observed=True).size()")
v("d37-same-windowing-ignores-partition", "C06", VR,
  "                or (partition_by == 1)\n                or (len(partition_by) > 0)\n                or (len(order_by) > 0)\n            ) == self.windowed_situation",
  "            ) == self.windowed_situation")
v("d38-common-keys-crossed", "C26", VR,
  "            ) - set([ka for ka, kb in zip(on_a, on_b) if ka == kb])", "            ) - set(on_a).intersection(on_b)")
v("d39-terms-indexed-by-dependency-keys", "C04", SM,
  "                        (term_dict.get(ki) is not None)\n                        and (term_dict.get(ki) != ki)",
  "                        (term_dict[ki] is not None)\n                        and (term_dict[ki] != ki)")
v("d39-twin-default-arg", "C04", SM,
  "                        (term_dict.get(ki) is not None)\n", "                        (term_dict.get(ki, None) is not None)\n", expect="silent")

v("d40-one-element-list-unpacked", "C13", PBL,
  "                    raw_values = [contents]\n", "                    raw_values = contents.children\n")
v("d40-kind-test-dropped", "C13", PBL,
  "                elif isinstance(contents, lark.tree.Tree) and (\n                    contents.data in [\"tuplelist_comp\", \"set_comp\"]\n                ):",
  "                elif isinstance(contents, lark.tree.Tree):")
v("d40-twin-tuple-of-kinds", "C13", PBL,
  "                    contents.data in [\"tuplelist_comp\", \"set_comp\"]\n", "                    contents.data in (\"tuplelist_comp\", \"set_comp\")\n", expect="silent")

v("d41-negative-by-comparison", "C13", ER, '            and value_text.startswith("-")\n', '            and (self.value < 0)\n')
v("d41-negative-by-comparison-c12", "C12", ER, '            and value_text.startswith("-")\n', '            and (self.value <= -0.0)\n')
v("d42-numpy-scalar-kept", "C12", ER,
  "        if canonical_type is not type(value):\n            # store numpy scalars as the equivalent Python scalar, so the printed constant can be read back\n            value = canonical_type(value)\n", "")
v("d42-twin-inline-conversion", "C12", ER,
  "            value = canonical_type(value)\n", "            value = data_algebra.util.map_type_to_canonical(type(value))(value)\n", expect="silent")

v("d43-sqlnode-copy-on-tuple", "C07", VR,
  "            column_names=self.column_names,\n            view_name=self.view_name,", "            column_names=self.column_names.copy(),\n            view_name=self.view_name,")
v("d43-sources-append", "C07", VR,
  "        new_sources = [s.replace_leaves(replacement_map) for s in self.sources]\n        return new_sources[0].drop_columns(column_deletions=self.column_deletions)",
  "        self.sources.sort()\n        new_sources = [s.replace_leaves(replacement_map) for s in self.sources]\n        return new_sources[0].drop_columns(column_deletions=self.column_deletions)")
v("d43-twin-tuple-api", "C07", VR,
  "            column_names=self.column_names,\n            view_name=self.view_name,", "            column_names=self.column_names[:],\n            view_name=self.view_name,", expect="silent")
v("d44-leaf-copy-drops-head", "C07", VR, "            head=self.head,\n            limit_was=self.limit_was,\n", "            limit_was=self.limit_was,\n")
v("d44-leaf-copy-names-unnamed-table", "C07", VR,
  "            table_name=self.table_name if self.table_name_was_set_by_user else None,\n", "            table_name=self.table_name,\n")

v("c06-s6-twin-elimination-removed-from-extend", "C06", VR,
  "        if self.is_trivial_when_intermediate_():\n            return self.sources[0].extend_parsed_(", "        if False:\n            return self.sources[0].extend_parsed_(", expect="silent")

v("d45-union-operand-not-enclosed", "C04", SM,
  "            substr_1 = enclose_suffix(near_sql.sub_sql1, substr_1)\n            substr_2 = enclose_suffix(near_sql.sub_sql2, substr_2)\n", "")
v("d45-union-enclosure-ignores-suffix", "C04", SM,
  '                sub_suffix = getattr(sub_sql.near_sql, "suffix", None)\n', '                sub_suffix = None\n')

v("d46-merged-terms-not-reordered", "C04", SM, "                subsql.terms = merged_terms\n", "")
v("d46-merged-terms-sub-order-first", "C04", SM,
  "                for k in list(terms.keys()) + list(subsql.terms.keys()):", "                for k in list(subsql.terms.keys()) + list(terms.keys()):")

v("d47-top-level-select-order-with-path", "C08", SM,
  "                sql_last = sequence.last_step.to_sql_str_list(\n                    columns=[c for c in ops.column_names],\n", "                sql_last = sequence.last_step.to_sql_str_list(\n")
v("d47-top-level-select-order-nested-path", "C08", SM,
  "            sql_str_list = near_sql.to_sql_str_list(\n                columns=[c for c in ops.column_names],\n", "            sql_str_list = near_sql.to_sql_str_list(\n")
v("d47-twin-list-call", "C08", SM,
  "            sql_str_list = near_sql.to_sql_str_list(\n                columns=[c for c in ops.column_names],\n", "            sql_str_list = near_sql.to_sql_str_list(\n                columns=list(ops.column_names),\n", expect="silent")
v("d48-pandas-result-order", "C08", PB, "            res = res[declared_columns]\n", "            pass\n")

v("d49-star-when-columns-requested", "C08", SM,
  "        elif (columns is not None) and (len(columns) > 0):\n            # a step with no terms of its own (order_rows) still lists exactly the requested columns\n            terms_strs = [self.quote_identifier(k) for k in columns]\n", "")
v("d49-binary-star-always", "C08", SM,
  "        terms_strs = [self.enc_term_(k, terms=terms) for k in columns]\n        if len(terms_strs) < 1:\n            terms_strs = [\"*\"]\n        is_union",
  "        terms_strs = [\"*\"]\n        is_union")
v("d49-twin-star-guard-spelled-eq-zero", "C08", SM,
  "        terms_strs = [self.enc_term_(k, terms=terms) for k in columns]\n        if len(terms_strs) < 1:\n            terms_strs = [\"*\"]\n        is_union",
  "        terms_strs = [self.enc_term_(k, terms=terms) for k in columns]\n        if len(terms_strs) == 0:\n            terms_strs = [\"*\"]\n        is_union", expect="silent")

v("d50-select-columns-narrows-raw-step-in-place", "C08", SM,
  "        if subsql.terms is None:\n            # sub-step has no select list of its own to narrow (user SQL, record conversion): select from it\n            view_name = \"select_columns_\"",
  "        if False:\n            view_name = \"select_columns_\"")
v("d50-drop-columns-narrows-raw-step-in-place", "C08", SM,
  "        if subsql.terms is None:\n            # sub-step has no select list of its own to narrow (user SQL, record conversion): select from it\n            kept =",
  "        if subsql.terms == 0:\n            kept =")

v("d51-pandas-rename-before-delete", "C08", PB,
  "            res = res[column_selection]\n        res = res.rename(columns=op.column_remapping)\n        return res",
  "            res = res[column_selection]\n        return res")
v("d51-pandas-rename-first", "C08", PB,
  "        # deletions name input columns: remove them before renaming (a new name may re-use a deleted one)\n        if (op.column_deletions is not None) and (len(op.column_deletions) > 0):\n            column_selection",
  "        res = res.rename(columns=op.column_remapping)\n        if (op.column_deletions is not None) and (len(op.column_deletions) > 0):\n            column_selection")
v("d51-polars-no-delete-before-rename", "C08", PM,
  "            res = res.select([c for c in res.columns if c not in op.column_deletions])\n        res = res.rename(op.column_remapping)", "            pass\n        res = res.rename(op.column_remapping)")

v("d52-value-equality-by-python-eq", "C11", ER, "        return _same_literal(self.value, other.value)\n", "        return self.value == other.value\n")
v("d52-list-equality-by-python-ne", "C11", ER, "            elif isinstance(rgt, PreTerm) or (not _same_literal(lft, rgt)):", "            elif isinstance(rgt, PreTerm) or (lft != rgt):")
v("d52-dict-values-unexamined", "C11", ER,
  "            if not (_same_literal(k_lft, k_rgt) and _same_literal(v_lft, v_rgt)):\n                return False\n", "            pass\n")
v("d52-helper-ignores-second-argument", "C11", ER,
  "    return (type(a) == type(b)) and (a.__repr__() == b.__repr__())", "    return (type(a) == type(a)) and (a.__repr__() == a.__repr__())")
v("d52-twin-repr-builtin", "C11", ER,
  "    return (type(a) == type(b)) and (a.__repr__() == b.__repr__())", "    return (type(a) == type(b)) and (repr(a) == repr(b))", expect="silent")
v("d53-limit-stored-as-given", "C11", VR,
  "            if int(limit) != limit:\n                raise ValueError(\"limit must be an integer\")\n            limit = int(limit)\n", "")

v("d54-window-sort-by-all-columns", "C10", PB,
  "                        by=order_cols, ascending=ascending, kind=\"stable\"", "                        by=col_list, ascending=[c not in set(op.reverse) for c in col_list], kind=\"stable\"")
v("d54-twin-sorted-kind-mergesort", "C10", PB,
  "                        by=order_cols, ascending=ascending, kind=\"stable\"", "                        by=order_cols, ascending=ascending, kind=\"mergesort\"", expect="silent")
v("d54-window-sort-by-all-columns-c27", "C27", PB,
  "                        by=order_cols, ascending=ascending, kind=\"stable\"", "                        by=col_list, ascending=[c not in set(op.reverse) for c in col_list], kind=\"stable\"")

v("d55-compose-blocks-to-rows-ignores-result-names", "C17", "cdata.py",
  "                        rsi[c] = [landed_in.get(v, v) for v in rsi[c]]\n", "                        rsi[c] = [v for v in rsi[c]]\n")

v("d56-polars-strict-stacking", "C17", PM, '        res = pl.concat(rows, how="vertical_relaxed")\n', '        res = pl.concat(rows, how="vertical")\n')
v("d57-polars-concat-rows-drops-result", "C03", PM, '        return pl.concat(frame_list, how="vertical")\n', '        pl.concat(frame_list, how="vertical")\n')
v("d57-polars-concat-columns-drops-result", "C03", PM, '        res = pl.concat(frame_list, how="horizontal")\n        return res\n', '        res = pl.concat(frame_list, how="horizontal")\n')

v("d58-polars-group-order-arbitrary", "C19", PM, "        res = res.group_by(group_by, maintain_order=True).agg(produced_columns)", "        res = res.group_by(group_by).agg(produced_columns)")
v("d58-polars-order-rows-sort-unstable", "C19", PM, "            nulls_last=True,\n            maintain_order=True,\n", "            nulls_last=True,\n")
v("d58-polars-window-sort-unstable", "C19", PM, "                nulls_last=True,\n                maintain_order=True,\n            )  # missing order keys last", "                nulls_last=True,\n            )  # missing order keys last")

v("d48-twin-direct-return", "C08", PB,
  "            res = res[declared_columns]\n        return res\n", "            return res[declared_columns]\n        return res\n", expect="silent")

v("d40-twin-kind-test-eq-chain", "C13", PBL,
  "                    contents.data in [\"tuplelist_comp\", \"set_comp\"]\n", "                    contents.data == \"tuplelist_comp\" or contents.data == \"set_comp\"\n", expect="silent")
v("d54-twin-sort-key-inline", "C10", PB,
  "                        by=order_cols, ascending=ascending, kind=\"stable\"", "                        by=[c for c in order_cols], ascending=ascending, kind=\"stable\"", expect="silent")
v("d53-twin-limit-isinstance", "C11", VR,
  "            if int(limit) != limit:\n                raise ValueError(\"limit must be an integer\")\n            limit = int(limit)\n",
  "            if not isinstance(limit, int):\n                raise ValueError(\"limit must be an integer\")\n", expect="silent")
v("d45-twin-enclose-any-suffix", "C04", SM,
  "                if (sub_suffix is None) or (\n                    not any(\n                        si.strip().upper().startswith((\"ORDER BY\", \"LIMIT\"))\n                        for si in sub_suffix\n                    )\n                ):",
  "                if (sub_suffix is None) or (len(sub_suffix) < 1):", expect="silent")
v("d51-twin-polars-drop", "C08", PM,
  "            res = res.select([c for c in res.columns if c not in op.column_deletions])\n        res = res.rename(op.column_remapping)",
  "            res = res.drop([c for c in op.column_deletions])\n        res = res.rename(op.column_remapping)", expect="silent")
v("d44-twin-leaf-copy-local", "C07", VR,
  "            head=self.head,\n            limit_was=self.limit_was,\n", "            head=self.head if self.head is not None else None,\n            limit_was=self.limit_was,\n", expect="silent")

OS = "OrderedSet.py"
v("d60-and-inherited", "C24", OS,
  "    def __and__(self, other):\n        # order by self (the inherited operator iterates other)\n        assert not isinstance(other, str)  # treat string as atomic value, not iterable\n        other = set(other)\n        return OrderedSet([e for e in self if e in other])\n\n", "")
v("d60-and-iterates-other", "C24", OS,
  "        other = set(other)\n        return OrderedSet([e for e in self if e in other])\n", "        return OrderedSet([e for e in other if e in self])\n")
v("d59-subset-on-raw-argument", "C24", OS,
  "        assert not isinstance(other, str)  # treat string as atomic value, not iterable\n        other = set(other)\n        return all(e in other for e in self)\n\n    def __lt__",
  "        return all(e in other for e in self)\n\n    def __lt__")
v("d60-twin-and-via-helper", "C24", OS,
  "        other = set(other)\n        return OrderedSet([e for e in self if e in other])\n", "        return ordered_intersect(self, other)\n", expect="silent")

EC = "eval_cache.py"
v("d61-key-without-types", "C25", EC, '    return f"{d.shape}_{list(d.columns)}_{hash_str}_{type_str}"\n', '    return f"{d.shape}_{list(d.columns)}_{hash_str}"\n')
v("d61-key-without-dtypes", "C25", EC, "    col_types = [\n        str(t) if str(t) != \"category\" else f\"category[{t.categories.dtype}]\"\n        for t in d.dtypes\n    ]\n", "    col_types = []\n")
v("d61-key-without-cell-types", "C25", EC, "        [type(v).__name__ for v in d.iloc[:, j]]\n", "        [len(d.iloc[:, j])]\n")

v("d62-absent-arg-specs-dereferenced", "C22", DS,
  "        self.arg_specs = _prep_schema_specification(\n            arg_specs if arg_specs is not None else dict()\n        )\n", "        self.arg_specs = _prep_schema_specification(arg_specs)\n")
v("d63-null-test-elementwise", "C22", DS,
  "    res = pd.isnull(v)\n    if isinstance(res, (bool, np.bool_)):\n        return bool(res)\n    return False\n", "    return pd.isnull(v)\n")
v("d64-null-arguments-type-checked", "C22", DS,
  "        elif (not isinstance(expected_type, dict)) and _is_null(observed_value):\n            # nulls are not considered to have a type\n            return None\n", "")
v("d65-binding-by-index", "C22", DS,
  "                check_args = []\n                check_kwargs = dict(bound_args.arguments)\n", "                pass\n")

v("d67-insert-stores-before-describing", "C20", DMS,
  "        description = data_algebra.data_ops.describe_table(value, table_name=key)\n        self.data_map[key] = value\n        return description\n",
  "        self.data_map[key] = value\n        return data_algebra.data_ops.describe_table(value, table_name=key)\n")

v("d68-trimstr-length-is-stop", "C05", SM,
  '        + ", ("\n        + dbmodel.expr_to_sql(expression.args[2], want_inline_parens=False)\n        + ") - ("\n        + dbmodel.expr_to_sql(expression.args[1], want_inline_parens=False)\n        + "))"\n',
  '        + ", "\n        + dbmodel.expr_to_sql(expression.args[2], want_inline_parens=False)\n        + ")"\n')
v("d69-polars-first-keeps-null", "C03", PM, '        "first": lambda x: x.drop_nulls().first(),', '        "first": lambda x: x.first(),')
v("d70-polars-window-nulls-first", "C03", PM,
  "                descending=reversed_cols,\n                nulls_last=True,\n                maintain_order=True,\n            )  # missing order keys last",
  "                descending=reversed_cols,\n                maintain_order=True,\n            )  # missing order keys last")
v("d71-pandas-cross-as-outer", "C16", PB, '            "cross": "inner",', '            "cross": "outer",')
v("d72-polars-maximum-ignores-null", "C03", PM,
  '            "maximum": lambda *args: pl.when(\n                pl.any_horizontal([a.is_null() for a in args])\n            )\n            .then(None)\n            .otherwise(pl.max_horizontal(args)),',
  '            "maximum": lambda *args: pl.max_horizontal(args),')
v("d72-polars-minimum-ignores-null-c05", "C05", PM,
  '            "minimum": lambda *args: pl.when(\n                pl.any_horizontal([a.is_null() for a in args])\n            )\n            .then(None)\n            .otherwise(pl.min_horizontal(args)),',
  '            "minimum": lambda *args: pl.min_horizontal(args),')

v("d73-negative-limit-accepted", "C18", VR, "            if limit < 0:\n                raise ValueError(\"limit must not be negative\")\n", "")
v("d74-pandas-blocks-pasted-by-position", "C17", PB,
  "            for si in split:\n                if not si[blocks_in.record_keys].equals(sk):\n                    raise ValueError(\"blocks do not all hold the same record keys\")\n", "")
v("d74-polars-blocks-pasted-by-position", "C17", PM,
  "            for si in split:\n                if not si[blocks_in.record_keys].equals(sk):\n                    raise ValueError(\"blocks do not all hold the same record keys\")\n", "")

v("d75-sqlite-native-percent", "C05", "SQLite.py",
  '        f" ELSE ({e0} - FLOOR({e0} / (1.0 * {e1})) * {e1}) END)"\n', '        f" ELSE ({e0} % {e1}) END)"\n')
v("d85-sqlite-modulo-through-double", "C05", "SQLite.py",
  "        f\"(CASE WHEN (typeof({e0}) = 'integer') AND (typeof({e1}) = 'integer')\"\n        f\" THEN ((({e0} % {e1}) + {e1}) % {e1})\"\n        f\" ELSE ({e0} - FLOOR({e0} / (1.0 * {e1})) * {e1}) END)\"\n",
  "        f\"({e0} - FLOOR({e0} / (1.0 * {e1})) * {e1})\"\n")
v("d88-hash-reads-columns-by-label", "C25", EC,
  "        [type(v).__name__ for v in d.iloc[:, j]]\n        if str(d.iloc[:, j].dtype) == \"object\"\n        else _category_cell_types(d.iloc[:, j])\n        for j in range(d.shape[1])\n        if str(d.iloc[:, j].dtype) in (\"object\", \"category\")\n",
  "        [type(v).__name__ for v in d[c]]\n        if str(d[c].dtype) == \"object\"\n        else _category_cell_types(d[c])\n        for c in d.columns\n        if str(d[c].dtype) in (\"object\", \"category\")\n")
v("d89-bound-kwargs-not-flattened", "C22", DS,
  "                    if p_def.kind is p_def.VAR_KEYWORD:\n                        # keywords caught by **kwargs are named arguments\n                        extra_keywords = check_kwargs.pop(p_name, {})\n                    elif p_def.kind is p_def.VAR_POSITIONAL:",
  "                    if p_def.kind is p_def.VAR_POSITIONAL:")


v("d76-if-else-none-into-typed-array", "C05", PB,
  "            if res.dtype.kind in \"iuf\":\n                res = res.astype(float)\n                res[bad_posns] = numpy.nan\n            elif res.dtype.kind in \"mM\":\n                res[bad_posns] = None  # NaT: dates and durations keep their type\n            else:\n                res = res.astype(object)\n                res[bad_posns] = None\n",
  "            res[bad_posns] = None\n")
v("d77-concat-spells-missing", "C05", PB,
  "        bad_posns = numpy.logical_or(self.pd.isnull(a), self.pd.isnull(b))\n        if (numpy.ndim(res) > 0) and numpy.any(bad_posns):\n            res = res.astype(object)\n            res[numpy.broadcast_to(bad_posns, res.shape)] = None\n", "")

v("d78-polars-coalesce-exempts-right-keys", "C16", PM,
  "            ) - set([ka for ka, kb in zip(op.on_a, op.on_b) if ka == kb])\n            orphan_keys = list(\n                dict.fromkeys([ka for ka, kb in zip(op.on_a, op.on_b) if ka != kb])",
  "            ) - set(op.on_b)\n            orphan_keys = list(\n                dict.fromkeys([ka for ka, kb in zip(op.on_a, op.on_b) if ka != kb])")
v("d95-polars-right-join-orphan-key-prefers-right-table", "C16", PM,
  "                        pl.when(pl.col(f\"{c}_da_join_tmp_key\").is_null())\n                        .then(pl.col(c))\n                        .otherwise(pl.col(f\"{c}_da_join_tmp_key\"))",
  "                        pl.when(pl.col(c).is_null())\n                        .then(pl.col(f\"{c}_da_join_tmp_key\"))\n                        .otherwise(pl.col(c))")

v("d79-step-numbering-ignores-table-names", "C15", SM,
  "                temp_id_source[0] = max(\n                    temp_id_source[0], int(trailing_number.group(1)) + 1\n                )\n", "                pass\n")

v("d80-null-keys-left-in-merge", "C16", PB,
  "                null_key_left = left.loc[left_has_null_key, :]\n                left = left.loc[~left_has_null_key, :]\n", "                null_key_left = left.loc[left_has_null_key, :]\n")
v("d80-null-key-rows-not-reattached", "C16", PB,
  "        if (null_key_right is not None) and (how in [\"right\", \"outer\"]):\n            unmatched.append(null_key_right.reindex(columns=res.columns))\n", "")
v("d80-null-key-rows-reattached-for-inner", "C16", PB,
  "        if (null_key_left is not None) and (how in [\"left\", \"outer\"]):", "        if (null_key_left is not None) and (how in [\"left\"]):")

v("d81-outer-not-mapped-to-full", "C16", ER, '    if join_str == "OUTER":\n        join_str = "FULL"  # OUTER is another spelling of FULL (OUTER JOIN alone is not SQL)\n', "")
v("d82-remove-forgets-before-drop", "C20", "db_space.py",
  "        self.db_handle.drop_table(key)  # forget the entry only once the table is gone\n        del self.description_map[key]\n",
  "        del self.description_map[key]\n        self.db_handle.drop_table(key)\n")

v("d83-polars-full-join-keys-not-folded", "C16", PM,
  "                        if (ka == kb) and ((ka + \"_da_right_tmp\") in joined_columns)\n", "                        if False\n")

SP = "SparkSQL.py"
v("d84-spark-backslash-not-escaped", "C14", SP, '            + string.replace("\\\\", "\\\\\\\\")\n            .replace(self.string_quote', '            + string\n            .replace(self.string_quote')
v("d84-spark-escape-order-swapped", "C14", SP,
  '            + string.replace("\\\\", "\\\\\\\\")\n            .replace(self.string_quote, "\\\\" + self.string_quote)\n',
  '            + string.replace(self.string_quote, "\\\\" + self.string_quote)\n            .replace("\\\\", "\\\\\\\\")\n')

v("d95-select-columns-empties-select-list", "C08", SM,
  "        if len(narrowed_terms) > 0:\n            # nothing requested: the sub-step keeps its own select list (an aggregation must stay one)\n            subsql.terms = narrowed_terms\n        return subsql\n\n    def drop_columns_to_near_sql",
  "        subsql.terms = narrowed_terms\n        return subsql\n\n    def drop_columns_to_near_sql")
v("d95-select-columns-empties-select-list-c09", "C09", SM,
  "        if len(narrowed_terms) > 0:\n            # nothing requested: the sub-step keeps its own select list (an aggregation must stay one)\n            subsql.terms = narrowed_terms\n        return subsql\n\n    def drop_columns_to_near_sql",
  "        subsql.terms = narrowed_terms\n        return subsql\n\n    def drop_columns_to_near_sql")
v("d96-union-raw-operand-not-wrapped", "C08", SM, "        if sql_right.terms is None:\n            operand_name = \"concat_rows_right_\"", "        if False:\n            operand_name = \"concat_rows_right_\"")
v("d98-polars-nunique-unsigned", "C03", PM, "        .n_unique()\n        .cast(pl.Int64),", "        .n_unique(),")
v("d99-polars-empty-counts-null", "C09", PM, "                    {c: [0 if c in counting_columns else None] for c in res.columns},", "                    {c: [None] for c in res.columns},")

DSC = "data_schema.py"
v("d100-null-test-on-any-object", "C22", DSC, "    if not pd.api.types.is_scalar(v):\n        return False  # a list, array, index or frame is a value, not a null\n", "")
v("d101-cells-by-label", "C22", DSC, "                    for vi in _column_cells(d, col_name):", "                    for vi in d[col_name]:")
v("d102-empty-varargs-missing", "C22", DSC, "                        else:\n                            no_values.append(p_name)\n", "")
v("d102-caught-keyword-overwrites", "C22", DSC, "                        extra_keywords = check_kwargs.pop(p_name, {})", "                        check_kwargs.update(check_kwargs.pop(p_name, {}))")
v("d102-index-unbounded", "C22", DSC, "        for i in range(min(len(args), len(arg_names))):", "        for i in range(len(args)):")
v("d102-twin-zip-names", "C22", DSC, "        for i in range(min(len(args), len(arg_names))):\n            k = arg_names[i]\n            observed_value = args[i]", "        for k, observed_value in zip(arg_names, args):", expect="silent")

SQ = "SQLite.py"
v("d103-sqlite-floor-int-valued", "C05", SQ, "            \"floor\": functools.partial(_wrap_scalar_fn, _floor_fn),", "            \"floor\": functools.partial(_wrap_scalar_fn, math.floor),")
v("d103-sqlite-floor-int-valued-c01", "C01", SQ, "            \"floor\": functools.partial(_wrap_scalar_fn, _floor_fn),", "            \"floor\": functools.partial(_wrap_scalar_fn, math.floor),")
v("d103-sqlite-ceil-helper-unguarded", "C05", SQ, "    return math.ceil(x) if isinstance(x, int) else float(math.ceil(x))", "    return math.ceil(x)")
v("d103-twin-numpy-floor", "C05", SQ, "            \"floor\": functools.partial(_wrap_scalar_fn, _floor_fn),", "            \"floor\": functools.partial(_wrap_scalar_fn, numpy.floor),", expect="silent")
v("d104-concat-refuses-empty-request", "C08", SM, "            # only the rows are asked for (a count above): carry one column\n            using = OrderedSet(concat_node.column_names[:1])", "            raise ValueError(\"must select at least one column\")")
v("d104-join-refuses-empty-request", "C01", SM, "            # only the rows are asked for (a count above): carry one column\n            using = OrderedSet(join_node.column_names[:1])", "            raise ValueError(\"join must use or select at least one column\")")
v("d105-sql-blocks-to-rows-row-major", "C08", SM,
  "        for vc in control_value_cols:  # column by column: the order of record_spec.row_columns\n            for i in range(ct.shape[0]):",
  "        for i in range(ct.shape[0]):\n            for vc in control_value_cols:")
v("d105-pandas-rows-by-observed-levels", "C08", PB, "        res = res.loc[:, ~res.columns.duplicated()].reindex(columns=blocks_in.row_columns)\n", "")
v("d105-polars-rows-by-observed-levels", "C17", PM, "        res = res.select(\n            [\n                pl.col(c) if c in res.columns else pl.lit(None).alias(c)\n                for c in blocks_in.row_columns\n            ]\n        )\n", "")
v("d105-polars-blocks-keys-first", "C03", PM, "        res = res.select(blocks_out.block_columns)  # the declared column order\n", "")
v("d105-pandas-blocks-keys-first", "C17", PB, "        res = res.loc[:, blocks_out.block_columns]  # the declared column order\n", "")

v("d106-polars-record-sort-nulls-first", "C17", PM, "            res = res.sort(blocks_in.record_keys, nulls_last=True)\n", "            res = res.sort(blocks_in.record_keys)\n")
v("d106-polars-record-sort-nulls-first-c03", "C03", PM, "            res = res.sort(blocks_out.control_table_keys, nulls_last=True)\n", "            res = res.sort(blocks_out.control_table_keys)\n")

CD = "cdata.py"
v("d107-keyed-column-names-ignored", "C17", CD, "            blocks_out=self.value_column_form(\n                key_column_name=key_column_name, value_column_name=value_column_name\n            ),", "            blocks_out=self.value_column_form(),")

v("d108-keyless-group-by-unguarded", "C17", SM, "            sql_suffix = sql_suffix + [\"HAVING COUNT(1) > 0\"]\n        if len(control_cols) > 0:\n", "            sql_suffix = sql_suffix + [\"HAVING COUNT(1) > 0\"]\n        if True:\n")

v("d109-relaxed-stacking-unguarded", "C17", PM, "            if len(set([stacking_family(t) for t in stacked_types])) > 1:", "            if False:")

v("d110-coalesce-array-operand", "C05", PB, "        if isinstance(b, (numpy.ndarray, list, tuple)):\n            b = self.pd.Series(b)\n", "")
v("d110-coalesce-array-operand-c01", "C01", PB, "        if isinstance(a, (numpy.ndarray, list, tuple)):\n            a = self.pd.Series(a)\n", "")

v("d111-fmax-bare-ufunc", "C05", PB, "            \"fmax\": lambda a, b: self._ignoring_missing(numpy.fmax, a, b),\n", "")
v("d111-fmin-not-refilled", "C05", PB, "            res = res.fillna(self._coalesce(a, b))\n", "            pass\n")

v("d112-join-term-unqualified", "C08", SM, "                terms[ci] = right_qqn + \".\" + self.quote_identifier(ci)", "                terms[ci] = None")
v("d112-join-term-unqualified-c01", "C01", SM, "                terms[ci] = left_qqn + \".\" + self.quote_identifier(ci)", "                terms[ci] = None")

UT = "util.py"
v("d113-all-missing-typed-by-first-cell", "C16", UT, "    if len(good_idx) < 1:\n        return type(None)  # all entries missing: no type carried (a NaN is not evidence of a float column)\n    return map_type_to_canonical(type(col[good_idx[0]]))",
  "    test_idx = 0\n    if len(good_idx) > 0:\n        test_idx = good_idx[0]\n    return map_type_to_canonical(type(col[test_idx]))")
v("d114-join-empty-untyped", "C16", PB, "            return self.pd.DataFrame(\n                {\n                    k: (left[k] if k in left.columns else right[k])\n                    for k in op.columns_produced()\n                }\n            )",
  "            return self.pd.DataFrame({k: [] for k in op.columns_produced()})")
v("d114-extend-empty-untyped", "C03", PB, "            v_dict = {k: res[k] for k in res.columns}  # the incoming columns keep their types", "            v_dict = {k: [] for k in res.columns}")
v("d114-polars-b2r-empty-untyped", "C17", PM, "            return data.select(\n                [pl.col(c) for c in blocks_in.record_keys]\n                + [pl.col(source_col[c]).alias(c) for c in blocks_in.content_keys]\n            )",
  "            return pl.DataFrame({c: [] for c in blocks_in.row_columns})")
v("d114-project-group-col-untyped", "C03", PB, "                res[g] = self.pd.Series([], dtype=group_col_types[g])", "                res[g] = []")

v("d116-spark-coalesce-isnan-any-type", "C16", SP, "            f\" (CASE WHEN typeof({x}) IN ('double', 'float')\"\n            f\" THEN NOT isNaN(CAST(CAST({x} AS STRING) AS DOUBLE)) ELSE TRUE END)\"", "            f\" (NOT isNaN({x}))\"")

NS = "near_sql.py"
v("m8-cte-key-sorted-columns", "C04", NS, "                    ops_key = f\"{ops_key}_{list(self.columns)}\"", "                    ops_key = f\"{ops_key}_{sorted(self.columns)}\"")
v("m8-merged-key-names-only", "C04", SM, "                    subsql.ops_key = f\"{subsql.ops_key}.merged({annotation}, {list(subsql.terms.keys())})\"", "                    subsql.ops_key = f\"{subsql.ops_key}.merged({list(subsql.terms.keys())})\"")
v("m8-polars-join-coalesce-true", "C16", PM, "                how=how,\n                suffix=\"_da_right_tmp\",\n                **_join_order_args,\n            )", "                how=how,\n                suffix=\"_da_right_tmp\",\n                coalesce=True,\n                **_join_order_args,\n            )")
v("m8-join-keys-rebuilt-as-dict", "C07", VR, "            on=[(va, vb) for (va, vb) in zip(self.on_a, self.on_b)],\n            jointype=self.jointype,", "            on=dict(zip(self.on_a, self.on_b)),\n            jointype=self.jointype,")
v("m8-twin-join-keys-as-list-zip", "C07", VR, "            on=[(va, vb) for (va, vb) in zip(self.on_a, self.on_b)],\n            jointype=self.jointype,", "            on=list(zip(self.on_a, self.on_b)),\n            jointype=self.jointype,", expect="silent")

v("d117-coalesce-list-operand", "C05", PB, "        if isinstance(b, (numpy.ndarray, list, tuple)):", "        if isinstance(b, numpy.ndarray):")
v("d119-reindex-on-duplicate-labels", "C08", PB, "        res = res.loc[:, ~res.columns.duplicated()].reindex(columns=blocks_in.row_columns)", "        res = res.reindex(columns=blocks_in.row_columns)")
v("d118-join-cellwise-fill-of-untyped-column", "C16", PB, "                if is_null.all():\n                    # nothing on the left (its column may have no type of its own): the right column as it is\n                    res[c] = res[c + \"_tmp_right_col\"]\n                elif is_null.any():", "                if is_null.any():")
v("d121-keyless-aggregate-over-no-rows", "C17", SM, "            sql_suffix = sql_suffix + [\"HAVING COUNT(1) > 0\"]\n", "            pass\n")
v("d122-spark-coalesce-nested-case", "C16", SP, "                for arg in expression.args\n                for ai in coalesce_args(arg)\n", "                for ai in expression.args\n")

DOU2 = "data_ops_utils.py"
v("d124-merged-extend-moves-reassigned-column", "C06", DOU2, "        new_ops = {k: (ops2[k] if k in common_produced else ops1[k]) for k in ops1.keys()}", "        new_ops = {k: ops1[k] for k in ops1.keys() if k not in common_produced}")
v("d125-join-delegation-reuses-on", "C06", VR, "                on=list(zip(on_a, on_b)),  # `on` may be a one-shot iterable, read above", "                on=on,")

v("d126-sql-size-is-sum", "C09", SM, "    return \"COUNT(1)\"  # 0 over no rows (SUM(1) is NULL there)", "    return \"SUM(1)\"")
v("d126-sql-count-is-sum", "C09", SM, "    return f\"COUNT({e0})\"  # non-NULL entries, 0 over no rows", "    return f\"SUM(CASE WHEN {e0} IS NOT NULL THEN 1 ELSE 0 END)\"")

v("d127-ungrouped-first-through-series-agg", "C09", PB, "                    if (len(op.group_by) < 1) and (transform_op in [\"first\", \"last\"]):", "                    if False:")

v("d128-sqlite-math-raises", "C05", SQ, "        except (ValueError, OverflowError, ZeroDivisionError):\n            # math.log(0)", "        except (KeyError,):\n            # math.log(0)")

v("d129-floor-division-on-sql-slash", "C05", SM, "    ratio = (expression.args[0].float_divide(expression.args[1])).floor()", "    ratio = (expression.args[0] / expression.args[1]).floor()")
v("d153-spark-float-division-decimal-literal", "C05", SP, "    return f\"({e0} / CAST({e1} AS DOUBLE))\"", "    return f\"({e0} / (1.0 * {e1}))\"")
v("d151-sqlite-round-away-from-zero", "C05", SQ, "    return float(round(x))\n", "    return float(math.floor(abs(x) + 0.5)) * (1.0 if x >= 0 else -1.0)\n")

v("d130-where-raw-condition", "C05", PB, "    return numpy.where(_true_positions(cond), _plain_branch(a), _plain_branch(b))", "    return numpy.where(cond, _plain_branch(a), _plain_branch(b))")

v("d131-polars-is-inf-null", "C03", PM, "        \"is_inf\": lambda x: x.is_infinite().fill_null(\n            False\n        ),", "        \"is_inf\": lambda x: x.is_infinite(),")

ER2 = "expr_rep.py"
PBLK = "parse_by_lark.py"
v("d132-dictterm-keeps-foreign-scalars", "C12", ER2, "        self.value = {canonical(k): canonical(v) for k, v in value.items()}", "        self.value = value.copy()")
v("d133-empty-list-content-unchecked", "C13", PBLK, "                if contents is None:\n                    raw_values = []  # the empty collection: [], ()\n                elif isinstance(contents, lark.tree.Tree) and (", "                if isinstance(contents, lark.tree.Tree) and (")

v("d134-convert-records-requests-everything", "C10", VR, "            using=OrderedSet(self.columns_used_from_sources(using=using)[0]),", "            using=None,")

v("d135-first-accepted-unordered", "C18", ER2, "    \"first\",\n    \"last\",\n    \"bfill\",\n    \"ffill\",\n}", "    \"last\",\n    \"bfill\",\n    \"ffill\",\n}")
v("d135-ffill-accepted-unordered-c27", "C27", ER2, "    \"bfill\",\n    \"ffill\",\n}", "    \"bfill\",\n}")

v("d136-pandas-and-by-truthiness", "C05", PB, "            \"and\": lambda *args: self._three_valued(args, is_and=True),", "            \"and\": numpy.logical_and,")

v("d137-sqlite-builtin-round", "C05", SQ, "            \"round\": _round_fn,\n", "")

v("d138-project-accepts-row-wise-methods", "C26", VR, "                    not in data_algebra.expr_rep.fn_names_that_contradict_ordered_windowed_situation\n                ):\n                    # an operator or a row-wise method (-x,", "                    in set()\n                ):\n                    # an operator or a row-wise method (-x,")

v("d138-window-accepts-row-wise-methods", "C26", VR, "                    not in data_algebra.expr_rep.fn_names_of_window_functions\n                ):", "                    in set()\n                ):")

v("d139-and-or-object-result", "C05", PB, "            return a.astype(\"boolean\")\n", "            return a.astype(object)\n")
v("d140-condition-filled-with-bool", "C05", PB, "            return cond.to_numpy(dtype=bool, na_value=False)", "            return cond.fillna(False).to_numpy(dtype=bool)")
v("d141-not-is-identity", "C05", PB, "    return a == False\n", "    return a != False\n")
v("d142-function-form-direct", "C13", PBLK, "                        if isinstance(built, data_algebra.expr_rep.PreTerm):\n                            return built\n", "")
v("d143-argument-placeholder-walked", "C13", PBLK, "                    args = [_r_walk_lark_tree(ai) for ai in raw_args if ai is not None]", "                    args = [_r_walk_lark_tree(ai) for ai in raw_args]")
v("d144-list-items-raw", "C12", ER2, "        self.value = [as_term(vi) for vi in value]", "        self.value = list(value)")

v("d145-polars-join-order-unstated", "C19", PM, "                suffix=\"_da_right_tmp\",\n                **_join_order_args,\n", "                suffix=\"_da_right_tmp\",\n")
v("d145-polars-swapped-join-order-unstated", "C19", PM, "                suffix=\"_da_left_tmp\",\n                **_join_order_args,\n", "                suffix=\"_da_left_tmp\",\n")

ECF = "eval_cache.py"
v("d146-category-cells-not-typed", "C25", ECF, "        if str(d.iloc[:, j].dtype) in (\"object\", \"category\")\n", "        if str(d.iloc[:, j].dtype) in (\"object\",)\n")
v("d146-category-value-dtype-missing", "C25", ECF, "        str(t) if str(t) != \"category\" else f\"category[{t.categories.dtype}]\"\n", "        str(t)\n")

v("d147-uniform-accepted-in-project", "C26", ER2, "    \"uniform\",  # one draw per row, not an aggregation\n    \"_uniform\",\n", "")

SOL = "solutions.py"
v("d148-mark-pasted-between-quotes", "C14", SOL, "{source_id_column} == {_literal_text(state_row_mark)}).if_else(None, {k})\"", "{source_id_column} == \\\"{state_row_mark}\\\").if_else(None, {k})\"")
v("d149-spark-literal-keeps-dollar-brace", "C14", SP, "            .replace(\"${\", \"$\\\\{\")\n", "")

v("d159-is-in-masked-column", "C05", PB, "    if hasattr(a, \"isin\") and hasattr(getattr(a, \"dtype\", None), \"na_value\"):\n        # a nullable (masked) column: numpy can not compare its missing entries, which are in no set\n        return numpy.asarray(a.isin(b), dtype=bool) & numpy.asarray(a.notna(), dtype=bool)\n", "")
v("d160-and-or-numbers-refused", "C05", PB, "            if self.pd.api.types.is_numeric_dtype(a.dtype) and (\n                not self.pd.api.types.is_bool_dtype(a.dtype)\n            ):", "            if False:")
v("d161-condition-fallback-unread", "C05", PB, "        missing = numpy.asarray(cond.isna(), dtype=bool)\n        if missing.any():\n            # numpy takes nan for a true value\n            values = numpy.array(cond.to_numpy(dtype=object), dtype=object)\n            values[missing] = False\n            return values.astype(bool)\n", "")
v("d161-where-result-keeps-na", "C05", PB, "    return numpy.where(_true_positions(cond), _plain_branch(a), _plain_branch(b))", "    return numpy.where(_true_positions(cond), a, b)")
v("d161-if-else-result-keeps-na", "C05", PB, "        res = numpy.where(_true_positions(cond), _plain_branch(a), _plain_branch(b))", "        res = numpy.where(_true_positions(cond), a, b)")
v("c05-sqlite-mod-sign-of-dividend", "C05", SQ, " THEN ((({e0} % {e1}) + {e1}) % {e1})\"", " THEN ({e0} % {e1})\"")
v("c05-sqlite-floordiv-truncates", "C05", SQ, " THEN (({e0} / {e1}) - ((({e0} % {e1}) != 0) AND (({e0} < 0) != ({e1} < 0))))\"", " THEN ({e0} / {e1})\"")
v("c05-sqlite-mod-same-meaning-other-text", "C05", SQ, " THEN ((({e0} % {e1}) + {e1}) % {e1})\"", " THEN (({e0} % {e1}) + (CASE WHEN (({e0} % {e1}) != 0) AND ((({e0} % {e1}) < 0) != ({e1} < 0)) THEN {e1} ELSE 0 END))\"", expect="silent")

OSF = "OrderedSet.py"
v("d162-xor-inherited", "C24", OSF, "    def __xor__(self, other):\n        # order by self, then other (the inherited operator lets another set, e.g. a keys view, answer with a plain set)\n        assert not isinstance(other, str)  # treat string as atomic value, not iterable\n        iter(other)  # TypeError for what can not be iterated (None is not the empty set)\n        other = OrderedSet(other)\n        return OrderedSet(\n            [e for e in self if e not in other] + [e for e in other if e not in self]\n        )\n\n", "")
v("d162-xor-delegates-to-other", "C24", OSF, "        other = OrderedSet(other)\n        return OrderedSet(\n            [e for e in self if e not in other] + [e for e in other if e not in self]\n        )\n", "        return OrderedSet([e for e in self if e not in other]) | (other - self)\n")
v("d162-xor-twin-ordered-helpers", "C24", OSF, "        return OrderedSet(\n            [e for e in self if e not in other] + [e for e in other if e not in self]\n        )\n", "        left = [e for e in self if e not in other]\n        right = [e for e in other if e not in self]\n        return OrderedSet(left + right)\n", expect="silent")

v("d164-is-in-missing-is-member", "C05", PB, "        return numpy.asarray(a.isin(b), dtype=bool) & numpy.asarray(a.notna(), dtype=bool)\n", "        return numpy.asarray(a.isin(b), dtype=bool)\n")
v("d165-literal-through-float", "C14", SOL, "    if isinstance(value, numpy.generic) and (value.dtype.kind in \"biuf\"):\n        value = value.item()  # numpy numbers as the Python number of the same kind (integers stay exact)\n        if isinstance(value, numpy.floating):\n            value = float(value)  # numpy.longdouble is its own item\n", "")
v("d166-function-form-swallows-refusal", "C13", PBLK, "                        except AssertionError:\n                            # the plain function form stays for names taking any number of arguments and for None arguments\n                            if (op_name not in _n_ary_function_names) and (\n                                not any(\n                                    isinstance(ai, data_algebra.expr_rep.Value)\n                                    and (ai.value is None)\n                                    for ai in args\n                                )\n                            ):\n                                raise\n", "                        except AssertionError:\n                            pass\n")
v("d178-arity-rescued-by-none", "C13", PBLK, "                        except AssertionError:\n                            # the plain function form stays", "                        except (AssertionError, TypeError):\n                            # the plain function form stays")
v("d168-xor-takes-non-iterable", "C24", OSF, "        iter(other)  # TypeError for what can not be iterated (None is not the empty set)\n", "")
v("d169-list-item-array-for-scalar", "C12", ER2, "                and (vi.dtype.kind in \"biuf\")\n                and (getattr(vi, \"ndim\", 0) == 0)\n            ):", "                and (vi.dtype.kind in \"biuf\")\n            ):")
v("d170-category-cells-not-in-key", "C25", ECF, "    cell_ids = ids[col.cat.codes.to_numpy()]\n    return names + [hashlib.sha256(cell_ids.tobytes()).hexdigest()]\n", "    return names\n")

# rules written after the sixth seeding round
v("c22-switch-read-when-decorating", "C22", DS, "        type_check_self = self\n", "        if not SchemaCheckSwitch().is_on():\n            return type_check_fn\n        type_check_self = self\n")
v("c06-merge-partition-subset", "C06", VR, "            compatible_partition = (partition_by == self.partition_by) or (", "            compatible_partition = (set(partition_by if partition_by != 1 else []) <= set(self.partition_by if self.partition_by != 1 else [])) or (")
v("c09-merge-partition-subset", "C09", VR, "            compatible_partition = (partition_by == self.partition_by) or (", "            compatible_partition = (set(partition_by if partition_by != 1 else []) <= set(self.partition_by if self.partition_by != 1 else [])) or (")
v("c08-drop-attached-to-grand-source", "C08", VR, "        if len(remaining_columns) < 1:\n            raise ValueError(\"can not drop all columns\")\n", "        if len(remaining_columns) < 1:\n            raise ValueError(\"can not drop all columns\")\n        if isinstance(source, SelectColumnsNode):\n            source = source.sources[0]\n")
v("c05-remainder-operand-bare", "C05", SM, "    e0 = dbmodel.expr_to_sql(expression.args[0], want_inline_parens=True)\n    e1 = dbmodel.expr_to_sql(expression.args[1], want_inline_parens=True)\n    return f\"({e0} - FLOOR(", "    e0 = dbmodel.expr_to_sql(expression.args[0], want_inline_parens=False)\n    e1 = dbmodel.expr_to_sql(expression.args[1], want_inline_parens=True)\n    return f\"({e0} - FLOOR(")
v("c27-sort-skipped-when-monotonic", "C27", PB, "            if len(order_cols) > 0:\n                # order by partition and order columns only", "            if not subframe[order_cols].apply(tuple, axis=1).is_monotonic_increasing:\n                # order by partition and order columns only")
v("c18-sort-skipped-when-monotonic", "C18", PB, "            if len(order_cols) > 0:\n                # order by partition and order columns only", "            if not subframe[order_cols].apply(tuple, axis=1).is_monotonic_increasing:\n                # order by partition and order columns only")

v("d171-view-names-not-counted", "C15", SM, "            view_name = getattr(cursor, \"view_name\", None)\n            if isinstance(view_name, str):\n                user_names.append(view_name)\n", "")
v("d172-xicor-scratch-unchecked", "C15", SOL, "    assert \"_da_xicor_tmp_order\" not in (x_vars + [y_name])\n", "")
v("d173-polars-selector-names-unrefused", "C15", PM, "                if (c == \"*\") or (c.startswith(\"^\") and c.endswith(\"$\")):\n                    raise ValueError(\n                        f\"Polars would read the column name {repr(c)} as a selector\"\n                    )\n", "                pass\n")

# regression round 6
v("d174-numeric-branch-made-object", "C05", PB, "    if getattr(dtype, \"kind\", \"O\") in \"iufcmM\":\n        return x\n", "")
v("d174-is-in-numpy-path-unmasked", "C05", PB, "    if hasattr(a, \"isna\"):\n        # a missing entry is in no set (a None in the list is no exception)\n        res = res & (~numpy.asarray(a.isna(), dtype=bool))\n", "")
v("d175-zero-dim-array-refused", "C12", ER2, "                and (getattr(vi, \"ndim\", 0) == 0)\n", "                and (not hasattr(vi, \"__len__\"))\n")
v("d179-dict-zero-dim-array-refused", "C12", ER2, "                and (getattr(v, \"ndim\", 0) == 0)\n", "                and (not hasattr(v, \"__len__\"))\n")
v("d176-named-method-returns-notimplemented", "C24", OSF, "        iter(other)  # TypeError for what can not be iterated (None is not the empty set)\n", "        if not isinstance(other, Iterable):\n            return NotImplemented\n")
v("d177-category-codes-hashed-raw", "C25", ECF, "    cell_ids = ids[col.cat.codes.to_numpy()]\n    return names + [hashlib.sha256(cell_ids.tobytes()).hexdigest()]\n", "    return names + [hashlib.sha256(col.cat.codes.to_numpy().tobytes()).hexdigest()]\n")

v("c05-generic-remainder-truncates", "C05", SM, "    return f\"({e0} - FLOOR({e0} / (1.0 * {e1})) * {e1})\"", "    return f\"MOD({e0}, {e1})\"")

# rules written after the seventh seeding round
v("c07-leaves-substituted-in-a-loop", "C07", VR, "                return self.replace_leaves(data_map)\n", "                res_ops = self\n                for k_, v_ in data_map.items():\n                    res_ops = res_ops.replace_leaves({k_: v_})\n                return res_ops\n")
v("c03-polars-select-only-when-extra-columns", "C03", PM, "        data = data.select(blocks_in.block_columns)\n", "        if len(data.columns) != len(blocks_in.block_columns):\n            data = data.select(blocks_in.block_columns)\n")
v("c17-polars-select-only-when-extra-columns", "C17", PM, "        data = data.select(blocks_in.block_columns)\n", "        if len(data.columns) != len(blocks_in.block_columns):\n            data = data.select(blocks_in.block_columns)\n")

# rules written after the eighth seeding round
v("c27-sort-only-when-ordered-functions", "C27", PB, "            if len(order_cols) > 0:\n                # order by partition and order columns only", "            if (len(order_cols) > 0) and data_algebra.expr_rep.implies_windowed(op.ops):\n                # order by partition and order columns only")
v("c24-xor-membership-from-raw-operand", "C24", OSF, "        other = OrderedSet(other)\n        return OrderedSet(\n            [e for e in self if e not in other] + [e for e in other if e not in self]\n        )\n", "        members = set(other)\n        return OrderedSet(\n            [e for e in self if e not in members] + [e for e in other if e not in self]\n        )\n")
v("c12-expression-text-memoised", "C12", ER2, "        n_args = len(self.args)\n        if n_args <= 0:\n            return PythonText(self.op + \"()\", is_in_parens=False)\n", "        if getattr(self, \"_txt\", None) is None:\n            self._txt = self._fmt(want_inline_parens=want_inline_parens)\n        return self._txt\n\n    def _fmt(self, *, want_inline_parens: bool):\n        n_args = len(self.args)\n        if n_args <= 0:\n            return PythonText(self.op + \"()\", is_in_parens=False)\n")
v("c04-where-written-into-sub-step", "C04", SM, "        view_name = \"select_rows_\" + str(temp_id_source[0])\n", "        if isinstance(subsql, data_algebra.near_sql.NearSQLUnaryStep) and (subsql.suffix is None):\n            subsql.suffix = [\"WHERE\", self.expr_to_sql(select_rows_node.expr)]\n            return subsql\n        view_name = \"select_rows_\" + str(temp_id_source[0])\n")

# rules written after the ninth seeding round
v("c06-trivial-by-truthiness", "C06", VR, "        return self.limit is None\n", "        return not self.limit\n")
v("c13-kop-splices-nested", "C13", ER2, "    args = [(ai if isinstance(ai, Term) else enc_value(ai)) for ai in args]\n    return Expression(op, args, inline=inline, method=method)\n", "    args = [(ai if isinstance(ai, Term) else enc_value(ai)) for ai in args]\n    if inline:\n        args = [x for ai in args for x in (ai.args if (isinstance(ai, Expression) and ai.op == op and ai.inline) else [ai])]\n    return Expression(op, args, inline=inline, method=method)\n")
v("c05-polars-trimstr-raw-slice", "C05", PM, "        \"trimstr\": lambda a, b, c: a.trimstr(b, c),\n", "        \"trimstr\": lambda a, b, c: a.str.slice(b, c),\n")
v("c05-polars-trimstr-right-slice-twin", "C05", PM, "        \"trimstr\": lambda a, b, c: a.trimstr(b, c),\n", "        \"trimstr\": lambda a, b, c: a.str.slice(b, c - b),\n", expect="silent")
v("c26-partition-one-flag-dropped", "C26", VR, "            partition_by = []\n            windowed_situation = True\n", "            partition_by = []\n")
v("c15-locf-names-not-compared-with-all-columns", "C15", SOL, "        locf_tiebreaker_column_name,\n    ] + list(d.column_names)\n", "        locf_tiebreaker_column_name,\n    ] + list(order_by)\n")

# rules written after the tenth seeding round
v("c16-on-parser-dict", "C16", VR, "    return on_a, on_b\n\n\ndef _convert_parallel_lists_to_on_clause", "    pairs_ = dict()\n    for k_, v_ in zip(on_a, on_b):\n        pairs_[k_] = v_\n    return list(pairs_.keys()), list(pairs_.values())\n\n\ndef _convert_parallel_lists_to_on_clause")
v("c09-project-shortcut-unguarded", "C09", VR, "        return ProjectNode(source=self, parsed_ops=parsed_ops, group_by=group_by)\n", "        if (len(parsed_ops) < 1) and isinstance(self, ProjectNode):\n            return self.select_columns(group_by)\n        return ProjectNode(source=self, parsed_ops=parsed_ops, group_by=group_by)\n")

# rules written after the eleventh seeding round
v("c20-db-insert-setdefault", "C20", "db_space.py",
  "        self.db_handle.insert_table(\n            value, table_name=key, allow_overwrite=allow_overwrite\n        )\n        return self.model_table(key, eligible_for_auto_drop=True)\n",
  "        descr = self.db_handle.insert_table(\n            value, table_name=key, allow_overwrite=allow_overwrite\n        )\n        self.eligable_for_auto_drop_list.add(key)\n        return self.description_map.setdefault(key, descr)\n")
v("c20-db-insert-store-only-when-new", "C20", "db_space.py",
  "        return self.model_table(key, eligible_for_auto_drop=True)\n",
  "        if key in self.description_map.keys():\n            return self.description_map[key]\n        return self.model_table(key, eligible_for_auto_drop=True)\n")
v("c20-db-insert-direct-store-twin", "C20", "db_space.py",
  "        self.db_handle.insert_table(\n            value, table_name=key, allow_overwrite=allow_overwrite\n        )\n        return self.model_table(key, eligible_for_auto_drop=True)\n",
  "        descr = self.db_handle.insert_table(\n            value, table_name=key, allow_overwrite=allow_overwrite\n        )\n        self.eligable_for_auto_drop_list.add(key)\n        self.description_map[key] = descr\n        return descr\n", expect="silent")
v("c20-model-table-conditional-store", "C20", "db_space.py",
  "        descr = self.db_handle.describe_table(key)\n        self.description_map[key] = descr\n",
  "        descr = self.db_handle.describe_table(key)\n        if key not in self.description_map.keys():\n            self.description_map[key] = descr\n")
v("c24-dunder-copy-removed", "C24", "OrderedSet.py",
  "    def __copy__(self):\n        return OrderedSet(self.impl.keys())\n\n", "")
v("c24-dunder-copy-returns-self", "C24", "OrderedSet.py",
  "    def __copy__(self):\n        return OrderedSet(self.impl.keys())\n", "    def __copy__(self):\n        return self\n")
v("c24-dunder-copy-delegates-twin", "C24", "OrderedSet.py",
  "    def __copy__(self):\n        return OrderedSet(self.impl.keys())\n", "    def __copy__(self):\n        return self.copy()\n", expect="silent")
v("c27-polars-sort-skipped-below-order-rows", "C27", PM,
  "        if len(op.order_by) > 0:\n            order_cols = list(partition_by)\n",
  "        presorted = (op.sources[0].node_name == \"OrderRowsNode\") and (op.order_by[: len(op.sources[0].order_columns)] == op.sources[0].order_columns)\n        if (len(op.order_by) > 0) and (not presorted):\n            order_cols = list(partition_by)\n")
v("c18-polars-sort-skipped-below-order-rows", "C18", PM,
  "        if len(op.order_by) > 0:\n            order_cols = list(partition_by)\n",
  "        presorted = (op.sources[0].node_name == \"OrderRowsNode\") and (op.order_by[: len(op.sources[0].order_columns)] == op.sources[0].order_columns)\n        if (len(op.order_by) > 0) and (not presorted):\n            order_cols = list(partition_by)\n")
v("c27-polars-sort-guard-local-twin", "C27", PM,
  "        if len(op.order_by) > 0:\n            order_cols = list(partition_by)\n",
  "        n_order = len(op.order_by)\n        if n_order > 0:\n            order_cols = list(partition_by)\n", expect="silent")
v("c25-key-zip-names-hashes", "C25", "eval_cache.py",
  "        dat_map_list=tuple([(k, hash_data_frame(data_map[k])) for k in data_map_keys]),\n",
  "        dat_map_list=tuple(zip(data_map_keys, sorted(hash_data_frame(d) for d in data_map.values()))),\n")
v("c27-polars-over-only-for-method-terms", "C27", PM,
  "            if op.windowed_situation and (\n                not (\n                    fld_k_container.is_literal\n",
  "            if op.windowed_situation and (len(op.order_by) > 0) and (\n                not (\n                    fld_k_container.is_literal\n")
v("c16-passthrough-guard-widened-by-or", "C16", "sql_model.py",
  "        for ci in using_left:\n            if ci not in common:\n",
  "        for ci in using_left:\n            if (ci not in common) or (join_node.jointype == \"LEFT\"):\n")

# rules written after the twelfth (short) seeding round
v("c22-column-cells-first-only", "C22", "data_schema.py",
  "        return [vi for j in range(col.shape[1]) for vi in col.iloc[:, j]]\n", "        col = col.iloc[:, 0]\n")
v("c22-column-cells-loop-twin", "C22", "data_schema.py",
  "        return [vi for j in range(col.shape[1]) for vi in col.iloc[:, j]]\n",
  "        cells = []\n        for j in range(col.shape[1]):\n            cells.extend(col.iloc[:, j])\n        return cells\n", expect="silent")
v("c17-compose-landing-map-inverted", "C17", "cdata.py",
  "                landed_in = {rso[c].iloc[0]: c for c in rso.columns}\n", "                landed_in = {c: rso[c].iloc[0] for c in rso.columns}\n")
