"""C08 results have exactly the columns the pipeline declares — structural clauses."""
from __future__ import annotations

import ast
from typing import List, Set

from .. import cfg as cfgmod
from .. import deps as depsmod
from ..index import AnalysisError, dotted_name, unparse
from ..nodes import NodeModel
from . import c16
from .. import colsets

EXPLANATION = (
    "S1 temp pairing, Pandas: every scratch column an executor step writes into a frame that can reach its return "
    "(a store whose column name is, or is bound to, an internal constant such as data_algebra_*_temp_col_n, "
    "_data_table_temp_col, data_algebra_temp_merge_col, _data_algebra_orig_index, _data_algebra_temp_g) is removed "
    "on every path to the return: by a `del`/drop over the same name source that post-dominates the store, or by "
    "a reconstruction of the frame from an explicit column list / dict that does not contain it. S2 Polars: a step "
    "that adds temporary columns (with_columns(temp…), join suffixes/aliases) is followed, under the same guard, "
    "by select(op.columns_produced()); every other step ends in select(op.columns_produced()) or a pure "
    "projection. S3 join twins: the suffixed twin of a shared column is cleaned up unless it is an equal-named "
    "key pair. S4 SQL: the select terms of every generated step derive from the requested column set `using`, "
    "the top-level call requests everything (using=None), a step with terms never emits `*`, and "
    "select_columns re-orders the terms by the declared selection. Not decided: emptiness corner cases, column "
    "order where the operators do not define it."
)

def _s1(program, res):
    pb = program.cls("pandas_base", "PandasModelBase")
    n_sites = 0
    n_funcs = 0
    steps = [m for m in pb.methods.values() if m.name.endswith("_step") or m.name in ("add_data_frame_columns_to_data_frame_",)]
    for name in ("_extend_step", "_project_step", "_natural_join_step"):
        if name not in pb.methods:
            raise AnalysisError(f"anchor vanished: PandasModelBase.{name}")
    for m in steps:
        res.analysed(m)
        n_funcs += 1
        g = cfgmod.build(m.node)
        cs = colsets.ColSets(g, m.node)
        rets = cs.returned()
        leaked = {}
        for (r, carried) in rets:
            for sym in carried:
                leaked.setdefault(sym, r)
        by_sym = {}
        for (n, frame, sym) in cs.stores:
            by_sym.setdefault((frame, sym), n)
        for (frame, sym), n in sorted(by_sym.items(), key=lambda kv: kv[1].line):
            n_sites += 1
            # a store under a generated name later registered in a dict is reported under the family symbol
            eff = [s for s in leaked if s == sym or (sym[0] == "var" and s[0] == "const" and s[1] == sym[2])
                   or (sym[0] == "var" and s[0] == "family")]
            if sym in leaked or (sym[0] == "var" and any(s[0] == "const" and sym[2] == s[1] for s in leaked)):
                r = leaked.get(sym) or next(leaked[s] for s in leaked if s[0] == "const" and s[1] == sym[2])
                res.fail_at("C08-S1", m, f"scratch-column-leaks:{frame}[{colsets.show(sym)}]",
                            f"{m.qualname} stores the internal column {colsets.show(sym)} into `{frame}` (line {n.line}) and the frame returned at line "
                            f"{r.line} (`{unparse(r.stmt)[:60]}`) may still carry it: no deletion, drop or re-selection of declared columns removes "
                            f"it on every path, so the result has a column the pipeline does not declare", n.stmt)
            else:
                res.ok("C08-S1", f"{m.qualname}: internal column {colsets.show(sym)} stored into `{frame}` is gone from every returned frame")
        # symbols that reach a return without a recorded store in this function (renamed / merged in)
        for sym, r in leaked.items():
            if not any(sym == s2 or (s2[0] == "var" and sym[0] == "const" and s2[2] == sym[1]) for (_f, s2) in by_sym):
                res.fail_at("C08-S1", m, f"scratch-column-leaks:{colsets.show(sym)}",
                            f"{m.qualname}: the frame returned at line {r.line} may carry the internal column {colsets.show(sym)}", r.stmt)
    res.expect_count("C08-S1", "scratch-column stores in Pandas steps", n_sites, 7)
    res.expect_count("C08-S1", "Pandas step methods analysed", n_funcs, 12)


def _s2(program, res):
    pm = program.cls("polars_model", "PolarsModel")
    model = NodeModel(program)
    n = 0
    for k in model.kinds.values():
        m = k.evaluators.get("polars")
        if m is None:
            continue
        res.analysed(m)
        n += 1
        g = cfgmod.build(m.node)
        sel = [x for x in g.stmt_nodes(("stmt", "return")) if "select(op.columns_produced())" in unparse(x.stmt)]
        # the list of temporary column expressions: the variable handed to add_in_temp_columns(...) / appended with internal aliases
        tvars = {c.args[0].id for c in ast.walk(m.node) if isinstance(c, ast.Call) and isinstance(c.func, ast.Attribute)
                 and c.func.attr == "add_in_temp_columns" and c.args and isinstance(c.args[0], ast.Name)}
        temps = [x for x in g.stmt_nodes(("stmt",)) if any(
            isinstance(c, ast.Call) and isinstance(c.func, ast.Attribute) and c.func.attr == "with_columns" and c.args
            and isinstance(c.args[0], ast.Name) and c.args[0].id in tvars for c in ast.walk(x.stmt))]
        joins = [x for x in g.stmt_nodes(("stmt",)) if ".join(" in unparse(x.stmt) and "suffix=" in unparse(x.stmt)]
        if temps:
            for t in temps:
                tg = [unparse(b.cond) for b, _l in g.lexical_guards(t)]
                ok = any(s.id in g.reachable_from(t.id) and s.id != t.id and [unparse(b.cond) for b, _l in g.lexical_guards(s)] in (tg, [])
                         for s in sel)
                if ok:
                    res.ok("C08-S2", f"{m.qualname}: temporary columns are followed by select(op.columns_produced()) under the same guard")
                else:
                    res.fail_at("C08-S2", m, "temp-columns-not-selected-away",
                                f"{m.qualname} adds temporary columns under `{tg}` but no select(op.columns_produced()) follows under that guard", t.stmt)
        elif joins:
            ends = [s for s in sel if not g.lexical_guards(s)]
            if ends and all(ends[0].id in g.reachable_from(j.id) for j in joins):
                res.ok("C08-S2", f"{m.qualname}: the join (suffixes, key aliases) is followed by an unconditional select(op.columns_produced())")
            else:
                res.fail_at("C08-S2", m, "join-columns-not-selected-away", f"{m.qualname}: no unconditional select(op.columns_produced()) after the join")
        elif k.name in ("ConvertRecordsNode",):
            res.ok("C08-S2", f"{m.qualname}: delegated to the record map", nontrivial=False)
        elif k.name in ("ConcatRowsNode",):
            from .. import pat
            lists = pat.find("_CC = [_C for _C in __COLS if _C != op.id_column]", m.node)
            lists = [e for (_n, e) in lists if e["__COLS"] in ("op.columns_produced()", "op.column_names")]
            sel = [e for (_n, e) in pat.find("[_I.select(_CC) for _I in _INPUTS]", m.node)]
            if lists and any(e["_CC"] == lists[0]["_CC"] for e in sel):
                res.ok("C08-S2", f"{m.qualname}: both inputs are projected to the common columns, then the id column is added")
            else:
                res.fail_at("C08-S2", m, "concat-projection", f"{m.qualname} no longer projects both inputs to the declared columns")
        elif k.name in ("OrderRowsNode",):
            res.ok("C08-S2", f"{m.qualname}: sort/head keep the column set", nontrivial=False)
        else:
            if sel:
                res.ok("C08-S2", f"{m.qualname}: ends in select(op.columns_produced())")
            else:
                res.fail_at("C08-S2", m, "no-final-select", f"{m.qualname} does not project to op.columns_produced()")
    res.expect_count("C08-S2", "Polars steps", n, 12)


def _s4(program, res):
    sm = program.cls("sql_model", "SQLModel")
    ts = sm.methods.get("to_sql")
    calls = [c for c in ast.walk(ts.node) if isinstance(c, ast.Call) and isinstance(c.func, ast.Attribute) and c.func.attr == "to_near_sql_implementation_"]
    kws = {kw.arg: unparse(kw.value) for c in calls for kw in c.keywords}
    if kws.get("using") == "None":
        res.ok("C08-S4", "to_sql requests every declared column (using=None)")
    else:
        res.fail_at("C08-S4", ts, "top-level-using", f"to_sql starts generation with using={kws.get('using')}")
    n = 0
    for m in sm.methods.values():
        if not m.name.endswith("_to_near_sql"):
            continue
        g = cfgmod.build(m.node)
        d = depsmod.Deps(g, m.params())
        for node in g.stmt_nodes(("stmt", "return")):
            for c in ast.walk(node.stmt):
                if isinstance(c, ast.Call) and (dotted_name(c.func) or "").startswith("data_algebra.near_sql.NearSQL") \
                        and (dotted_name(c.func) or "").endswith("Step"):
                    kw = {k.arg: k.value for k in c.keywords}
                    if "terms" not in kw:
                        continue
                    n += 1
                    res.analysed(m)
                    roots = d.roots_at(node, kw["terms"])
                    if "using" in roots or (m.name == "order_to_near_sql"):
                        res.ok("C08-S4", f"{m.qualname}: select terms derive from the requested columns")
                    else:
                        res.fail_at("C08-S4", m, "terms-ignore-using", f"the select terms of {m.qualname} do not derive from `using`", c)
    res.expect_count("C08-S4", "generated steps with terms", n, 9)
    sc = sm.methods["select_columns_to_near_sql"]
    comps = [c for c in ast.walk(sc.node) if isinstance(c, ast.DictComp) and "column_selection" in unparse(c.generators[0].iter)]
    if comps:
        res.ok("C08-S4", "select_columns re-orders the sub-step's terms by the declared selection")
    else:
        res.fail_at("C08-S4", sc, "selection-order", "select_columns_to_near_sql no longer orders the terms by column_selection")
    # `SELECT *` may stand for the select list only when no columns were requested: enumerate the emitters' paths and evaluate every
    # branch condition under the assumption "columns is a non-empty list" — a path that ends with the star list must be infeasible then
    n_star = 0
    for em in sm.methods.values():
        if not (em.name.startswith("nearsql") and em.name.endswith("_to_sql_str_list_") and "columns" in em.params()):
            continue
        stars = [st for st in ast.walk(em.node) if isinstance(st, ast.Assign) and isinstance(st.value, ast.List) and len(st.value.elts) == 1
                 and isinstance(st.value.elts[0], ast.Constant) and st.value.elts[0].value == "*" and isinstance(st.targets[0], ast.Name)]
        if not stars:
            continue
        res.analysed(em)
        g = cfgmod.build(em.node)
        tvars = {st.targets[0].id for st in stars}
        bad_path = None
        n_paths = 0
        for path in g.paths(limit=20000):
            n_paths += 1
            last = {}
            requested_holds = True   # `columns` still is the caller's value
            feasible = True          # ... under the assumption that the caller requested columns
            derived_from_columns = set()
            for (nid, label) in path:
                node = g.nodes[nid]
                st = node.stmt
                if node.kind == "test" and node.cond is not None and isinstance(label, bool):
                    v = _eval_requested(node.cond, requested_holds, derived_from_columns)
                    if v is not None and v != label:
                        feasible = False
                        break
                if isinstance(st, ast.Assign) and len(st.targets) == 1 and isinstance(st.targets[0], ast.Name) and node.kind == "stmt":
                    tgt = st.targets[0].id
                    if tgt == "columns":
                        requested_holds = False
                    if tgt in tvars:
                        last[tgt] = st
                        # a list built by iterating the requested columns is as long as they are
                        if isinstance(st.value, ast.ListComp) and unparse(st.value.generators[0].iter) == "columns" and not st.value.generators[0].ifs and requested_holds:
                            derived_from_columns.add(tgt)
                        else:
                            derived_from_columns.discard(tgt)
            if not feasible:
                continue
            enders = [st for st in last.values() if st in stars]
            if enders and g.nodes[path[-1][0]].kind != "raise":
                bad_path = (enders[0], path)
                break
        n_star += 1
        if bad_path is None:
            res.ok("C08-S4", f"{em.name}: `SELECT *` is emitted only when the caller requested no columns ({n_paths} paths)")
        else:
            res.fail_at("C08-S4", em, "star-although-columns-requested",
                        f"{em.name} can emit `SELECT *` although the caller asked for specific columns (a step without terms of its own): order_rows directly over a table "
                        f"description returns every column of the real table, in the table's order — td(x,y,z).order_rows(['x'], limit=2) over a table q,z,x,y returns q,z,x,y, "
                        f"and td.select_columns(['z','y','x']).order_rows(['x']) returns x,y,z", bad_path[0])
    if n_star < 2:
        raise AnalysisError(f"C08-S4: only {n_star} emitters with a `*` select list found")


def _eval_requested(cond, requested_holds, nonempty_lists):
    """three-valued evaluation of a branch condition under the assumption `columns` is a non-empty list (None = unknown)"""
    if isinstance(cond, ast.BoolOp):
        vals = [_eval_requested(v, requested_holds, nonempty_lists) for v in cond.values]
        if isinstance(cond.op, ast.Or):
            return True if any(v is True for v in vals) else (False if all(v is False for v in vals) else None)
        return False if any(v is False for v in vals) else (True if all(v is True for v in vals) else None)
    if isinstance(cond, ast.UnaryOp) and isinstance(cond.op, ast.Not):
        v = _eval_requested(cond.operand, requested_holds, nonempty_lists)
        return None if v is None else (not v)
    if isinstance(cond, ast.Compare) and len(cond.ops) == 1:
        l, op, r = cond.left, cond.ops[0], cond.comparators[0]
        if isinstance(l, ast.Name) and l.id == "columns" and isinstance(r, ast.Constant) and r.value is None and requested_holds:
            return False if isinstance(op, ast.Is) else (True if isinstance(op, ast.IsNot) else None)
        if isinstance(l, ast.Call) and dotted_name(l.func) == "len" and len(l.args) == 1 and isinstance(l.args[0], ast.Name) and isinstance(r, ast.Constant) \
                and isinstance(r.value, int):
            nm = l.args[0].id
            if (nm == "columns" and requested_holds) or nm in nonempty_lists:
                # len >= 1
                k = r.value
                if isinstance(op, ast.Lt):
                    return False if k <= 1 else None
                if isinstance(op, ast.LtE):
                    return False if k <= 0 else None
                if isinstance(op, ast.Gt):
                    return True if k <= 0 else None
                if isinstance(op, ast.GtE):
                    return True if k <= 1 else None
                if isinstance(op, ast.Eq):
                    return False if k <= 0 else None
                if isinstance(op, ast.NotEq):
                    return True if k <= 0 else None
    return None


def _s4b_inplace_narrowing(program, res):
    """select_columns / drop_columns narrow the *sub-step's* select list in place and return the sub-step.  A raw step (user SQL,
    record conversion) has no select list of its own (terms is None) and its emitter reads neither terms nor columns: for it the
    narrowing has to be a select of its own around the raw step."""
    sm = program.cls("sql_model", "SQLModel")
    n = 0
    for m in sm.methods.values():
        if not m.name.endswith("_to_near_sql"):
            continue
        subs = [st.targets[0].id for st in ast.walk(m.node) if isinstance(st, ast.Assign) and len(st.targets) == 1 and isinstance(st.targets[0], ast.Name)
                and isinstance(st.value, ast.Call) and isinstance(st.value.func, ast.Attribute) and st.value.func.attr == "to_near_sql_implementation_"]
        for sub in subs:
            stores = [st for st in ast.walk(m.node) if isinstance(st, ast.Assign) and unparse(st.targets[0]) == f"{sub}.terms"]
            returns_sub = any(isinstance(r, ast.Return) and isinstance(r.value, ast.Name) and r.value.id == sub for r in ast.walk(m.node))
            if not (stores and returns_sub):
                continue
            n += 1
            res.analysed(m)
            g = cfgmod.build(m.node)
            # a branch on `<sub>.terms is None` whose None side returns a newly constructed step
            handled = False
            for t in g.stmt_nodes(("test",)):
                c = t.cond
                if not (isinstance(c, ast.Compare) and unparse(c.left) == f"{sub}.terms" and isinstance(c.comparators[0], ast.Constant) and c.comparators[0].value is None):
                    continue
                if not isinstance(t.stmt, ast.If):
                    continue
                none_label = isinstance(c.ops[0], ast.Is)
                arm = t.stmt.body if none_label else t.stmt.orelse
                if any(isinstance(r, ast.Return) and isinstance(r.value, (ast.Call, ast.Name)) and not (isinstance(r.value, ast.Name) and r.value.id == sub)
                       for a in arm for r in ast.walk(a)):
                    handled = True
            # ... or every store happens only for a sub-step known to be a selecting step (isinstance(sub, NearSQLUnaryStep))
            if not handled and all(any(lab is True and f"isinstance({sub}," in unparse(b.cond).replace(" ", "").replace("\n", "") and "UnaryStep" in unparse(b.cond)
                                       for b, lab in g.lexical_guards(g.containing_node(st))) for st in stores):
                handled = True
            # the narrowed select list must not become empty: an emitter turns an empty list into `*`, and for an aggregating sub-step
            # (un-grouped project) `SELECT * FROM <its source>` is no longer an aggregation
            for st in stores:
                v = st.value
                if isinstance(v, ast.Name):
                    # a local holding the narrowed list: judged by its (single) definition
                    defs = [a.value for a in ast.walk(m.node) if isinstance(a, ast.Assign) and len(a.targets) == 1
                            and isinstance(a.targets[0], ast.Name) and a.targets[0].id == v.id]
                    if len(defs) == 1:
                        v = defs[0]
                direct_comp = isinstance(v, (ast.DictComp, ast.Dict))
                node = g.containing_node(st)
                nonempty_guard = any(lab is True and ("len(" in unparse(b.cond) and (">" in unparse(b.cond))) for b, lab in g.lexical_guards(node))
                if direct_comp and not nonempty_guard and not any(isinstance(b.stmt, ast.If) and "isinstance" in unparse(b.cond) for b, _l in g.lexical_guards(node)):
                    res.fail_at("C08-S4", m, f"narrowing-can-empty-select-list:{m.name}",
                                f"{m.name} stores the narrowed select list into `{sub}.terms` even when nothing is requested of it: the emitter prints an empty list as `*`, so an "
                                f"un-grouped project below it turns into `SELECT * FROM <source>` — d.project({{'y': 'y.max()'}}).select_columns(['y']).project({{'n': '_size()'}}) "
                                f"returns 3 on SQLite (one row per source row) and 1 on Pandas / Polars", st)
                elif direct_comp:
                    res.ok("C08-S4", f"{m.name}: the narrowed select list replaces the sub-step's only when it is not empty")
            if handled:
                res.ok("C08-S4", f"{m.name}: a sub-step without a select list of its own is wrapped in a selecting step")
            else:
                res.fail_at("C08-S4", m, f"narrowing-lost-on-raw-sub-step:{m.name}",
                            f"{m.name} narrows `{sub}.terms` in place and returns the sub-step; a raw sub-step (SQLNode, convert_records: terms is None, emitter ignores terms and "
                            f"columns) keeps all its columns — SQLNode(...).select_columns(['b','id']) returns id,a,b on SQLite (Pandas: b,id), and drop_columns fails on it", stores[0])
    if n < 2:
        raise AnalysisError(f"C08-S4: only {n} in-place narrowing generators found (select_columns, drop_columns expected)")


def _s6_map_columns_order(program, res):
    """map_columns deletes *input* columns and renames others; the new names may re-use a deleted name ({'x': 'y', 'y': None}: "replace y by x").
    The executors must take the deletions out before they rename — afterwards the deleted name also names the renamed column."""
    for (mod, cls, frame_cols) in (("pandas_base", "PandasModelBase", "columns"), ("polars_model", "PolarsModel", "columns")):
        m = program.method(mod, cls, "_map_columns_step", inherited=False)
        res.analysed(m)
        g = cfgmod.build(m.node)
        op_param = [p for p in m.params() if p != "self"][0]
        renames = [n for n in g.stmt_nodes(("stmt", "return")) if any(isinstance(c, ast.Call) and isinstance(c.func, ast.Attribute) and c.func.attr == "rename"
                                                                     and f"{op_param}.column_remapping" in unparse(c) for c in ast.walk(n.stmt))]
        if not renames:
            if f"{op_param}.column_remapping" in unparse(m.node):
                raise AnalysisError(f"{cls}._map_columns_step: {op_param}.column_remapping is used, but not in a recognised rename call")
            res.fail_at("C08-S6", m, "remapping-not-applied", f"{cls}._map_columns_step never reads {op_param}.column_remapping: renamed columns keep their old names, "
                        f"so the result does not have the declared columns")
            continue
        # where the deletions are taken out: a statement that mentions op.column_deletions and builds / selects a frame
        dels = [n for n in g.stmt_nodes(("stmt", "return")) if f"{op_param}.column_deletions" in unparse(n.stmt) and not isinstance(n.stmt, ast.If)
                and any(isinstance(c, (ast.ListComp, ast.Call)) for c in ast.walk(n.stmt))]
        after = [n for n in dels if any(n.id in g.reachable_from(r.id) for r in renames)]
        before = [n for n in dels if n not in after]
        # selecting the declared result columns after the rename is fine when nothing can clash: that needs the deletions out first
        if before:
            res.ok("C08-S6", f"{cls}._map_columns_step removes the deleted input columns before renaming")
        else:
            how = "filters the renamed frame by the deleted names" if after else "renames first and relies on a later selection of the result columns"
            res.fail_at("C08-S6", m, "rename-before-delete",
                        f"{cls}._map_columns_step {how}: with map_columns({{'x': 'y', 'y': None}}) the rename makes a second column called y "
                        f"(Pandas: the deletion then removes both, the declared column y is missing; Polars: rename raises DuplicateError), SQL returns g, y as declared",
                        renames[0].stmt)


def _row_columns_is_keys_then_content(program) -> bool:
    """RecordSpecification.__init__: row_columns = record_keys + <content keys> and content_keys = <the same list>"""
    init = program.method("cdata", "RecordSpecification", "__init__", inherited=False)
    rc = [st.value for st in ast.walk(init.node) if isinstance(st, ast.Assign) and unparse(st.targets[0]) == "self.row_columns"]
    ck = [st.value for st in ast.walk(init.node) if isinstance(st, ast.Assign) and unparse(st.targets[0]) == "self.content_keys"]
    return len(rc) == 1 and len(ck) == 1 and isinstance(rc[0], ast.BinOp) and isinstance(rc[0].op, ast.Add) and unparse(rc[0].left) == "self.record_keys" \
        and unparse(rc[0].right) == unparse(ck[0])


def _s7_record_transform_columns(program, res):
    """blocks -> row records: the declared result columns are blocks_in.row_columns (all value cells of the control table); the data-frame
    implementations build one column group per key level *observed in the data*, so each return has to lay the result out by row_columns"""
    for (mod, cls, mname, field) in (("pandas_base", "PandasModelBase", "blocks_to_rowrecs", "row_columns"), ("polars_model", "PolarsModel", "blocks_to_rowrecs", "row_columns"),
                                     ("pandas_base", "PandasModelBase", "rowrecs_to_blocks", "block_columns"), ("polars_model", "PolarsModel", "rowrecs_to_blocks", "block_columns")):
        m = program.method(mod, cls, mname, inherited=False)
        res.analysed(m)
        spec = [p for p in m.params() if p not in ("self", "data")][0]
        g = cfgmod.build(m.node)
        d = depsmod.Deps(g, m.params())
        n = 0
        for r in g.returns():
            if r.stmt.value is None:
                continue
            n += 1
            v = r.stmt.value
            direct = f"{spec}.{field}" in unparse(v)
            if not direct and field == "row_columns" and _row_columns_is_keys_then_content(program):
                tv = unparse(v)
                i_k, i_c = tv.find(f"{spec}.record_keys"), tv.find(f"{spec}.content_keys")
                direct = 0 <= i_k < i_c  # record keys, then content keys: row_columns spelled out
            laid = False
            if isinstance(v, ast.Name):
                # last assignment(s) to the returned name select / reindex by row_columns
                for st in ast.walk(m.node):
                    if isinstance(st, ast.Assign) and len(st.targets) == 1 and unparse(st.targets[0]) == v.id and f"{spec}.{field}" in unparse(st.value) \
                            and g.has_node(st) and g.dominates(g.node_of(st).id, r.id) \
                            and not any(isinstance(o, ast.Assign) and unparse(o.targets[0]) == v.id and o is not st and g.has_node(o)
                                        and g.node_of(o).id in g.reachable_from(g.node_of(st).id) and r.id in g.reachable_from(g.node_of(o).id)
                                        and f"{spec}.{field}" not in unparse(o.value) and v.id not in {x.id for x in ast.walk(o.value) if isinstance(x, ast.Name)}
                                        for o in ast.walk(m.node)):
                        laid = True
            dup_risk = None
            if cls == "PandasModelBase" and mname == "blocks_to_rowrecs":
                # pandas: reindex raises on an axis with repeated labels; the pasted blocks repeat a label when a non-strict control table names a cell
                # twice or the data holds unknown key levels (label NaN for each value column)
                for c_ in ast.walk(m.node):
                    if isinstance(c_, ast.Call) and isinstance(c_.func, ast.Attribute) and c_.func.attr == "reindex" and any(kw.arg == "columns" for kw in c_.keywords) \
                            and "duplicated" not in unparse(c_.func.value) and "drop_duplicates" not in unparse(c_.func.value):
                        dup_risk = c_
            if dup_risk is not None:
                res.fail_at("C08-S7", m, "reindex-on-repeated-labels",
                            f"`{unparse(dup_risk)[:80]}`: the pasted blocks can repeat a column label (strict=False control table naming a cell twice; two value columns of a key "
                            f"level the control table does not list, both labelled NaN) and pandas' reindex then raises 'cannot reindex on an axis with duplicate labels' — the "
                            f"conversion ran before the layout step was added and SQL still converts the table", dup_risk)
            elif direct or laid:
                res.ok("C08-S7", f"{cls}.{mname}: a returned frame is laid out by {spec}.{field}")
            else:
                if mname == "blocks_to_rowrecs":
                    res.fail_at("C08-S7", m, "row-record-columns-from-observed-keys",
                                f"{cls}.blocks_to_rowrecs returns `{unparse(v)}`, whose columns are one group per key level present in the data, in the order the levels appear: a "
                                f"control-table level that no row carries is missing from the result (declared id,a,b → id,a), a level the control table does not know adds a column "
                                f"named nan/null, and the column order follows the data (declared id,p,q,r,s → id,q,s,p,r); SQL returns the declared columns with NULLs", r.stmt)
                else:
                    res.fail_at("C08-S7", m, "block-record-columns-keys-first",
                                f"{cls}.rowrecs_to_blocks returns `{unparse(v)}`: record keys, control keys, then the value columns — the declared order is the control table's "
                                f"own column order (control table v1,key,v2: declared id,v1,key,v2, returned id,key,v1,v2)", r.stmt)
        if n < 1:
            raise AnalysisError(f"{cls}.{mname}: no return of a frame found")



def _s7b_sql_record_columns(program, res):
    """the SQL generators of the record conversions list their select terms in the declared order: blocks -> rows walks the control table the way
    RecordSpecification builds content_keys (column by column); rows -> blocks lists the record keys and then the control table's columns as they stand"""
    spec = program.method("cdata", "RecordSpecification", "__init__", inherited=False)

    def nesting(fn_node, sink_test):
        """for the innermost statement satisfying sink_test: 'rows' / 'cols' per enclosing for loop, outermost first"""
        out = None

        def walk(stmts, stack):
            nonlocal out
            for st in stmts:
                if isinstance(st, ast.For):
                    it = unparse(st.iter)
                    kind = "rows" if ("range(" in it and ("shape[0]" in it or "len(" in it)) else ("cols" if ("columns" in it or "_cols" in it) else "?")
                    walk(st.body, stack + [kind])
                    walk(st.orelse, stack)
                elif isinstance(st, (ast.If, ast.With, ast.Try)):
                    for fld in ("body", "orelse", "finalbody"):
                        walk(getattr(st, fld, []) or [], stack)
                elif sink_test(st) and len(stack) >= 2 and out is None:
                    out = [k for k in stack if k != "?"]
        walk(fn_node.body, [])
        return out

    decl = nesting(spec.node, lambda st: isinstance(st, ast.Expr) and isinstance(st.value, ast.Call) and unparse(st.value.func).endswith(".append") and "cvs" in unparse(st.value.func))
    if decl is None:
        raise AnalysisError("RecordSpecification.__init__: the nested walk of the control table that builds content_keys was not found")
    m = program.method("sql_model", "SQLModel", "blocks_to_row_recs_query_str_list_pair", inherited=False)
    res.analysed(m, spec)
    got = nesting(m.node, lambda st: isinstance(st, ast.Expr) and isinstance(st.value, ast.Call) and unparse(st.value.func) == "col_stmts.append")
    if got is None:
        raise AnalysisError("blocks_to_row_recs_query_str_list_pair: the nested walk of the control table was not found")
    if got == decl:
        res.ok("C08-S7", f"SQL blocks -> rows walks the control table {' then '.join(decl)}, as RecordSpecification.content_keys does")
    else:
        res.fail_at("C08-S7", m, "sql-row-record-column-order",
                    f"the SQL generator walks the control table {' then '.join(got)}; the declared row-record columns (content_keys) walk it {' then '.join(decl)}: control "
                    f"(part; m1: p_m1,q_m1; m2: p_m2,q_m2) declares id,p_m1,q_m1,p_m2,q_m2 and SQLite returns id,p_m1,p_m2,q_m1,q_m2 (a raw step ignores the columns asked of it)")
    m2 = program.method("sql_model", "SQLModel", "row_recs_to_blocks_query_str_list_pair", inherited=False)
    res.analysed(m2)
    loops = []
    for st in m2.node.body:
        if isinstance(st, ast.For) and any(isinstance(c, ast.Call) and unparse(c.func) == "col_stmts.append" for c in ast.walk(st)):
            loops.append(unparse(st.iter))
    if len(loops) < 2:
        raise AnalysisError("row_recs_to_blocks_query_str_list_pair: the loops that build the select list were not found")
    keys_apart = [l for l in loops if l.endswith("control_table_keys")]
    if loops[0].endswith("record_keys") and not keys_apart and any(l.endswith(".columns") for l in loops[1:]):
        res.ok("C08-S7", "SQL rows -> blocks lists the record keys and then the control table's columns in their own order")
    else:
        res.fail_at("C08-S7", m2, "sql-block-record-column-order",
                    f"the select list is built by loops over {loops}: control keys are listed before the value columns whatever the control table's column order — control "
                    f"table (v1,key,v2) declares id,v1,key,v2 and SQLite returns id,key,v1,v2")


def _s4c_union_raw_operands(program, res):
    """UNION ALL pairs its operands' columns by position.  An operand with no select list of its own (user SQL, record conversion: terms is None;
    its emitter ignores the columns it is bound to) has to be wrapped in a selecting step before it becomes an operand"""
    m = program.method("sql_model", "SQLModel", "concat_rows_to_near_sql", inherited=False)
    res.analysed(m)
    operands = [st.targets[0].id for st in ast.walk(m.node) if isinstance(st, ast.Assign) and len(st.targets) == 1 and isinstance(st.targets[0], ast.Name)
                and isinstance(st.value, ast.Call) and isinstance(st.value.func, ast.Attribute) and st.value.func.attr == "to_near_sql_implementation_"]
    if len(operands) < 2:
        raise AnalysisError("concat_rows_to_near_sql: the two operand steps were not found")
    for o in operands:
        wrapped = False
        for t in ast.walk(m.node):
            if isinstance(t, ast.If) and isinstance(t.test, ast.Compare) and unparse(t.test.left) == f"{o}.terms" and isinstance(t.test.comparators[0], ast.Constant) \
                    and t.test.comparators[0].value is None and isinstance(t.test.ops[0], ast.Is):
                if any(isinstance(a, ast.Assign) and unparse(a.targets[0]) == o and isinstance(a.value, ast.Call) and "NearSQL" in (dotted_name(a.value.func) or "")
                       and any(kw.arg == "terms" for kw in a.value.keywords) for a in ast.walk(t)):
                    wrapped = True
        if wrapped:
            res.ok("C08-S4", f"concat_rows: operand `{o}` without a select list is wrapped in a step that selects the union's columns by name")
        else:
            res.fail_at("C08-S4", m, f"union-operand-raw:{o}",
                        f"concat_rows_to_near_sql binds `{o}` to the union's columns, but a raw operand (convert_records, SQLNode) ignores that binding and emits its own "
                        f"columns in its own order: b(val,key,id).concat_rows(a.convert_records(...)) puts the operand's id values into val on SQLite (Pandas / Polars pair by name)")


def _s5_declared_order(program, res):
    """the result's column order is the pipeline's declared order: the last thing each executor does is to lay the columns out by
    op.column_names (SQL: the top-level select list; Pandas: a final selection; Polars: every step ends in select(columns_produced), S2)"""
    # SQL
    ts = program.method("sql_model", "SQLModel", "to_sql", inherited=False)
    res.analysed(ts)
    ops_param = [p for p in ts.params() if p != "self"][0]
    tops = [c for c in ast.walk(ts.node) if isinstance(c, ast.Call) and isinstance(c.func, ast.Attribute) and c.func.attr == "to_sql_str_list"
            and any(kw.arg == "force_sql" and isinstance(kw.value, ast.Constant) and kw.value.value is True for kw in c.keywords)]
    if not tops:
        raise AnalysisError("SQLModel.to_sql: top-level to_sql_str_list(force_sql=True) calls not found")
    g = cfgmod.build(ts.node)
    d = depsmod.Deps(g, ts.params())
    for c in tops:
        kw = [k for k in c.keywords if k.arg == "columns"]
        ok = False
        if kw:
            roots = d.roots_at(g.containing_node(c), kw[0].value)
            ok = any(r == f"{ops_param}.column_names" or r.startswith(f"{ops_param}.column_names") for r in roots)
        if ok:
            res.ok("C08-S5", f"SQL: top-level `{unparse(c.func)}` lists the columns of {ops_param}.column_names, in that order")
        else:
            res.fail_at("C08-S5", ts, f"top-level-select-order-not-declared:{unparse(c.func.value)}",
                        f"the outermost SELECT (`{unparse(c.func)}`) is emitted without `columns=` from {ops_param}.column_names, so it lists the columns in the order the "
                        f"last step happened to build its terms: project puts aggregates before group keys (declared z,y,s comes back s,z,y), rename_columns moves the renamed "
                        f"column to the front — another order than the same pipeline has on Pandas / Polars", c)
    # Pandas
    ev = program.method("pandas_base", "PandasModelBase", "eval", inherited=False)
    res.analysed(ev)
    op_param = [p for p in ev.params() if p != "self"][0]
    g2 = cfgmod.build(ev.node)
    d2 = depsmod.Deps(g2, ev.params())
    laid_out = False
    for st in ast.walk(ev.node):
        if isinstance(st, (ast.Assign, ast.Return)) and isinstance(st.value, (ast.Subscript, ast.Call)):
            v = st.value
            sel = v.slice if isinstance(v, ast.Subscript) else (v.args[0] if (isinstance(v.func, ast.Attribute) and v.func.attr in ("reindex", "select", "loc") and v.args) else
                                                                next((k.value for k in getattr(v, "keywords", []) if k.arg == "columns"), None))
            if sel is None:
                continue
            roots = d2.roots_at(g2.containing_node(st), sel)
            if any(r.startswith(f"{op_param}.column_names") for r in roots):
                # and this value reaches a return
                if isinstance(st, ast.Return):
                    laid_out = True
                    continue
                tgt = unparse(st.targets[0])
                if any(isinstance(r.stmt.value, ast.Name) and r.stmt.value.id == tgt for r in g2.returns()):
                    laid_out = True
    if laid_out:
        res.ok("C08-S5", f"Pandas: eval lays the result out by {op_param}.column_names before returning it")
    else:
        res.fail_at("C08-S5", ev, "pandas-result-order-not-declared",
                    "PandasModelBase.eval returns the last step's frame as it is: steps that special-case empty inputs (project, concat_rows, extend) or overwrite several columns "
                    "return another column order than the declared one (project on an empty input: declared z,y,s, returned s,y,z)")


# a refusal of the empty request that cannot be reached, with the reason (one named method each)
EMPTY_REQUEST_REFUSAL_UNREACHABLE = {
    "extend_to_near_sql": "reached only with a non-empty `subops`, whose keys were taken from `using`",
}


def _s8_empty_request(program, res, rule="C08-S8"):
    """a consumer that reads no column of its source (project({'n': '_size()'}), a constant extend that is then the only column selected) asks the
    source step for the empty column set; every executor evaluates that, so a step's translation may not refuse it"""
    sm = program.cls("sql_model", "SQLModel")
    n = 0
    for m in sm.methods.values():
        params = {a.arg for a in m.node.args.args + m.node.args.kwonlyargs}
        if "using" not in params:
            continue
        n += 1
        res.analysed(m)
        g = cfgmod.build(m.node)
        bad = None
        for node in g.stmt_nodes(("raise",)):
            for b, lab in g.lexical_guards(node):
                c = b.cond
                txt = unparse(c).replace(" ", "")
                if lab is True and isinstance(c, ast.Compare) and txt.startswith("len(using)") and _empty_test(c):
                    bad = node.stmt
        if bad is None:
            res.ok(rule, f"{m.name}: the empty request is not refused")
        elif m.name in EMPTY_REQUEST_REFUSAL_UNREACHABLE:
            res.ok(rule, f"{m.name}: refusal of the empty request is unreachable — {EMPTY_REQUEST_REFUSAL_UNREACHABLE[m.name]}")
        else:
            res.fail_at(rule, m, f"empty-request-refused:{m.name}",
                        f"{m.name} raises when no column is requested of it: t.natural_join(t, on=['g']).project({{'n': '_size()'}}) and "
                        f"t.concat_rows(t).project({{'n': '_size()'}}) run on Pandas / Polars ([[5]], [[6]]) and to_sql raises ValueError", bad)
    res.expect_count(rule, "SQLModel methods taking `using`", n, 10)


def _s9_join_terms_qualified(program, res, rule="C08-S9"):
    """a join's FROM clause may hold a physical table as it stands (a table step whose description is requested whole is not wrapped in a select), and
    a physical table may have columns its description does not list: every select term of the join therefore has to name the side it reads"""
    m = program.method("sql_model", "SQLModel", "natural_join_to_near_sql", inherited=False)
    res.analysed(m)
    stores = [st for st in ast.walk(m.node) if isinstance(st, ast.Assign) and len(st.targets) == 1 and isinstance(st.targets[0], ast.Subscript)
              and unparse(st.targets[0].value) == "terms"]
    if len(stores) < 2:
        raise AnalysisError("natural_join_to_near_sql: the stores of the pass-through terms were not found")
    side_names = {kw.value.id for c_ in ast.walk(m.node) if isinstance(c_, ast.Call) and isinstance(c_.func, ast.Attribute) and c_.func.attr == "_coalesce_terms"
                  for kw in c_.keywords if kw.arg in ("sub_view_name_first", "sub_view_name_second") and isinstance(kw.value, ast.Name)}
    if len(side_names) < 2:
        raise AnalysisError("natural_join_to_near_sql: the aliases of the two sides (arguments of _coalesce_terms) were not found")
    for st in stores:
        v = st.value
        if isinstance(v, ast.Constant) and v.value is None:
            res.fail_at(rule, m, "join-term-unqualified",
                        f"`{unparse(st)}` leaves the column to be emitted by its bare name: L(k,v) left-joined with a table R described as (k,w) that physically also has a "
                        f"column v fails on SQLite with 'ambiguous column name: v' (Pandas and Polars evaluate it)", st)
        elif any(isinstance(x, ast.Name) and x.id in side_names for x in ast.walk(v)):
            res.ok(rule, f"`{unparse(st)[:70]}` names the side")
        else:
            res.abstain(rule, f"join term `{unparse(st)[:60]}`", "neither a bare pass-through nor a side-qualified name")


def _empty_test(c: ast.Compare) -> bool:
    """len(x) < 1, len(x) <= 0, len(x) == 0"""
    if len(c.ops) != 1 or not isinstance(c.comparators[0], ast.Constant):
        return False
    k = c.comparators[0].value
    op = c.ops[0]
    return (isinstance(op, ast.Lt) and k == 1) or (isinstance(op, ast.LtE) and k == 0) or (isinstance(op, ast.Eq) and k == 0)


def _s10_declared_from_attached_source(program, res, rule="C08-S10"):
    """A node's declared columns are computed from a source's columns (source.column_names minus deletions, plus new names …) and the executors
    realise most steps *relative* to the frame the attached source produces (Pandas drop_columns keeps "everything that comes in, except …").  The
    two agree only if the node is attached to the very source its declaration was computed from: a constructor that skips over that source
    (`source = source.sources[0]`) after reading its columns declares one thing and computes another."""
    mod = program.module("view_representations")
    n = 0
    for cls in mod.classes.values():
        ini = cls.methods.get("__init__")
        if ini is None:
            continue
        base = [c for c in ast.walk(ini.node) if isinstance(c, ast.Call) and (dotted_name(c.func) or "").endswith("ViewRepresentation.__init__")]
        if not base:
            continue
        call = base[0]
        kws = {k.arg: k.value for k in call.keywords}
        if "column_names" not in kws or "sources" not in kws:
            continue
        n += 1
        res.analysed(ini)
        src_names = {e.id for e in ast.walk(kws["sources"]) if isinstance(e, ast.Name)} & set(ini.params())
        assigns = [st for st in ast.walk(ini.node) if isinstance(st, (ast.Assign, ast.AugAssign, ast.AnnAssign))]
        def targets(st):
            ts = st.targets if isinstance(st, ast.Assign) else [st.target]
            return {n_.id for t in ts for n_ in ast.walk(t) if isinstance(n_, ast.Name)}
        # statements whose value flows into the declared columns (closure over local names, flow-insensitive)
        want = {n_.id for n_ in ast.walk(kws["column_names"]) if isinstance(n_, ast.Name)}
        contributing = []
        changed = True
        while changed:
            changed = False
            for st in assigns:
                if st not in contributing and targets(st) & want and not (targets(st) & src_names):
                    contributing.append(st)
                    new = {n_.id for n_ in ast.walk(st.value) if isinstance(n_, ast.Name)} if getattr(st, "value", None) is not None else set()
                    if not new <= want:
                        want |= new
                        changed = True
        readers = [(st.lineno, st) for st in contributing] + [(call.lineno, kws["column_names"])]
        bad = None
        for st in assigns:
            rb = targets(st) & src_names
            if not rb or not isinstance(st, ast.Assign):
                continue
            for ln, reader in readers:
                body = reader.value if isinstance(reader, (ast.Assign, ast.AugAssign, ast.AnnAssign)) else reader
                if ln < st.lineno and any(isinstance(x, ast.Name) and x.id in rb for x in ast.walk(body)):
                    bad = (st, reader, sorted(rb)[0])
        if bad:
            st, reader, nm = bad
            res.fail_at(rule, ini, f"declared-columns-from-skipped-source:{cls.name}",
                        f"{cls.name} computes its declared columns from `{nm}` (`{unparse(reader)[:60]}`) and then attaches itself to another node (`{unparse(st)}`): "
                        f"the executors that realise the step relative to the incoming frame (Pandas keeps every incoming column but the deleted ones) return the columns "
                        f"of the node that was skipped over", st)
        else:
            res.ok(rule, f"{cls.name}: the declared columns are computed from the source the node is attached to")
    res.expect_count(rule, "node constructors", n, 8)


def run(program, res, tier):
    res.rule("C08-S1", "Pandas: every scratch column written into a returned frame is removed on every path")
    res.rule("C08-S2", "Polars: temporary columns are selected away; steps end in select(op.columns_produced())")
    res.rule("C08-S3", "join twins cleaned up unless an equal-named key pair")
    res.rule("C08-S4", "SQL select terms derive from the requested columns; selection order kept")
    _s1(program, res)
    _s2(program, res)
    c16.twin_cleanup_rule(program, res, rule="C08-S3")
    _s4(program, res)
    _s4b_inplace_narrowing(program, res)
    _s4c_union_raw_operands(program, res)
    res.rule("C08-S5", "each executor lays the final result out in the declared column order")
    _s5_declared_order(program, res)
    res.rule("C08-S6", "map_columns: deletions are applied to the input columns, before renaming")
    _s6_map_columns_order(program, res)
    res.rule("C08-S7", "record conversions return the declared columns in the declared order, whatever key levels the data holds (Pandas, Polars, SQL)")
    _s7_record_transform_columns(program, res)
    _s7b_sql_record_columns(program, res)
    res.rule("C08-S8", "SQL: a step asked for no column (only its rows are needed) is translated, not refused")
    _s8_empty_request(program, res)
    res.rule("C08-S9", "SQL: the select terms of a join name the side they read")
    _s9_join_terms_qualified(program, res)
    res.rule("C08-S10", "a node is attached to the source its declared columns were computed from")
    _s10_declared_from_attached_source(program, res)
