"""C08 results have exactly the columns the pipeline declares — structural clauses."""
from __future__ import annotations

import ast
from typing import List, Set

from .. import cfg as cfgmod
from .. import deps as depsmod
from ..index import AnalysisError, dotted_name, unparse
from ..nodes import NodeModel
from . import c16
from .. import colsets

EXPLANATION = (
    "S1 temp pairing, Pandas: every scratch column an executor step writes into a frame that can reach its return "
    "(a store whose column name is, or is bound to, an internal constant such as data_algebra_*_temp_col_n, "
    "_data_table_temp_col, data_algebra_temp_merge_col, _data_algebra_orig_index, _data_algebra_temp_g) is removed "
    "on every path to the return: by a `del`/drop over the same name source that post-dominates the store, or by "
    "a reconstruction of the frame from an explicit column list / dict that does not contain it. S2 Polars: a step "
    "that adds temporary columns (with_columns(temp…), join suffixes/aliases) is followed, under the same guard, "
    "by select(op.columns_produced()); every other step ends in select(op.columns_produced()) or a pure "
    "projection. S3 join twins: the suffixed twin of a shared column is cleaned up unless it is an equal-named "
    "key pair. S4 SQL: the select terms of every generated step derive from the requested column set `using`, "
    "the top-level call requests everything (using=None), a step with terms never emits `*`, and "
    "select_columns re-orders the terms by the declared selection. Not decided: emptiness corner cases, column "
    "order where the operators do not define it."
)

def _s1(program, res):
    pb = program.cls("pandas_base", "PandasModelBase")
    n_sites = 0
    n_funcs = 0
    steps = [m for m in pb.methods.values() if m.name.endswith("_step") or m.name in ("add_data_frame_columns_to_data_frame_",)]
    for name in ("_extend_step", "_project_step", "_natural_join_step"):
        if name not in pb.methods:
            raise AnalysisError(f"anchor vanished: PandasModelBase.{name}")
    for m in steps:
        res.analysed(m)
        n_funcs += 1
        g = cfgmod.build(m.node)
        cs = colsets.ColSets(g, m.node)
        rets = cs.returned()
        leaked = {}
        for (r, carried) in rets:
            for sym in carried:
                leaked.setdefault(sym, r)
        by_sym = {}
        for (n, frame, sym) in cs.stores:
            by_sym.setdefault((frame, sym), n)
        for (frame, sym), n in sorted(by_sym.items(), key=lambda kv: kv[1].line):
            n_sites += 1
            # a store under a generated name later registered in a dict is reported under the family symbol
            eff = [s for s in leaked if s == sym or (sym[0] == "var" and s[0] == "const" and s[1] == sym[2])
                   or (sym[0] == "var" and s[0] == "family")]
            if sym in leaked or (sym[0] == "var" and any(s[0] == "const" and sym[2] == s[1] for s in leaked)):
                r = leaked.get(sym) or next(leaked[s] for s in leaked if s[0] == "const" and s[1] == sym[2])
                res.fail_at("C08-S1", m, f"scratch-column-leaks:{frame}[{colsets.show(sym)}]",
                            f"{m.qualname} stores the internal column {colsets.show(sym)} into `{frame}` (line {n.line}) and the frame returned at line "
                            f"{r.line} (`{unparse(r.stmt)[:60]}`) may still carry it: no deletion, drop or re-selection of declared columns removes "
                            f"it on every path, so the result has a column the pipeline does not declare", n.stmt)
            else:
                res.ok("C08-S1", f"{m.qualname}: internal column {colsets.show(sym)} stored into `{frame}` is gone from every returned frame")
        # symbols that reach a return without a recorded store in this function (renamed / merged in)
        for sym, r in leaked.items():
            if not any(sym == s2 or (s2[0] == "var" and sym[0] == "const" and s2[2] == sym[1]) for (_f, s2) in by_sym):
                res.fail_at("C08-S1", m, f"scratch-column-leaks:{colsets.show(sym)}",
                            f"{m.qualname}: the frame returned at line {r.line} may carry the internal column {colsets.show(sym)}", r.stmt)
    res.expect_count("C08-S1", "scratch-column stores in Pandas steps", n_sites, 7)
    res.expect_count("C08-S1", "Pandas step methods analysed", n_funcs, 12)


def _s2(program, res):
    pm = program.cls("polars_model", "PolarsModel")
    model = NodeModel(program)
    n = 0
    for k in model.kinds.values():
        m = k.evaluators.get("polars")
        if m is None:
            continue
        res.analysed(m)
        n += 1
        g = cfgmod.build(m.node)
        sel = [x for x in g.stmt_nodes(("stmt", "return")) if "select(op.columns_produced())" in unparse(x.stmt)]
        # the list of temporary column expressions: the variable handed to add_in_temp_columns(...) / appended with internal aliases
        tvars = {c.args[0].id for c in ast.walk(m.node) if isinstance(c, ast.Call) and isinstance(c.func, ast.Attribute)
                 and c.func.attr == "add_in_temp_columns" and c.args and isinstance(c.args[0], ast.Name)}
        temps = [x for x in g.stmt_nodes(("stmt",)) if any(
            isinstance(c, ast.Call) and isinstance(c.func, ast.Attribute) and c.func.attr == "with_columns" and c.args
            and isinstance(c.args[0], ast.Name) and c.args[0].id in tvars for c in ast.walk(x.stmt))]
        joins = [x for x in g.stmt_nodes(("stmt",)) if ".join(" in unparse(x.stmt) and "suffix=" in unparse(x.stmt)]
        if temps:
            for t in temps:
                tg = [unparse(b.cond) for b, _l in g.lexical_guards(t)]
                ok = any(s.id in g.reachable_from(t.id) and s.id != t.id and [unparse(b.cond) for b, _l in g.lexical_guards(s)] in (tg, [])
                         for s in sel)
                if ok:
                    res.ok("C08-S2", f"{m.qualname}: temporary columns are followed by select(op.columns_produced()) under the same guard")
                else:
                    res.fail_at("C08-S2", m, "temp-columns-not-selected-away",
                                f"{m.qualname} adds temporary columns under `{tg}` but no select(op.columns_produced()) follows under that guard", t.stmt)
        elif joins:
            ends = [s for s in sel if not g.lexical_guards(s)]
            if ends and all(ends[0].id in g.reachable_from(j.id) for j in joins):
                res.ok("C08-S2", f"{m.qualname}: the join (suffixes, key aliases) is followed by an unconditional select(op.columns_produced())")
            else:
                res.fail_at("C08-S2", m, "join-columns-not-selected-away", f"{m.qualname}: no unconditional select(op.columns_produced()) after the join")
        elif k.name in ("ConvertRecordsNode",):
            res.ok("C08-S2", f"{m.qualname}: delegated to the record map", nontrivial=False)
        elif k.name in ("ConcatRowsNode",):
            from .. import pat
            lists = pat.find("_CC = [_C for _C in __COLS if _C != op.id_column]", m.node)
            lists = [e for (_n, e) in lists if e["__COLS"] in ("op.columns_produced()", "op.column_names")]
            sel = [e for (_n, e) in pat.find("[_I.select(_CC) for _I in _INPUTS]", m.node)]
            if lists and any(e["_CC"] == lists[0]["_CC"] for e in sel):
                res.ok("C08-S2", f"{m.qualname}: both inputs are projected to the common columns, then the id column is added")
            else:
                res.fail_at("C08-S2", m, "concat-projection", f"{m.qualname} no longer projects both inputs to the declared columns")
        elif k.name in ("OrderRowsNode",):
            res.ok("C08-S2", f"{m.qualname}: sort/head keep the column set", nontrivial=False)
        else:
            if sel:
                res.ok("C08-S2", f"{m.qualname}: ends in select(op.columns_produced())")
            else:
                res.fail_at("C08-S2", m, "no-final-select", f"{m.qualname} does not project to op.columns_produced()")
    res.expect_count("C08-S2", "Polars steps", n, 12)


def _s4(program, res):
    sm = program.cls("sql_model", "SQLModel")
    ts = sm.methods.get("to_sql")
    calls = [c for c in ast.walk(ts.node) if isinstance(c, ast.Call) and isinstance(c.func, ast.Attribute) and c.func.attr == "to_near_sql_implementation_"]
    kws = {kw.arg: unparse(kw.value) for c in calls for kw in c.keywords}
    if kws.get("using") == "None":
        res.ok("C08-S4", "to_sql requests every declared column (using=None)")
    else:
        res.fail_at("C08-S4", ts, "top-level-using", f"to_sql starts generation with using={kws.get('using')}")
    n = 0
    for m in sm.methods.values():
        if not m.name.endswith("_to_near_sql"):
            continue
        g = cfgmod.build(m.node)
        d = depsmod.Deps(g, m.params())
        for node in g.stmt_nodes(("stmt", "return")):
            for c in ast.walk(node.stmt):
                if isinstance(c, ast.Call) and (dotted_name(c.func) or "").startswith("data_algebra.near_sql.NearSQL") \
                        and (dotted_name(c.func) or "").endswith("Step"):
                    kw = {k.arg: k.value for k in c.keywords}
                    if "terms" not in kw:
                        continue
                    n += 1
                    res.analysed(m)
                    roots = d.roots_at(node, kw["terms"])
                    if "using" in roots or (m.name == "order_to_near_sql"):
                        res.ok("C08-S4", f"{m.qualname}: select terms derive from the requested columns")
                    else:
                        res.fail_at("C08-S4", m, "terms-ignore-using", f"the select terms of {m.qualname} do not derive from `using`", c)
    res.expect_count("C08-S4", "generated steps with terms", n, 9)
    sc = sm.methods["select_columns_to_near_sql"]
    comps = [c for c in ast.walk(sc.node) if isinstance(c, ast.DictComp) and "column_selection" in unparse(c.generators[0].iter)]
    if comps:
        res.ok("C08-S4", "select_columns re-orders the sub-step's terms by the declared selection")
    else:
        res.fail_at("C08-S4", sc, "selection-order", "select_columns_to_near_sql no longer orders the terms by column_selection")
    em = sm.methods["nearsqlunary_to_sql_str_list_"]
    t = unparse(em.node)
    if "terms_strs = [self.enc_term_(k, terms=terms) for k in columns]" in t:
        res.ok("C08-S4", "the emitter selects exactly the requested columns, in order")
    else:
        res.fail_at("C08-S4", em, "emitter-columns", "the unary emitter no longer lists exactly the requested columns")


def _s5_declared_order(program, res):
    """the result's column order is the pipeline's declared order: the last thing each executor does is to lay the columns out by
    op.column_names (SQL: the top-level select list; Pandas: a final selection; Polars: every step ends in select(columns_produced), S2)"""
    # SQL
    ts = program.method("sql_model", "SQLModel", "to_sql", inherited=False)
    res.analysed(ts)
    ops_param = [p for p in ts.params() if p != "self"][0]
    tops = [c for c in ast.walk(ts.node) if isinstance(c, ast.Call) and isinstance(c.func, ast.Attribute) and c.func.attr == "to_sql_str_list"
            and any(kw.arg == "force_sql" and isinstance(kw.value, ast.Constant) and kw.value.value is True for kw in c.keywords)]
    if not tops:
        raise AnalysisError("SQLModel.to_sql: top-level to_sql_str_list(force_sql=True) calls not found")
    g = cfgmod.build(ts.node)
    d = depsmod.Deps(g, ts.params())
    for c in tops:
        kw = [k for k in c.keywords if k.arg == "columns"]
        ok = False
        if kw:
            roots = d.roots_at(g.containing_node(c), kw[0].value)
            ok = any(r == f"{ops_param}.column_names" or r.startswith(f"{ops_param}.column_names") for r in roots)
        if ok:
            res.ok("C08-S5", f"SQL: top-level `{unparse(c.func)}` lists the columns of {ops_param}.column_names, in that order")
        else:
            res.fail_at("C08-S5", ts, f"top-level-select-order-not-declared:{unparse(c.func.value)}",
                        f"the outermost SELECT (`{unparse(c.func)}`) is emitted without `columns=` from {ops_param}.column_names, so it lists the columns in the order the "
                        f"last step happened to build its terms: project puts aggregates before group keys (declared z,y,s comes back s,z,y), rename_columns moves the renamed "
                        f"column to the front — another order than the same pipeline has on Pandas / Polars", c)
    # Pandas
    ev = program.method("pandas_base", "PandasModelBase", "eval", inherited=False)
    res.analysed(ev)
    op_param = [p for p in ev.params() if p != "self"][0]
    g2 = cfgmod.build(ev.node)
    d2 = depsmod.Deps(g2, ev.params())
    laid_out = False
    for st in ast.walk(ev.node):
        if isinstance(st, ast.Assign) and isinstance(st.value, (ast.Subscript, ast.Call)):
            v = st.value
            sel = v.slice if isinstance(v, ast.Subscript) else (v.args[0] if (isinstance(v.func, ast.Attribute) and v.func.attr in ("reindex", "select", "loc") and v.args) else
                                                                next((k.value for k in getattr(v, "keywords", []) if k.arg == "columns"), None))
            if sel is None:
                continue
            roots = d2.roots_at(g2.containing_node(st), sel)
            if any(r.startswith(f"{op_param}.column_names") for r in roots):
                # and this value reaches a return
                tgt = unparse(st.targets[0])
                if any(isinstance(r.stmt.value, ast.Name) and r.stmt.value.id == tgt for r in g2.returns()):
                    laid_out = True
    if laid_out:
        res.ok("C08-S5", f"Pandas: eval lays the result out by {op_param}.column_names before returning it")
    else:
        res.fail_at("C08-S5", ev, "pandas-result-order-not-declared",
                    "PandasModelBase.eval returns the last step's frame as it is: steps that special-case empty inputs (project, concat_rows, extend) or overwrite several columns "
                    "return another column order than the declared one (project on an empty input: declared z,y,s, returned s,y,z)")


def run(program, res, tier):
    res.rule("C08-S1", "Pandas: every scratch column written into a returned frame is removed on every path")
    res.rule("C08-S2", "Polars: temporary columns are selected away; steps end in select(op.columns_produced())")
    res.rule("C08-S3", "join twins cleaned up unless an equal-named key pair")
    res.rule("C08-S4", "SQL select terms derive from the requested columns; selection order kept")
    _s1(program, res)
    _s2(program, res)
    c16.twin_cleanup_rule(program, res, rule="C08-S3")
    _s4(program, res)
    res.rule("C08-S5", "each executor lays the final result out in the declared column order")
    _s5_declared_order(program, res)
