"""C22 schema-check decorators raise exactly on schema violations — structural clauses."""
from __future__ import annotations

import ast

from .. import cfg as cfgmod
from .. import deps as depsmod
from ..index import AnalysisError, dotted_name, unparse

EXPLANATION = (
    "S1 switch dominance: in SchemaRaises.check_args and check_return a test of SchemaCheckSwitch().is_on() "
    "dominates every raise and every _check_spec call, with the polarity 'checks run only when on'; what they "
    "raise is TypeError. S2 transparency: wrapped_fn returns exactly the variable bound (once) to "
    "type_check_fn(*args, **kwargs), calls check_args before and check_return (on that variable) after. "
    "S3 normalisation reaches the result: in every container branch of _prep_schema_specification the returned "
    "value depends (flow-sensitive def-use) on the recursive call's results — a value computed and overwritten "
    "before use is a dead store; the scalar branch returns type(v). S4 nulls carry no type: the per-cell "
    "_check_spec call is guarded by the null test. S5 missing arguments/columns produce a message that reaches "
    "the raise. Not decided: 'raises exactly when' over all value/spec combinations."
)


def _atom_truth(cond, label, is_atom):
    """truth value of the atom (an expression recognised by is_atom) implied by taking `label` of `cond`;
    understands not, `is/== True/False` and plain use; None if the atom does not decide the branch"""
    if not isinstance(label, bool):
        return None
    e, truth = cond, label
    while True:
        if isinstance(e, ast.UnaryOp) and isinstance(e.op, ast.Not):
            e, truth = e.operand, not truth
            continue
        if isinstance(e, ast.Compare) and len(e.ops) == 1 and isinstance(e.comparators[0], ast.Constant) \
                and isinstance(e.comparators[0].value, bool):
            c = e.comparators[0].value
            if isinstance(e.ops[0], (ast.Is, ast.Eq)):
                e, truth = e.left, (truth == c)
                continue
            if isinstance(e.ops[0], (ast.IsNot, ast.NotEq)):
                e, truth = e.left, (truth != c)
                continue
        break
    return truth if is_atom(e) else None


def _switch_guard(g, node):
    """is node guarded by `SchemaCheckSwitch().is_on()` being true?"""
    def is_on(e):
        return isinstance(e, ast.Call) and isinstance(e.func, ast.Attribute) and e.func.attr == "is_on"
    for (b, label) in g.guards(node.id):
        if _atom_truth(b.cond, label, is_on) is True:
            return True
    return False


def _s6_to_s9(program, res):
    sr = program.cls("data_schema", "SchemaRaises")
    sb = program.cls("data_schema", "SchemaBase")
    ca = sr.methods.get("check_args")
    call = sr.methods.get("__call__")
    cs = sr.methods.get("_check_spec")
    if ca is None or call is None or cs is None:
        raise AnalysisError("anchor vanished: SchemaRaises.check_args / __call__ / _check_spec")
    res.analysed(ca, call, cs)
    # ---- S6: a specification that may be absent (constructor default None, normaliser maps None to None) is not dereferenced unguarded
    init = sb.methods.get("__init__")
    optional_fields = set()
    defaults = {}
    a = init.node.args
    pos = a.args[-len(a.defaults):] if a.defaults else []
    for p_, d_ in list(zip(pos, a.defaults)) + list(zip(a.kwonlyargs, a.kw_defaults)):
        if isinstance(d_, ast.Constant) and d_.value is None:
            defaults[p_.arg] = True
    for st in ast.walk(init.node):
        if isinstance(st, ast.Assign) and isinstance(st.targets[0], ast.Attribute) and unparse(st.targets[0].value) == "self":
            names = {n.id for n in ast.walk(st.value) if isinstance(n, ast.Name)}
            guarded = any(isinstance(x, ast.IfExp) or isinstance(x, ast.BoolOp) for x in ast.walk(st.value))
            if names & set(defaults) and not guarded:
                optional_fields.add(st.targets[0].attr)
    g = cfgmod.build(ca.node)
    for f in sorted(optional_fields):
        derefs = [n for n in ast.walk(ca.node) if isinstance(n, (ast.Attribute, ast.Subscript)) and isinstance(n.value, ast.Attribute)
                  and unparse(n.value) == f"self.{f}"]
        if not derefs:
            continue
        unguarded = []
        for dn in derefs:
            node = g.containing_node(dn)
            gs = g.guards(node.id)
            if not any(f"self.{f}" in unparse(b.cond) and "None" in unparse(b.cond) for b, _l in gs):
                unguarded.append(dn)
        if unguarded:
            res.fail_at("C22-S6", ca, f"optional-spec-dereferenced:{f}",
                        f"`{unparse(unguarded[0])}`: self.{f} is None when the decorator is given no such specification (its constructor default), e.g. "
                        f"@SchemaRaises(return_spec=int): every call then raises AttributeError while checking is on — not a TypeError, and nothing is violated", unguarded[0])
        else:
            res.ok("C22-S6", f"check_args tolerates an absent {f}")
    # ---- S7: arguments are matched to parameter names the way Python binds them
    # the values handed to check_args are the bound arguments (a bind whose result is not used binds nothing)
    bound_names = {st.targets[0].id for st in ast.walk(call.node) if isinstance(st, ast.Assign) and isinstance(st.targets[0], ast.Name)
                   and isinstance(st.value, ast.Call) and isinstance(st.value.func, ast.Attribute) and st.value.func.attr in ("bind", "bind_partial")}
    carriers = {st.targets[0].id for st in ast.walk(call.node) if isinstance(st, ast.Assign) and isinstance(st.targets[0], ast.Name)
                and any(isinstance(a_, ast.Attribute) and a_.attr == "arguments" and isinstance(a_.value, ast.Name) and a_.value.id in bound_names for a_ in ast.walk(st.value))}
    binds = False
    for c in ast.walk(call.node):
        if isinstance(c, ast.Call) and isinstance(c.func, ast.Attribute) and c.func.attr == "check_args":
            for kw in c.keywords:
                if kw.arg in ("kwargs", "args"):
                    names = {n.id for n in ast.walk(kw.value) if isinstance(n, ast.Name)}
                    if names & carriers or any(isinstance(a_, ast.Attribute) and a_.attr == "arguments" for a_ in ast.walk(kw.value)):
                        binds = True
    by_index = [n for n in ast.walk(ca.node) if isinstance(n, ast.Subscript) and isinstance(n.value, ast.Name) and n.value.id == "arg_names"
                and isinstance(n.slice, ast.Name)]
    # the list of names handed over as arg_names is filtered by parameter kind
    filters_kinds = any(isinstance(c_, (ast.ListComp, ast.GeneratorExp)) and "parameters" in unparse(c_.generators[0].iter)
                        and any(".kind" in unparse(i_) for i_ in c_.generators[0].ifs) for c_ in ast.walk(call.node))
    if binds and "VAR_KEYWORD" not in unparse(call.node):
        res.fail_at("C22-S7", call, "bound-kwargs-not-flattened",
                    "the arguments are bound by signature, but a keyword caught by **kwargs then sits under the name of that parameter: for def f(a, **kw) with a "
                    "specification for b, f(1, b='x') is reported 'expected arg b missing' (nothing reads the VAR_KEYWORD parameter's dictionary back into the named arguments)")
    elif binds or (by_index and filters_kinds) or not by_index:
        res.ok("C22-S7", "positional arguments are matched to parameter names by the signature's own binding (or parameter kinds are filtered)")
    else:
        res.fail_at("C22-S7", ca, "positional-binding-by-index",
                    f"`{unparse(by_index[0])}` pairs the i-th positional argument with the i-th parameter *name of any kind*, and defaults are never applied: for def g(a, *rest, k) "
                    f"the call g(1, 2, 3, k='bad') checks 3 under the name k and accepts the bad k (g(1, 2) raises IndexError), and for def f(x, scale=2) with both declared, "
                    f"f(3) is reported 'expected arg scale missing'", by_index[0])
    # ---- S8: the null test is a scalar truth value
    isn = program.func("data_schema", "_is_null")
    res.analysed(isn)
    rets = [r.value for r in ast.walk(isn.node) if isinstance(r, ast.Return) and r.value is not None]
    raw = [r for r in rets if isinstance(r, ast.Call) and (dotted_name(r.func) or "").split(".")[-1] in ("isnull", "isna")]
    if raw:
        res.fail_at("C22-S8", isn, "null-test-not-scalar",
                    f"_is_null returns `{unparse(raw[0])}` as it is: for a list, array, Series or data-frame cell that is an array, and `if not _is_null(v)` raises ValueError "
                    f"(truth value of an array is ambiguous) — columns of list cells and nested column specifications can never be checked, and a [None] cell counts as null", raw[0])
    else:
        res.ok("C22-S8", "_is_null reduces the result of the element-wise null test to one truth value")
    # ---- S9: nulls carry no type, also outside data frames
    g2 = cfgmod.build(cs.node)
    type_branches = [n for n in g2.stmt_nodes(("test",)) if "isinstance(expected_type, type)" in unparse(n.cond) or "isinstance(expected_type, set)" in unparse(n.cond)]
    if not type_branches:
        raise AnalysisError("_check_spec: the branches for a single type / a set of types were not found")
    null_guard = [n for n in g2.stmt_nodes(("test",)) if "_is_null" in unparse(n.cond) and "observed_value" in unparse(n.cond)]
    covered = bool(null_guard) and all(any(g2.dominates(ng.id, tb.id) or tb.id == ng.id or ng.id in g2.reachable_from(tb.id) for ng in null_guard) for tb in type_branches)
    if covered:
        res.ok("C22-S9", "_check_spec exempts a null value from type and type-set specifications")
    else:
        res.fail_at("C22-S9", cs, "null-argument-type-checked",
                    "_check_spec applies isinstance to a null argument / return value: with spec int, f(None), f(float('nan')) and a function returning None raise TypeError "
                    "although 'a non-null value' is what has to match (null *cells* are exempt), and {int, None} is normalised to {int}, so 'optional int' refuses None")


def _s11_to_s14(program, res):
    """binding corner cases of the wrapper and the cell scan (each was a demonstrated wrong answer of an earlier repair of the same code)"""
    sr = program.cls("data_schema", "SchemaRaises")
    ca = sr.methods.get("check_args")
    call = sr.methods.get("__call__")
    isn = program.func("data_schema", "_is_null")
    res.analysed(ca, call, isn)
    # ---- S11: the element-wise null test is applied to scalars only
    g = cfgmod.build(isn.node)
    param = isn.node.args.args[0].arg
    tests = [c for c in ast.walk(isn.node) if isinstance(c, ast.Call) and (dotted_name(c.func) or "").split(".")[-1] in ("isnull", "isna")
             and c.args and isinstance(c.args[0], ast.Name) and c.args[0].id == param]
    if not tests:
        raise AnalysisError("_is_null: no isnull / isna call on the parameter found")
    for t in tests:
        node = g.containing_node(t)
        scalar_known = any("is_scalar" in unparse(b.cond) or "isinstance" in unparse(b.cond) for b, _l in g.guards(node.id))
        if scalar_known:
            res.ok("C22-S11", f"_is_null applies `{unparse(t)}` only after the value is known to be a scalar")
        else:
            res.fail_at("C22-S11", isn, "null-test-on-any-object",
                        f"`{unparse(t)}` is applied to whatever the argument or cell is: for a Polars frame of mixed column types it raises DTypePromotionError, for a list of "
                        f"frames of different shapes ValueError, for a MultiIndex NotImplementedError — the decorated function then raises although nothing of the schema is violated", t)
    # ---- S12: an empty *args is not a missing argument; a keyword caught by **kwargs does not replace a parameter's own value
    if "VAR_POSITIONAL" in unparse(call.node):
        gc = None
        for fn in ast.walk(call.node):
            if isinstance(fn, ast.FunctionDef) and fn is not call.node and "VAR_POSITIONAL" in unparse(fn):
                gc = fn
        if gc is None:
            raise AnalysisError("SchemaRaises.__call__: the wrapper function handling VAR_POSITIONAL was not found")
        for iff in ast.walk(gc):
            if not (isinstance(iff, ast.If) and "VAR_POSITIONAL" in unparse(iff.test)):
                continue
            branch = iff.body
            inner = [x for st in branch for x in ast.walk(st) if isinstance(x, ast.If) and "len(" in unparse(x.test)]
            if not inner:
                res.ok("C22-S12", "the *args branch treats the tuple of values uniformly")
                continue
            i0 = inner[0]
            other = [st for st in branch if st is not i0 and not any(x is i0 for x in ast.walk(st))
                     and not (isinstance(st, ast.Assign) and isinstance(st.value, ast.Call) and isinstance(st.value.func, ast.Attribute) and st.value.func.attr in ("pop", "get"))]
            if i0.orelse or other:
                res.ok("C22-S12", "an empty *args is recorded as a parameter without values (nothing to check, nothing missing)")
            else:
                res.fail_at("C22-S12", call, "empty-varargs-reported-missing",
                            f"the *args branch takes the parameter's name out of the named values and puts it back only under `{unparse(i0.test)}`: for def f(*frames) with a "
                            f"specification for frames, the call f() is refused with 'expected arg frames missing' although no value violates anything", i0)
        for iff in ast.walk(gc):
            if isinstance(iff, ast.If) and "VAR_KEYWORD" in unparse(iff.test):
                upd = [c for st in iff.body for c in ast.walk(st) if isinstance(c, ast.Call) and isinstance(c.func, ast.Attribute) and c.func.attr == "update"]
                if upd:
                    res.fail_at("C22-S12", call, "caught-keyword-replaces-parameter",
                                f"`{unparse(upd[0])[:90]}` lets a keyword caught by **kwargs overwrite the value bound to a parameter of the same name: for def f(a, /, **kw) with "
                                f"a: int, f('text', a=2) is accepted (2 is checked) and f(1, a='text') is refused", upd[0])
                else:
                    res.ok("C22-S12", "keywords caught by **kwargs are added to the named values without replacing a bound parameter")
    # ---- S13: the positional fallback stays inside the list of names
    by_index = [n for n in ast.walk(ca.node) if isinstance(n, ast.Subscript) and isinstance(n.value, ast.Name) and n.value.id == "arg_names" and isinstance(n.slice, ast.Name)]
    for bi in by_index:
        loop = None
        for f_ in ast.walk(ca.node):
            if isinstance(f_, ast.For) and isinstance(f_.target, ast.Name) and f_.target.id == bi.slice.id and any(x is bi for x in ast.walk(f_)):
                loop = f_
        if loop is None:
            continue
        gca = cfgmod.build(ca.node)
        bounded = "arg_names" in unparse(loop.iter) or any("arg_names" in unparse(b.cond) and "len(" in unparse(b.cond) for b, _l in gca.guards(gca.containing_node(bi).id))
        if bounded:
            res.ok("C22-S13", f"`{unparse(bi)}` is read only for positions that have a name")
        else:
            res.fail_at("C22-S13", ca, "positional-index-unbounded",
                        f"`{unparse(bi)}` under `for {loop.target.id} in {unparse(loop.iter)}`: a call with more positional values than parameters (not a valid call, so the binding "
                        f"falls back to positions) raises IndexError with checking on where the undecorated function raises TypeError", bi)
    # ---- S14: the cells of a column are read through a reader that knows a Pandas frame may hold several columns of one name
    mod = program.module("data_schema")
    n_scans = 0
    for finfo in program.all_functions():
        if finfo.module is not mod:
            continue
        fn = finfo.node
        frame_names = {"d"}
        iters = []
        for x in ast.walk(fn):
            if isinstance(x, ast.For):
                iters.append(x.iter)
            elif isinstance(x, (ast.ListComp, ast.SetComp, ast.GeneratorExp, ast.DictComp)):
                iters.extend(g_.iter for g_ in x.generators)
        for it in iters:
            if isinstance(it, ast.Subscript) and isinstance(it.value, ast.Name) and it.value.id in frame_names and isinstance(it.slice, ast.Name):
                n_scans += 1
                res.fail_at("C22-S14", finfo, f"cells-by-label:{fn.name}",
                            f"`for … in {unparse(it)}` in {fn.name}: for a Pandas frame with two columns of that name the selection is a frame and iterating it yields the column "
                            f"labels — with x, x both integer, the spec {{'x': int}} is refused ('found type str') and {{'x': str}} is accepted", it)
            elif isinstance(it, ast.Call) and isinstance(it.func, ast.Name) and it.args and isinstance(it.args[0], ast.Name) and it.args[0].id in frame_names:
                helper = next((f2 for f2 in ast.walk(mod.tree) if isinstance(f2, ast.FunctionDef) and f2.name == it.func.id), None)
                if helper is not None and any(isinstance(c, ast.Call) and dotted_name(c.func) == "isinstance" and "DataFrame" in unparse(c) for c in ast.walk(helper)):
                    n_scans += 1
                    res.ok("C22-S14", f"{fn.name} reads cells through {helper.name}, which flattens a multi-column selection")
    if n_scans < 2:
        raise AnalysisError(f"data_schema: only {n_scans} cell scans found (non_null_types_in_frame and _check_data_frame_matches_schema expected)")


def _s10_member_filter(program, res):
    """a member of a set (or dict) specification may be left out only because it says nothing — it *is* None, or normalises to None.
    A truthiness test leaves out 0, 0.0, False and '' as well, which are example values and declare int, float, bool and str"""
    f = program.func("data_schema", "_prep_schema_specification")
    res.analysed(f)
    n = 0
    for c in ast.walk(f.node):
        tests = []
        if isinstance(c, (ast.SetComp, ast.ListComp, ast.GeneratorExp, ast.DictComp)):
            tests = [t for g_ in c.generators for t in g_.ifs]
        elif isinstance(c, ast.If) and any(isinstance(x, (ast.Continue, ast.Return)) for x in ast.walk(c)):
            tests = [c.test]
        for t in tests:
            n += 1
            bare = isinstance(t, ast.Name) or (isinstance(t, ast.UnaryOp) and isinstance(t.op, ast.Not) and isinstance(t.operand, ast.Name)) \
                or (isinstance(t, ast.Call) and dotted_name(t.func) == "bool")
            if bare:
                res.fail_at("C22-S10", f, "members-dropped-by-truthiness",
                            f"_prep_schema_specification keeps a member only `if {unparse(t)}`: the example values 0, 0.0, False and '' are dropped with the Nones, "
                            f"so {{0, ''}} normalises to the empty set and {{int, ''}} to {{int}} — a str argument is then refused although '' declared str", t)
            else:
                res.ok("C22-S10", f"specification members are filtered by `{unparse(t)[:40]}` (a None test, not truthiness)")
    if n == 0:
        res.ok("C22-S10", "no member of a specification is filtered out")


def run(program, res, tier):
    res.rule("C22-S1", "the check switch dominates every schema raise; TypeError is what is raised")
    res.rule("C22-S2", "wrapped function's result is returned unchanged, checks before and after")
    res.rule("C22-S3", "normalised specifications reach the returned value (no dead store)")
    res.rule("C22-S4", "null cells are never type-checked")
    res.rule("C22-S5", "missing arguments and columns are reported")
    res.rule("C22-S6", "an absent specification is not dereferenced")
    res.rule("C22-S7", "arguments are bound to parameter names as Python binds them, defaults included")
    res.rule("C22-S8", "the null test yields one truth value for any cell")
    res.rule("C22-S9", "null arguments and return values are exempt like null cells")
    _s6_to_s9(program, res)
    res.rule("C22-S10", "specification members are dropped only when they are (or normalise to) None")
    _s10_member_filter(program, res)
    _s11_to_s14(program, res)
    sr = program.cls("data_schema", "SchemaRaises")
    # ---- S1
    for mname in ("check_args", "check_return"):
        m = sr.methods.get(mname)
        if m is None:
            raise AnalysisError(f"anchor vanished: SchemaRaises.{mname}")
        res.analysed(m)
        g = cfgmod.build(m.node)
        raises = [r for r in g.raises() if r.kind == "raise"]
        if not raises:
            res.fail_at("C22-S1", m, "no-raise", f"{mname} never raises: schema violations go unreported")
            continue
        for r in raises:
            exc = r.stmt.exc
            ename = dotted_name(exc.func) if isinstance(exc, ast.Call) else dotted_name(exc)
            if ename != "TypeError":
                res.fail_at("C22-S1", m, f"raises:{ename}", f"{mname} raises {ename}, the contract is TypeError", r.stmt)
            if _switch_guard(g, r):
                res.ok("C22-S1", f"{mname}: raise is reachable only with the check switch on")
            else:
                res.fail_at("C22-S1", m, "raise-ignores-switch",
                            f"a raise in {mname} is reachable when SchemaCheckSwitch is off: with checking switched off it "
                            f"must never raise for schema reasons", r.stmt)
        for n in g.stmt_nodes(("stmt",)):
            if any(isinstance(c, ast.Call) and isinstance(c.func, ast.Attribute) and c.func.attr == "_check_spec" for c in ast.walk(n.stmt)):
                if _switch_guard(g, n):
                    res.ok("C22-S1", f"{mname}: _check_spec runs only with the switch on")
                else:
                    res.fail_at("C22-S1", m, "check-ignores-switch",
                                f"{mname} calls _check_spec although the switch may be off (it can raise on malformed specs)", n.stmt)
    # every other method of the class that checks a value (calls _check_spec) or raises TypeError is under the switch as well: a checking helper added next to
    # check_args / check_return that never asks the switch raises although checking is off
    for mname, m in sorted(sr.methods.items()):
        if mname in ("check_args", "check_return", "__init__", "__call__") or mname.startswith("_"):
            continue  # (private workers are reached through the guarded entry points: their call sites are what S1 checks)
        checks = [c for c in ast.walk(m.node) if isinstance(c, ast.Call) and (dotted_name(c.func) or "").endswith("_check_spec")]
        g = cfgmod.build(m.node)
        rs = [r for r in g.raises() if r.kind == "raise"]
        if not checks and not rs:
            continue
        res.analysed(m)
        unguarded = [r for r in rs if not _switch_guard(g, r)]
        if unguarded:
            res.fail_at("C22-S1", m, f"raise-ignores-switch:{mname}",
                        f"SchemaRaises.{mname} raises without asking SchemaCheckSwitch: with checking off a call it is used for still raises TypeError instead of running the function", unguarded[0].stmt)
        else:
            res.ok("C22-S1", f"{mname}: every raise is reachable only with the switch on")
    # ---- S2
    call = sr.methods.get("__call__")
    if call is None:
        raise AnalysisError("anchor vanished: SchemaRaises.__call__")
    inner = [n for n in ast.walk(call.node) if isinstance(n, ast.FunctionDef) and n.name == "wrapped_fn"]
    if not inner:
        raise AnalysisError("anchor vanished: SchemaRaises.__call__.wrapped_fn")
    wf = inner[0]
    res.analysed(call)
    fn_param = [p for p in call.params() if p != "self"][0]
    # the switch is a call-time setting: the decorator itself must hand back the checking wrapper whatever the switch says when the function is
    # *declared* — a function declared with checking off would otherwise stay unchecked after SchemaCheckSwitch().on()
    gc_ = cfgmod.build(call.node)
    dc_ = depsmod.Deps(gc_, call.params())
    outer_reads = [c for c in ast.walk(call.node) if isinstance(c, ast.Call) and isinstance(c.func, ast.Attribute) and c.func.attr in ("is_on", "is_off")
                   and not any(c in list(ast.walk(f_)) for f_ in ast.walk(call.node) if isinstance(f_, ast.FunctionDef) and f_ is not call.node)]
    if outer_reads:
        res.fail_at("C22-S2", call, "switch-read-at-decoration",
                    f"SchemaRaises.__call__ reads the switch (`{unparse(outer_reads[0])}`) while decorating: what it decides then stays decided — a function declared while "
                    f"checking is off is never checked, also after SchemaCheckSwitch().on()", outer_reads[0])
    else:
        res.ok("C22-S2", "the decorator does not read the switch: it is consulted on every call")
    bare = [r for r in gc_.returns() if r.stmt.value is not None
            and not any(isinstance(x, ast.Name) and x.id == wf.name for x in ast.walk(r.stmt.value))]
    if bare:
        res.fail_at("C22-S2", call, "decorator-returns-unwrapped",
                    f"`{unparse(bare[0].stmt)[:70]}` hands back something other than the checking wrapper `{wf.name}`", bare[0].stmt)
    else:
        res.ok("C22-S2", f"every return of the decorator hands back the checking wrapper `{wf.name}`")
    g = cfgmod.build(wf)
    rets = g.returns()
    fcalls = [(n, n.stmt) for n in g.stmt_nodes(("stmt",)) if isinstance(n.stmt, ast.Assign)
              and isinstance(n.stmt.value, ast.Call) and dotted_name(n.stmt.value.func) == fn_param]
    if len(fcalls) != 1 or len(rets) != 1:
        res.fail_at("C22-S2", call, "shape", "wrapped_fn does not call the wrapped function exactly once and return once")
    else:
        (fnode, fst) = fcalls[0]
        c = fst.value
        star_ok = len(c.args) == 1 and isinstance(c.args[0], ast.Starred) and len(c.keywords) == 1 and c.keywords[0].arg is None
        if star_ok:
            res.ok("C22-S2", "wrapped function receives *args, **kwargs unchanged")
        else:
            res.fail_at("C22-S2", call, "arguments-changed", f"the wrapped function is called as `{unparse(c)}`", fst)
        var = fst.targets[0].id if isinstance(fst.targets[0], ast.Name) else None
        rv = rets[0].stmt.value
        rebinding = [n for n in g.stmt_nodes(("stmt",)) if isinstance(n.stmt, (ast.Assign, ast.AugAssign)) and n is not fnode
                     and any(isinstance(t, ast.Name) and t.id == var for t in (n.stmt.targets if isinstance(n.stmt, ast.Assign) else [n.stmt.target]))]
        if var and isinstance(rv, ast.Name) and rv.id == var and not rebinding:
            res.ok("C22-S2", "wrapped_fn returns exactly the wrapped function's result")
        else:
            res.fail_at("C22-S2", call, "result-changed",
                        f"wrapped_fn returns `{unparse(rv)}` (result variable `{var}`, re-bound {len(rebinding)} time(s)): "
                        f"the function's own result must be returned unchanged", rets[0].stmt)
        ca = [n for n in g.stmt_nodes(("stmt",)) if any(isinstance(x, ast.Call) and isinstance(x.func, ast.Attribute) and x.func.attr == "check_args" for x in ast.walk(n.stmt))]
        cr = [n for n in g.stmt_nodes(("stmt",)) if any(isinstance(x, ast.Call) and isinstance(x.func, ast.Attribute) and x.func.attr == "check_return" for x in ast.walk(n.stmt))]
        if ca and g.dominates(ca[0].id, fnode.id):
            res.ok("C22-S2", "check_args runs before the wrapped function")
        else:
            res.fail_at("C22-S2", call, "check_args-order", "check_args does not run before the wrapped function on every path")
        if cr and g.dominates(fnode.id, cr[0].id) and g.dominates(cr[0].id, rets[0].id):
            kws = {}
            for x in ast.walk(cr[0].stmt):
                if isinstance(x, ast.Call) and isinstance(x.func, ast.Attribute) and x.func.attr == "check_return":
                    kws = {kw.arg: unparse(kw.value) for kw in x.keywords}
            if kws.get("return_value") == var:
                res.ok("C22-S2", "check_return examines the result between the call and the return")
            else:
                res.fail_at("C22-S2", call, "check_return-value", f"check_return is given {kws.get('return_value')}, not the function's result")
        else:
            res.fail_at("C22-S2", call, "check_return-order", "check_return does not run between the wrapped call and the return")
    # ---- S3
    ps = program.func("data_schema", "_prep_schema_specification")
    res.analysed(ps)
    g = cfgmod.build(ps.node)
    d = depsmod.Deps(g, ps.params())
    v = ps.params()[0]
    branches = 0
    for r in g.returns():
        guards = g.lexical_guards(r)
        if not guards:
            continue
        cond = unparse(guards[-1][0].cond)
        lab = guards[-1][1]
        roots = d.roots_at(r, r.stmt.value)
        if lab is True and ("isinstance" in cond) and ("set" in cond or "dict" in cond):
            branches += 1
            kind = "set" if "set" in cond else "dict"
            if "call:_prep_schema_specification" in roots:
                res.ok("C22-S3", f"{kind} branch: the returned container derives from the recursively normalised members")
            else:
                res.fail_at("C22-S3", ps, f"dead-normalisation:{kind}",
                            f"the {kind} branch returns `{unparse(r.stmt.value)}`, which does not derive from the recursive "
                            f"_prep_schema_specification results (computed and overwritten before use): example values "
                            f"inside a {kind} are never turned into types", r.stmt)
    if branches < 2:
        raise AnalysisError("_prep_schema_specification: set/dict branches not found")
    # scalar branch returns type(v); type branch returns v
    last = [r for r in g.returns() if unparse(r.stmt.value) == f"type({v})"]
    if last:
        res.ok("C22-S3", "an example value declares its own type (type(v))")
    else:
        res.fail_at("C22-S3", ps, "example-value", f"no branch returns type({v}) for an example value")
    # ---- S4
    cm = sr.methods.get("_check_data_frame_matches_schema")
    if cm is None:
        raise AnalysisError("anchor vanished: SchemaRaises._check_data_frame_matches_schema")
    res.analysed(cm)
    g = cfgmod.build(cm.node)
    found = False
    for n in g.stmt_nodes(("stmt",)):
        if any(isinstance(c, ast.Call) and isinstance(c.func, ast.Attribute) and c.func.attr == "_check_spec" for c in ast.walk(n.stmt)):
            found = True
            ok = False
            for (b, label) in g.lexical_guards(n):
                if _atom_truth(b.cond, label, lambda e: isinstance(e, ast.Call) and (dotted_name(e.func) or "").endswith(
                        ("_is_null", "isnull", "isna"))) is False:
                    ok = True
            if ok:
                res.ok("C22-S4", "per-cell type check runs only for non-null cells")
            else:
                res.fail_at("C22-S4", cm, "null-cells-checked", "the per-cell _check_spec call is not guarded by `not _is_null(cell)`: a null "
                            "value would be reported as a type violation", n.stmt)
    if not found:
        raise AnalysisError("_check_data_frame_matches_schema: per-cell _check_spec call not found")
    # S4b: the cell scan covers every cell: it may be left early only on a recorded violation
    d4 = depsmod.Deps(g, cm.params())
    n_loops = 0
    for loop in [n for n in g.stmt_nodes(("iter",))]:
        body_calls = [c for c in ast.walk(loop.stmt) if isinstance(c, ast.Call) and isinstance(c.func, ast.Attribute) and c.func.attr == "_check_spec"]
        if not body_calls:
            continue
        inner_loops = [x for x in ast.walk(loop.stmt) if isinstance(x, ast.For) and x is not loop.stmt and any(c in list(ast.walk(x)) for c in body_calls)]
        if inner_loops:
            continue  # examine the innermost loop that contains the call
        n_loops += 1
        exits = [n for n in g.stmt_nodes(("stmt", "return")) if isinstance(n.stmt, (ast.Break, ast.Return))
                 and any(x is n.stmt for x in ast.walk(loop.stmt))]
        for e in exits:
            inner_guards = [(b, lab) for (b, lab) in g.lexical_guards(e) if any(x is b.stmt for x in ast.walk(loop.stmt)) and b is not loop]
            roots = set()
            for (b, _l) in inner_guards:
                roots |= d4.cond_roots(b)
            if "call:_check_spec" in roots:
                res.ok("C22-S4", "the cell scan is left early only after a recorded type violation")
            else:
                res.fail_at("C22-S4", cm, "scan-stops-early",
                            f"`{unparse(e.stmt)}` leaves the per-cell scan under a condition that does not depend on the type check's "
                            f"result: later cells of the column are never examined, so a non-conforming value after a conforming one "
                            f"goes unreported", e.stmt)
    if n_loops == 0:
        raise AnalysisError("_check_data_frame_matches_schema: cell scan loop not found")
    # S4c: what the scan iterates over covers every column of that name: d[name] of a Pandas frame with repeated column names is a frame, and the
    # helper that flattens it has to walk all of its columns (range(col.shape[1]) / a loop over them), never one fixed position
    ds_mod = program.module("data_schema")
    cc = ds_mod.functions.get("_column_cells")
    if cc is not None:
        res.analysed(cc)
        fixed = [sub for sub in ast.walk(cc.node) if isinstance(sub, ast.Subscript) and isinstance(sub.value, ast.Attribute) and sub.value.attr == "iloc"
                 and isinstance(sub.slice, ast.Tuple) and len(sub.slice.elts) == 2 and isinstance(sub.slice.elts[1], ast.Constant)]
        walks_all = [c for c in ast.walk(cc.node) if isinstance(c, (ast.ListComp, ast.GeneratorExp, ast.For))
                     and any("shape[1]" in unparse(x) or ".columns" in unparse(x) or ".items()" in unparse(x) for x in ast.walk(c))]
        if fixed:
            res.fail_at("C22-S4", cc, "same-named-columns-first-only",
                        f"_column_cells hands the scan `{unparse(fixed[0])}`: of several columns with the declared name only the one at a fixed position is examined, so a "
                        f"non-null value of an undeclared type in another column of that name raises nothing", fixed[0])
        elif walks_all:
            res.ok("C22-S4", "_column_cells walks every column of the declared name (repeated column names of a Pandas frame)")
        else:
            res.fail_at("C22-S4", cc, "same-named-columns-not-walked",
                        "_column_cells no longer walks the columns of a frame-valued d[name]: with repeated column names the scan iterates over column labels, not cells")
    else:
        scans = [n for n in ast.walk(cm.node) if isinstance(n, ast.For) and any(isinstance(c, ast.Call) and isinstance(c.func, ast.Attribute) and c.func.attr == "_check_spec" for c in ast.walk(n))]
        its = [unparse(x.iter) for x in scans]
        if any("iloc[:, 0]" in t for t in its):
            res.fail_at("C22-S4", cm, "same-named-columns-first-only", f"the cell scan iterates over `{its}`: one of several same-named columns")
    # ---- S5 missing column / missing argument reported
    txt = unparse(cm.node)
    miss_col = [n for n in ast.walk(cm.node) if isinstance(n, ast.If) and "not in" in unparse(n.test) and "col" in unparse(n.test)
                and any(isinstance(c, ast.Call) and isinstance(c.func, ast.Attribute) and c.func.attr == "append" for b in n.body for c in ast.walk(b))]
    if miss_col:
        res.ok("C22-S5", "a missing data-frame column produces a message")
    else:
        res.fail_at("C22-S5", cm, "missing-column-silent", "no message is recorded for a declared column that is missing from the frame")
    ca = sr.methods["check_args"]
    miss_arg = [n for n in ast.walk(ca.node) if isinstance(n, ast.If) and "not in kwargs" in unparse(n.test)
                and any(isinstance(c, ast.Call) and isinstance(c.func, ast.Attribute) and c.func.attr == "append" for b in n.body for c in ast.walk(b))]
    if miss_arg:
        res.ok("C22-S5", "a missing declared argument produces a message")
    else:
        res.fail_at("C22-S5", ca, "missing-argument-silent", "no message is recorded for a declared argument that is absent")
    # messages reach the return / raise
    rets = [r for r in ast.walk(cm.node) if isinstance(r, ast.Return) and r.value is not None and "msgs" in unparse(r.value)]
    if rets:
        res.ok("C22-S5", "collected column messages are returned to the caller")
    else:
        res.fail_at("C22-S5", cm, "messages-dropped", "the collected messages never reach a return value")
    g = cfgmod.build(ca.node)
    d = depsmod.Deps(g, ca.params())
    for r in [r for r in g.raises() if r.kind == "raise"]:
        roots = d.own_guard_roots(r)
        if "call:_check_spec" in roots or depsmod.has_root(roots, "self.arg_specs"):
            res.ok("C22-S5", "check_args raises when a message was collected")
        else:
            res.fail_at("C22-S5", ca, "raise-independent-of-messages", "the raise in check_args does not depend on the collected messages", r.stmt)
    # _check_spec: a failed isinstance on a plain type / a type set returns a message
    cs = sr.methods.get("_check_spec")
    res.analysed(cs)
    g = cfgmod.build(cs.node)
    n_msgs = 0
    for r in g.returns():
        if isinstance(r.stmt.value, ast.JoinedStr):
            conds = " ".join(unparse(b.cond) for b, _l in g.lexical_guards(r))
            if "isinstance(observed_value" in conds:
                n_msgs += 1
    # how conformance is decided: subclass-aware (isinstance), existential over a type set
    n_conf = 0
    for r in g.returns():
        if not isinstance(r.stmt.value, ast.JoinedStr):
            continue
        guards = [b for b, _l in g.lexical_guards(r)]
        inner = guards[-1].cond if guards else None
        if inner is None:
            continue
        txt = unparse(inner)
        class_vars = {st.targets[0].id for st in ast.walk(cs.node) if isinstance(st, ast.Assign) and len(st.targets) == 1
                      and isinstance(st.targets[0], ast.Name) and isinstance(st.value, ast.Call) and dotted_name(st.value.func) == "type"
                      and st.value.args and unparse(st.value.args[0]) == "observed_value"}
        if "observed_value" not in txt and not any(isinstance(x, ast.Name) and x.id in class_vars for x in ast.walk(inner)):
            continue
        n_conf += 1
        exact = [c for c in ast.walk(inner) if isinstance(c, ast.Compare) and any(
            (isinstance(x, ast.Call) and dotted_name(x.func) == "type" and x.args and unparse(x.args[0]) == "observed_value")
            or (isinstance(x, ast.Name) and x.id in class_vars)
            for x in [c.left] + list(c.comparators))]
        if exact:
            res.fail_at("C22-S5", cs, "type-test-exact-class",
                        f"`{txt[:80]}` compares the exact class of the value with the declared type(s): a value whose class is a subclass of a declared "
                        f"type (numpy.float64 for float, bool for int, a DataFrame subclass) is rejected although it satisfies the schema", inner)
            continue
        univ = [c for c in ast.walk(inner) if isinstance(c, ast.Call) and (dotted_name(c.func) or "").split(".")[-1] == "all"]
        if univ and "isinstance(observed_value" in txt:
            res.fail_at("C22-S5", cs, "type-set-universal", f"`{txt[:80]}` requires the value to be an instance of *every* type of the set", inner)
            continue
        if "isinstance(observed_value" in txt:
            res.ok("C22-S5", f"_check_spec: mismatch message under `{txt[:60]}` (subclass-aware isinstance)")
    if n_msgs >= 2 or n_conf >= 2:
        res.ok("C22-S5", "_check_spec reports a failed conformance test for single types and for type sets")
    else:
        res.fail_at("C22-S5", cs, "type-mismatch-silent", f"only {max(n_msgs, n_conf)} of the two type-mismatch branches of _check_spec return a message")
