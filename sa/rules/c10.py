"""C10 columns not reported as used never influence a pipeline's result — structural clauses."""
from __future__ import annotations

import ast
from typing import Any, Dict, List, Set, Tuple

from .. import cfg as cfgmod
from .. import deps as depsmod
from .. import setalg
from ..index import AnalysisError, dotted_name, unparse
from ..nodes import DERIVED, NodeModel

EXPLANATION = (
    "S1: each node kind's columns_used_from_sources is interpreted symbolically (structured set-algebra "
    "interpreter, sa/setalg.py) into set terms over `using`, the node's fields, the sources' columns and the "
    "op dictionary; every symbolic return path is then evaluated on witness valuations that put one token in "
    "each column-bearing field an evaluator reads (partition/order/group keys, join keys, decision columns, "
    "renamed/deleted columns, columns referenced by the selected ops, requested pass-through columns): the "
    "token must appear in the reported set of the right source — positively and not only under `∩ using`. "
    "S2: columns_used_implementation_ accumulates (never overwrites) the per-node record and recurses into "
    "every source with the matching list element; columns_used() reads the records of all tables. "
    "S3: every SQL generator step hands its source a `using` that derives from the node's own "
    "columns_used_from_sources, so SQL pruning and the reported columns cannot diverge. "
    "Not decided: perturbation invariance of results on data."
)

# witness tables: per node kind, a list of (name, valuation, expectations[(source index, token)])
# valuation keys: using, SRC0, SRC1, SELFCOLS, F:<field>, ops (key -> referenced columns), maps (field -> dict)


def _tests(kind: str) -> List[Tuple[str, Dict[str, Any], List[Tuple[int, str]]]]:
    if kind == "ExtendNode":
        base = {"SRC0": {"p", "o", "r", "c", "z", "k0"}, "SELFCOLS": {"p", "o", "r", "c", "z", "k0", "k"},
                "F:partition_by": {"p"}, "F:order_by": {"o", "r"}, "F:reverse": {"r"}}
        return [
            ("window keys and op arguments", {**base, "using": {"k"}, "ops": {"k": {"c"}}},
             [(0, "p"), (0, "o"), (0, "r"), (0, "c")]),
            ("pass-through column", {**base, "using": {"k", "z"}, "ops": {"k": {"c"}}}, [(0, "z"), (0, "c")]),
            ("op updating its own column", {**base, "using": {"c"}, "ops": {"c": {"c"}}}, [(0, "c")]),
            ("unused op does not hide a requested column", {**base, "using": {"z"}, "ops": {"k": {"c"}}}, [(0, "z")]),
            ("second op argument", {**base, "using": {"k"}, "ops": {"k": {"c", "k0"}}}, [(0, "k0")]),
        ]
    if kind == "ProjectNode":
        base = {"SRC0": {"g", "c", "z"}, "SELFCOLS": {"g", "k"}, "F:group_by": {"g"}}
        return [
            ("group keys and aggregated column", {**base, "using": {"k"}, "ops": {"k": {"c"}}}, [(0, "g"), (0, "c")]),
            ("group keys when only keys requested", {**base, "using": {"g"}, "ops": {"k": {"c"}}}, [(0, "g")]),
        ]
    if kind == "SelectRowsNode":
        base = {"SRC0": {"d", "z", "y"}, "SELFCOLS": {"d", "z", "y"}, "F:decision_columns": {"d"}}
        return [("decision columns and requested columns", {**base, "using": {"z"}}, [(0, "d"), (0, "z")])]
    if kind == "SelectColumnsNode":
        base = {"SRC0": {"a", "b", "c"}, "SELFCOLS": {"a", "b"}, "F:column_selection": {"a", "b"}}
        return [("requested selected column", {**base, "using": {"a"}}, [(0, "a")])]
    if kind == "DropColumnsNode":
        base = {"SRC0": {"a", "b", "x"}, "SELFCOLS": {"a", "b"}, "F:column_deletions": {"x"}}
        return [("requested kept column", {**base, "using": {"a"}}, [(0, "a")])]
    if kind == "OrderRowsNode":
        base = {"SRC0": {"o", "z", "y"}, "SELFCOLS": {"o", "z", "y"}, "F:order_columns": {"o"}, "F:reverse": set()}
        return [("order columns and requested columns", {**base, "using": {"z"}}, [(0, "o"), (0, "z")]),
                ("reversed order column", {**base, "F:order_columns": {"o", "y"}, "F:reverse": {"y"}, "using": {"z"}}, [(0, "y")])]
    if kind == "MapColumnsNode":
        base = {"SRC0": {"old", "z", "del"}, "SELFCOLS": {"new", "z"}, "F:column_deletions": {"del"},
                "F:column_remapping": {"old"}, "maps": {"column_remapping": {"old": "new"}}}
        return [("pre-image of a renamed column and a kept column", {**base, "using": {"new", "z"}}, [(0, "old"), (0, "z")])]
    if kind == "RenameColumnsNode":
        base = {"SRC0": {"old", "z"}, "SELFCOLS": {"new", "z"}, "F:column_remapping": {"new"},
                "maps": {"column_remapping": {"new": "old"}}}
        return [("pre-image of a renamed column and a kept column", {**base, "using": {"new", "z"}}, [(0, "old"), (0, "z")])]
    if kind == "NaturalJoinNode":
        base = {"SRC0": {"ka", "z", "s"}, "SRC1": {"kb", "w", "s"}, "SELFCOLS": {"ka", "kb", "z", "w", "s"},
                "F:on_a": {"ka"}, "F:on_b": {"kb"}}
        return [("join keys of each side, requested and shared columns", {**base, "using": {"z", "w", "s"}},
                 [(0, "ka"), (1, "kb"), (0, "z"), (1, "w"), (0, "s"), (1, "s")]),
                ("join keys when nothing from that side is requested", {**base, "using": {"z"}}, [(0, "ka"), (1, "kb")])]
    if kind == "ConcatRowsNode":
        base = {"SRC0": {"z", "y"}, "SRC1": {"z", "y"}, "SELFCOLS": {"z", "y", "id"}, "F:id_column": {"id"}}
        return [("requested column from both inputs", {**base, "using": {"z", "id"}}, [(0, "z"), (1, "z")])]
    if kind == "ConvertRecordsNode":
        base = {"SRC0": {"n", "m"}, "SELFCOLS": {"q"}, "F:record_map.columns_needed": {"n", "m"}}
        return [("all columns the record map needs", {**base, "using": {"q"}}, [(0, "n"), (0, "m")])]
    return []


# column-bearing fields every kind's witness table must exercise (checked against the constructor's validation)
COVERED = {
    "ExtendNode": {"partition_by", "order_by", "reverse", "ops"},
    "ProjectNode": {"group_by", "ops"},
    "SelectRowsNode": {"ops"},
    "SelectColumnsNode": {"column_selection"},
    "DropColumnsNode": {"column_deletions"},
    "OrderRowsNode": {"order_columns", "reverse"},
    "MapColumnsNode": {"column_remapping", "column_deletions"},
    "RenameColumnsNode": {"column_remapping"},
    "NaturalJoinNode": {"on_a", "on_b"},
    "ConcatRowsNode": set(),
    "ConvertRecordsNode": {"record_map"},
    "TableDescription": set(),
    "SQLNode": set(),
}


# fields that name a column the node *produces* (validated to be absent from the inputs), one reason each
PRODUCED = {"ConcatRowsNode": {"id_column": "new source-label column; the constructor rejects it if an input already has it"}}


def column_bearing_fields(k) -> Set[str]:
    """fields whose constructor parameter is validated against a source's column_names (by a raise)"""
    g = cfgmod.build(k.init.node)
    d = depsmod.Deps(g, k.init.params())
    params = set(k.init.params()) - {"self"}
    out: Set[str] = set()
    for r in g.raises():
        roots = d.own_guard_roots(r)
        if not any(x.endswith(".column_names") for x in roots):
            continue
        ps = {x.split(".")[0] for x in roots if x.split(".")[0] in params}
        for f, fps in k.init_fields.items():
            if fps & ps and not any(p2 in ("source", "a", "b") for p2 in fps):
                out.add(f)
    return out


def _s1(model, res):
    n_eval = 0
    for k in model.kinds.values():
        m = k.method("columns_used_from_sources")
        if m is None:
            raise AnalysisError(f"{k.name} has no columns_used_from_sources")
        res.analysed(m)
        # the witness table must cover every column-bearing field of the constructor
        cb = {f for f in column_bearing_fields(k) if f in k.semantic_fields() or f in ("ops",)}
        uncovered = cb - COVERED.get(k.name, set()) - set(DERIVED.get(k.name, {})) - set(PRODUCED.get(k.name, {}))
        for f in sorted(uncovered):
            res.fail_at("C10-S1", m, f"uncovered-field:{f}",
                        f"{k.name}.{f} is validated against the source's columns and read by an evaluator, but the "
                        f"used-columns witness table does not exercise it (new column-bearing field?)")
        tests = _tests(k.name)
        if not tests:
            # leaves: must report no source columns
            rets = [n for n in ast.walk(m.node) if isinstance(n, ast.Return)]
            if all(isinstance(r.value, ast.List) and not r.value.elts for r in rets):
                res.ok("C10-S1", f"{k.name}: leaf reports no source columns", nontrivial=False)
            else:
                res.fail_at("C10-S1", m, "leaf-return", f"{k.name} is a leaf but returns {[unparse(r.value) for r in rets]}")
            continue
        params = [p for p in m.params() if p != "self"]
        interp = setalg.Interp(m.node, using_param=params[0] if params else "using")
        results = interp.run()
        if not results:
            raise AnalysisError(f"{k.name}.columns_used_from_sources: no symbolic return path with using given")
        for (tname, val, expects) in tests:
            for (conds, term) in results:
                n_eval += 1
                try:
                    got = setalg.evaluate(term, val)
                except AnalysisError as e:
                    raise AnalysisError(f"{k.name}.columns_used_from_sources: {e}")
                if not isinstance(got, list):
                    raise AnalysisError(f"{k.name}.columns_used_from_sources does not return a list")
                # a path may be infeasible for this valuation (e.g. `len(subops) <= 0` with a used op): decide feasibility
                if not _feasible(conds, val, interp):
                    continue
                missing = [(i, tok) for (i, tok) in expects if i >= len(got) or tok not in got[i]]
                if missing:
                    for (i, tok) in missing:
                        res.fail_at("C10-S1", m, f"{tname}: source{i}:{_role(k.name, tok)}",
                                    f"{k.name}.columns_used_from_sources(using={sorted(val['using'])}) = {setalg.show(term)} "
                                    f"evaluates to {[sorted(x) for x in got]} on the witness table and omits '{tok}' "
                                    f"({_role(k.name, tok)}) from source {i}: an evaluator reads that column, so changing "
                                    f"an unreported column would change the result",
                                    facts={"term": setalg.show(term), "path": conds, "valuation": {a: sorted(b) if isinstance(b, set) else b for a, b in val.items()}})
                else:
                    res.ok("C10-S1", f"{k.name}: {tname} [{'; '.join(conds) or 'straight'}]",
                           {"term": setalg.show(term)})
    res.expect_count("C10-S1", "symbolic path x witness evaluations", n_eval, 20)


def _role(kind, tok):
    roles = {"p": "partition_by column", "o": "order_by column", "r": "reverse/order column", "c": "column referenced by a used op",
             "k0": "second column referenced by a used op", "z": "requested pass-through column", "g": "group_by column",
             "d": "decision column of the row filter", "a": "requested selected column", "old": "pre-image of a renamed column",
             "del": "deleted column", "ka": "left join key", "kb": "right join key", "w": "requested right column",
             "s": "shared non-key column", "n": "column needed by the record map", "m": "column needed by the record map",
             "y": "reversed order column"}
    return roles.get(tok, tok)


def _feasible(conds: List[str], val, interp) -> bool:
    """only one data-dependent condition occurs in these functions: emptiness of the selected ops"""
    for c in conds:
        neg = c.startswith("not(")
        txt = c[4:-1] if neg else c
        if txt.startswith("len(") and "<=" in txt or txt.startswith("len(") and "<" in txt:
            # len(subops) <= 0 : true iff no op key is in using
            ops = val.get("ops", {})
            empty = not (set(ops.keys()) & set(val["using"]))
            truth = empty
            if neg:
                truth = not truth
            if not truth:
                return False
        elif txt == "using is None":
            return False
    return True


def _s2(program, model, res):
    m = program.method("view_representations", "ViewRepresentation", "columns_used_implementation_", inherited=False)
    res.analysed(m)
    src = m.node
    # accumulation: record updated with update()/union, never plain-assigned from `using`
    updates = [c for c in ast.walk(src) if isinstance(c, ast.Call) and isinstance(c.func, ast.Attribute)
               and c.func.attr in ("update", "union") and isinstance(c.func.value, ast.Name)]
    rec_names = {c.func.value.id for c in updates}
    if not updates:
        res.fail_at("C10-S2", m, "accumulate", "the per-node record is never accumulated with update(): a node reached "
                    "twice (DAG) would keep only the last request")
    else:
        using_update = any(any(isinstance(a, ast.Name) and a.id == "using" for a in c.args) for c in updates)
        cols_update = any(any(unparse(a) == "self.column_names" for a in c.args) for c in updates)
        if using_update and cols_update:
            res.ok("C10-S2", "record accumulates `using` (or all columns when using is None) with update()")
        else:
            res.fail_at("C10-S2", m, "accumulate", "record.update(using) / record.update(self.column_names) not both present")
    # the record stored in the shared dict is the same object that is updated
    stores = [st for st in ast.walk(src) if isinstance(st, ast.Assign) and isinstance(st.targets[0], ast.Subscript)
              and unparse(st.targets[0].value) == "columns_currently_using_records"]
    if stores and all(isinstance(st.value, ast.Name) and st.value.id in rec_names for st in stores):
        res.ok("C10-S2", "new records are registered in columns_currently_using_records before being filled")
    else:
        res.fail_at("C10-S2", m, "register", "a new per-node record is not stored in columns_currently_using_records")
    # recursion: for each source i, using=cu_list[i]
    rec_calls = [c for c in ast.walk(src) if isinstance(c, ast.Call) and isinstance(c.func, ast.Attribute)
                 and c.func.attr == "columns_used_implementation_"]
    good = False
    for c in rec_calls:
        kws = {kw.arg: kw.value for kw in c.keywords}
        recv = c.func.value
        if isinstance(recv, ast.Subscript) and unparse(recv.value) == "self.sources" and "using" in kws \
                and isinstance(kws["using"], ast.Subscript) and unparse(kws["using"].slice) == unparse(recv.slice) \
                and "columns_currently_using_records" in kws:
            good = True
    loops = [l for l in ast.walk(src) if isinstance(l, ast.For) and unparse(l.iter).replace(" ", "") in (
        "range(len(self.sources))", "enumerate(self.sources)", "zip(self.sources,cu_list)", "range(0,len(self.sources))")]
    if good and loops:
        res.ok("C10-S2", "recursion into every source with the matching element of columns_used_from_sources")
    else:
        res.fail_at("C10-S2", m, "recursion", "does not recurse into self.sources[i] with using=<columns_used_from_sources>[i] for every i")
    # the list handed down comes from self.columns_used_from_sources(<record>)
    g = cfgmod.build(src)
    d = depsmod.Deps(g, m.params())
    for c in rec_calls:
        node = g.containing_node(c)
        kws = {kw.arg: kw.value for kw in c.keywords}
        if "using" in kws:
            roots = d.roots_at(node, kws["using"])
            if "call:columns_used_from_sources" in roots:
                res.ok("C10-S2", "the request handed to a source derives from self.columns_used_from_sources(record)")
            else:
                res.fail_at("C10-S2", m, "request-source", "the `using` handed to a source does not derive from columns_used_from_sources", c)
    # the recursion is unconditional: every path that does not raise passes through the loop over the sources
    # (a node's decision / key / order columns are needed from its source even when none of its outputs is requested)
    loop_nodes = [n for n in g.stmt_nodes(("iter",)) if any(isinstance(c, ast.Call) and isinstance(c.func, ast.Attribute)
                                                           and c.func.attr == "columns_used_implementation_" for c in ast.walk(n.stmt))]
    if loop_nodes:
        ln = loop_nodes[0]
        skipping = None
        n_paths = 0
        for path in g.paths(limit=20000):
            ids = [nid for (nid, _l) in path]
            last = g.nodes[ids[-2]] if len(ids) >= 2 else None
            if last is not None and last.kind in ("raise", "assertfail"):
                continue
            n_paths += 1
            if ln.id not in ids:
                # a path that established "no sources" skips nothing
                if any(g.nodes[nid].kind == "test" and "self.sources" in unparse(g.nodes[nid].cond) for (nid, _l) in path):
                    continue
                skipping = path
                break
        if skipping is not None:
            conds = [f"{unparse(g.nodes[nid].cond)[:50]} is {lab}" for (nid, lab) in skipping if g.nodes[nid].kind == "test"]
            res.fail_at("C10-S2", m, "recursion-skipped-on-some-path",
                        f"columns_used_implementation_ can return without visiting its sources (path: {'; '.join(conds[-3:])}): a node that is asked for "
                        f"no new columns still needs its decision / key / ordering columns from its source, which are then never reported", ln.stmt)
        else:
            res.ok("C10-S2", f"every non-raising path ({n_paths}) of columns_used_implementation_ recurses into the sources")
    cu = program.method("view_representations", "ViewRepresentation", "columns_used", inherited=False)
    res.analysed(cu)
    txt = unparse(cu.node)
    if "self.get_tables()" in txt and "columns_used_implementation_" in txt and "for" in txt:
        res.ok("C10-S2", "columns_used() reports the accumulated record of every table of get_tables()")
    else:
        res.fail_at("C10-S2", cu, "report", "columns_used() does not report records for all tables of get_tables()")


def _s3(program, model, res):
    """every <kind>_to_near_sql passes its source a `using` derived from node.columns_used_from_sources"""
    n = 0
    sqlm = program.cls("sql_model", "SQLModel")
    fns = [f for name, f in sqlm.methods.items() if name.endswith("_to_near_sql") or name == "_natural_join_sub_queries"]
    # node classes that build their near-SQL themselves (convert_records) instead of delegating to the model
    vr = program.module("view_representations")
    for cls_ in program.all_classes():
        if cls_.module is vr:
            m_ = cls_.methods.get("to_near_sql_implementation_")
            if m_ is not None and any(isinstance(c, ast.Call) and isinstance(c.func, ast.Attribute) and c.func.attr == "to_near_sql_implementation_"
                                      and "sources" in unparse(c.func.value) for c in ast.walk(m_.node)):
                fns.append(m_)
    for f in fns:
        g = cfgmod.build(f.node)
        d = depsmod.Deps(g, f.params())
        calls = [c for c in ast.walk(f.node) if isinstance(c, ast.Call) and isinstance(c.func, ast.Attribute)
                 and c.func.attr == "to_near_sql_implementation_"]
        if not calls:
            continue
        res.analysed(f)
        for c in calls:
            try:
                node = g.containing_node(c)
            except AnalysisError:
                continue
            kws = {kw.arg: kw.value for kw in c.keywords}
            if "using" not in kws:
                res.fail_at("C10-S3", f, "no-using", f"`{unparse(c)[:80]}` does not pass using=", c)
                continue
            n += 1
            roots = d.roots_at(node, kws["using"])
            guards = " ".join(unparse(b.cond) for b, _l in g.lexical_guards(node))
            if "call:columns_used_from_sources" in roots:
                res.ok("C10-S3", f"{f.name}: source request derives from columns_used_from_sources")
            elif f.name == "extend_to_near_sql" and "len(subops)" in guards:
                # no op of this extend is used: the step disappears and the request passes through unchanged,
                # extended by the window keys — a superset of what the node reports
                if "using" in roots:
                    res.ok("C10-S3", "extend_to_near_sql: pass-through of the request when no op is used")
                else:
                    res.fail_at("C10-S3", f, "passthrough", "pass-through request does not derive from using", c)
            else:
                res.fail_at("C10-S3", f, f"request:{unparse(kws['using'])}",
                            f"{f.name} asks its source for `{unparse(kws['using'])}`, which does not derive from the "
                            f"node's columns_used_from_sources: SQL pruning and reported columns can diverge", c)
    res.expect_count("C10-S3", "source requests in SQL generator steps", n, 12)


def window_sort_key_rule(program, res, rule="C10-S4"):
    """Pandas windowed extend: the frame is sorted before the window functions run.  The sort key may consist of the partition and order
    columns only — a key that also holds the ops' value columns makes every op's result depend on the *other* ops' inputs (also of ops
    whose outputs nobody uses, which columns_used() does not report) and on an ordering nobody asked for."""
    from .. import cfg as cfgmod
    from .. import deps as depsmod
    m = program.method("pandas_base", "PandasModelBase", "_extend_step", inherited=False)
    res.analysed(m)
    op_param = [p for p in m.params() if p != "self"][0]
    g = cfgmod.build(m.node)
    d = depsmod.Deps(g, m.params(), control=True)
    sorts = [(n, c) for n in g.stmt_nodes(("stmt",)) for c in ast.walk(n.stmt)
             if isinstance(c, ast.Call) and isinstance(c.func, ast.Attribute) and c.func.attr == "sort_values"]
    if not sorts:
        raise AnalysisError("PandasModelBase._extend_step: the window sort (sort_values) was not found")
    for (n, c) in sorts:
        by = next((kw.value for kw in c.keywords if kw.arg == "by"), c.args[0] if c.args else None)
        if by is None:
            raise AnalysisError("PandasModelBase._extend_step: sort_values without a key")
        roots = d.roots_at(n, by)
        ops_dep = sorted(r for r in roots if r == f"{op_param}.ops" or r.startswith(f"{op_param}.ops."))
        if ops_dep:
            res.fail_at(rule, m, "window-sort-key-includes-value-columns",
                        f"the window sort key `{unparse(by)}` depends on {ops_dep[0]} (the value columns of every op are appended to it): rows that tie on the order columns are "
                        f"ranked by other ops' inputs — extend({{'r': '_row_number()', 'junk': 'z.cumsum()'}}, partition_by=['g'], order_by=['o']).drop_columns(['junk']) changes r when only z "
                        f"changes (columns_used does not report z), a partition-only cumsum runs in value order, and merging two windowed extends changes their results", c)
        else:
            res.ok(rule, f"the window sort key `{unparse(by)}` derives from partition_by / order_by only")


def _s5_executor_pruning(program, res):
    """SQL generation threads `using` through every step, so unreported columns never reach the query.  The Pandas executor has no such
    restriction: it computes every op and validates every column of the described tables; a value in an unreported column that makes one
    of those computations raise turns the result into an exception."""
    cls = program.cls("pandas_base", "PandasModelBase")
    ev = cls.methods["eval"]
    ts = cls.methods["_table_step"]
    res.analysed(ev, ts)
    prunes = any(isinstance(c, ast.Call) and isinstance(c.func, ast.Attribute) and c.func.attr in ("columns_used", "columns_used_from_sources")
                 for m in (ev, ts, cls.methods["_eval_value_source"]) for c in ast.walk(m.node))
    step_params = {p for name, m in cls.methods.items() if name.endswith("_step") for p in m.params()}
    if prunes or "using" in step_params:
        res.ok("C10-S5", "the Pandas executor restricts evaluation to the columns the pipeline uses")
    else:
        res.fail_at("C10-S5", ev, "pandas-evaluates-unreported-columns",
                    "PandasModelBase.eval evaluates the whole DAG on every described column (no step takes a column restriction, columns_used() is never consulted): "
                    "extend({'m': 'x + 1', 'junk': 'z.as_int64()'}).drop_columns(['junk']) reports x only, yet a NaN in z raises IntCastingNaNError on Pandas while "
                    "SQLite (pruned query) returns the frame; natural_join / concat_rows type-check all common columns, also unreported ones")


def run(program, res, tier):
    res.rule("C10-S1", "every column an evaluator reads flows positively and unconditionally into columns_used_from_sources")
    res.rule("C10-S2", "columns_used_implementation_ accumulates per node and recurses into every source")
    res.rule("C10-S3", "SQL generator prunes with the node's own columns_used_from_sources")
    res.rule("C10-S4", "Pandas window sort key holds partition and order columns only")
    window_sort_key_rule(program, res)
    res.rule("C10-S5", "the Pandas executor computes only what the reported columns determine")
    _s5_executor_pruning(program, res)
    res.assumptions.append("witness tables in sa/rules/c10.py (one token per column-bearing field; completeness of the table is checked against the constructors' column validations)")
    model = NodeModel(program)
    _s1(model, res)
    _s2(program, model, res)
    _s3(program, model, res)
