"""C18 results ignore input row order, and order_rows orders and limits — structural clauses."""
from __future__ import annotations

import ast
from typing import Dict, Optional

from .. import cfg as cfgmod
from .. import pat
from .. import frames
from ..index import AnalysisError, dotted_name, unparse

EXPLANATION = (
    "S1 index-clean typestate: over every Pandas executor step and the two record-conversion helpers a forward "
    "typestate analysis ({clean, dirty, list-of}) tracks whether a frame is guaranteed to carry the default "
    "RangeIndex (producers that dirty: sort_values without ignore_index, row-masked .loc, groupby pieces, "
    "row-wise concat without ignore_index, dropna/query/...; cleaners: clean_copy, reset_index(drop=True), "
    "drop_indices, ignore_index=True, merge, constructors; preservers: column selection, rename, head / "
    "iloc[range(k)], drop(axis=1)). Obligations: every returned frame is clean, every operand of a column-wise "
    "concat or positional column attachment is clean, row positions are captured only from a clean frame. "
    "This is necessary for row-order independence: the executor re-attaches computed columns by position while "
    "pandas aligns by label. S2 polarity: the sort-direction flag expressions (Pandas ascending, Polars "
    "descending, SQL ' DESC') are partially evaluated with the single unknown `column in reverse`; the flag "
    "list iterates the same columns as the sort key list. S3 limit is applied after the sort in all three back "
    "ends. Not decided: multiset invariance on data, tie behaviour."
)

PANDAS_FUNCS = ["_table_step", "_extend_step", "_project_step", "_select_rows_step", "_select_columns_step", "_drop_columns_step",
                "_order_rows_step", "_map_columns_step", "_rename_columns_step", "_natural_join_step", "_concat_rows_step",
                "_convert_records_step", "blocks_to_rowrecs", "rowrecs_to_blocks", "add_data_frame_columns_to_data_frame_",
                "concat_columns", "concat_rows", "columns_to_frame_"]


def typestate_rule(program, res, rule="C18-S1"):
    pb = program.cls("pandas_base", "PandasModelBase")
    n_obl = 0
    for name in PANDAS_FUNCS:
        m = pb.methods.get(name)
        if m is None:
            raise AnalysisError(f"anchor vanished: PandasModelBase.{name}")
        res.analysed(m)
        g = cfgmod.build(m.node)
        helpers = {f.name: f for f in ast.walk(m.node) if isinstance(f, ast.FunctionDef) and f is not m.node}
        pk: Dict[str, Optional[str]] = {}
        if name == "add_data_frame_columns_to_data_frame_":
            pk = {"res": "C", "transient_new_frame": "C"}
        fs = frames.FrameState(g, pk, helpers)
        for ob in fs.obligations:
            n_obl += 1
            if all(k == "C" for k in ob.kinds):
                res.ok(rule, f"{m.qualname}: {ob.what} `{unparse(ob.expr)[:50]}` clean")
            else:
                why = {"returned frame": "the step hands a frame with a non-default index to the next step, which attaches computed columns by position",
                       "column-wise concat operands": "pandas aligns a column-wise concat by index label, so values are attached to the wrong rows when "
                                                      "the input rows are permuted",
                       "positional column attachment operands": "columns are attached by index label, not by position",
                       "row positions captured from the index": "the captured positions are not 0..n-1, the original order cannot be restored"}[ob.what]
                res.fail_at(rule, m, f"dirty-index:{ob.what}:{unparse(ob.expr)[:40]}",
                            f"{m.qualname}: {ob.what} `{unparse(ob.expr)[:70]}` may carry a non-default row index: {why}", ob.expr)
        # nested helpers: their own returns / concats with parameters assumed clean frames
        for hn, h in helpers.items():
            gh = cfgmod.build(h)
            ph = {a.arg: None for a in h.args.args}
            fh = frames.FrameState(gh, ph, {})
            for ob in fh.obligations:
                n_obl += 1
                if all(k == "C" for k in ob.kinds):
                    res.ok(rule, f"{m.qualname}.{hn}: {ob.what} clean")
                else:
                    res.fail_at(rule, m, f"dirty-index:{hn}:{ob.what}", f"{m.qualname}.{hn}: {ob.what} `{unparse(ob.expr)[:70]}` may carry a non-default row index", ob.expr)
    res.expect_count(rule, "index-cleanliness obligations", n_obl, 25)


def _eval_flag(elt: ast.AST, atom_true: bool, loopvar: str) -> Optional[object]:
    """partial evaluation of a per-column flag expression with the single unknown `<loopvar> in <reverse set>`"""
    if isinstance(elt, ast.Constant):
        return elt.value
    if isinstance(elt, ast.IfExp):
        t = _eval_flag(elt.test, atom_true, loopvar)
        if t is None:
            return None
        return _eval_flag(elt.body if t else elt.orelse, atom_true, loopvar)
    if isinstance(elt, ast.UnaryOp) and isinstance(elt.op, ast.Not):
        v = _eval_flag(elt.operand, atom_true, loopvar)
        return None if v is None else (not v)
    if isinstance(elt, ast.Compare) and len(elt.ops) == 1 and isinstance(elt.left, ast.Name) and elt.left.id == loopvar \
            and ("reverse" in unparse(elt.comparators[0]) or "revs" in unparse(elt.comparators[0])):
        if isinstance(elt.ops[0], ast.In):
            return atom_true
        if isinstance(elt.ops[0], ast.NotIn):
            return not atom_true
    if isinstance(elt, ast.BinOp) and isinstance(elt.op, ast.Add):
        # string building: quote(ci) + (" DESC" if ... else "")
        parts = [_eval_flag(elt.right, atom_true, loopvar)]
        return parts[0]
    return None


def polarity_rule(program, res, rule="C18-S2", windows=False, backends=("pandas", "polars", "sql")):
    """(function, how the flag reaches the sort) per back end"""
    sites = []
    pb = program.cls("pandas_base", "PandasModelBase")
    pm = program.cls("polars_model", "PolarsModel")
    sm = program.cls("sql_model", "SQLModel")
    targets = [(pb.methods["_order_rows_step"], "ascending", False), (pm.methods["_order_rows_step"], "descending", True),
               (sm.methods["order_to_near_sql"], " DESC", " DESC")]
    if windows:
        targets = [(pb.methods["_extend_step"], "ascending", False), (pm.methods["_extend_step"], "descending", True),
                   (sm.methods["extend_to_near_sql"], " DESC", " DESC")]
    targets = [t for t, be in zip(targets, ("pandas", "polars", "sql")) if be in backends]
    for (m, flagname, want_when_reversed) in targets:
        res.analysed(m)
        found = False
        # the flags may be built by a helper method of the same class (self.<helper>(…)): look one level down
        scan_nodes = [m.node]
        if m.cls is not None:
            frontier = [m.node]
            for _depth in range(3):
                nxt = []
                for fn_ in frontier:
                    for c in ast.walk(fn_):
                        if isinstance(c, ast.Call) and isinstance(c.func, ast.Attribute) and isinstance(c.func.value, ast.Name) and c.func.value.id == "self":
                            h = m.cls.find_method(c.func.attr)
                            if h is not None and h.node not in scan_nodes and c.func.attr.startswith("_") and not c.func.attr.endswith("_step"):
                                scan_nodes.append(h.node)
                                nxt.append(h.node)
                frontier = nxt
        for comp in [c for sn in scan_nodes for c in ast.walk(sn) if isinstance(c, ast.ListComp)]:
            gen = comp.generators[0]
            if not isinstance(gen.target, ast.Name):
                continue
            lv = gen.target.id
            t = _eval_flag(comp.elt, True, lv)
            f = _eval_flag(comp.elt, False, lv)
            if t is None or f is None or t == f:
                continue
            found = True
            if flagname == " DESC":
                ok = (t == " DESC" and f == "")
            else:
                ok = (t is want_when_reversed) and (f is (not want_when_reversed))
            what = f"{m.qualname}: per-column flag `{unparse(comp.elt)[:60]}`"
            if ok:
                res.ok(rule, f"{what}: column in reverse -> {t!r}, otherwise {f!r}")
            else:
                res.fail_at(rule, m, f"polarity:{flagname.strip()}",
                            f"{what} evaluates to {t!r} for a column listed in `reverse` and {f!r} otherwise; as `{flagname.strip()}` that sorts "
                            f"reversed columns {'ascending' if flagname != ' DESC' else 'without DESC'}", comp)
            # alignment with the key list
            if flagname != " DESC":
                calls = [c for c in ast.walk(m.node) if isinstance(c, ast.Call) and isinstance(c.func, ast.Attribute)
                         and c.func.attr in ("sort_values", "sort")]
                for c in calls:
                    kws = {kw.arg: kw.value for kw in c.keywords}
                    by = kws.get("by")
                    fl = kws.get(flagname)
                    if by is None or fl is None:
                        continue
                    # the flag variable is the comprehension's target variable of an assignment
                    assigned = [st for st in ast.walk(m.node) if isinstance(st, ast.Assign) and st.value is comp and isinstance(st.targets[0], ast.Name)]
                    if assigned and isinstance(fl, ast.Name) and fl.id == assigned[0].targets[0].id:
                        if unparse(gen.iter) == unparse(by):
                            res.ok(rule, f"{m.qualname}: the {flagname} list iterates the sort keys `{unparse(by)}`")
                        else:
                            res.fail_at(rule, m, f"flag-misaligned:{flagname}",
                                        f"{m.qualname} sorts by `{unparse(by)}` but builds the {flagname} flags over `{unparse(gen.iter)}`: "
                                        f"flags and keys can differ in length or order", c)
        if not found:
            sorts = [c for c in ast.walk(m.node) if (isinstance(c, ast.Call) and isinstance(c.func, ast.Attribute) and c.func.attr in ("sort_values", "sort"))
                     or (isinstance(c, ast.Call) and any(kw.arg in ("order_by", "descending", "ascending", "sort_by") for kw in c.keywords))
                     or (isinstance(c, ast.Constant) and isinstance(c.value, str) and "ORDER BY" in c.value)]
            if not sorts:
                raise AnalysisError(f"{m.qualname}: neither a sort nor a direction flag expression found")
            res.fail_at(rule, m, f"direction-ignores-reverse:{flagname.strip()}",
                        f"{m.qualname} sorts, but no per-column `{flagname.strip()}` flag depends on membership in `reverse`: reversed columns "
                        f"are not sorted descending")


def _s3(program, res):
    pb = program.method("pandas_base", "PandasModelBase", "_order_rows_step", inherited=False)
    g = cfgmod.build(pb.node)
    sort_n = [n for n in g.stmt_nodes(("stmt",)) if "sort_values" in unparse(n.stmt)]
    lim_n = [n for n in g.stmt_nodes(("stmt",)) if "op.limit" in unparse(n.stmt) and ("iloc" in unparse(n.stmt) or "head" in unparse(n.stmt))]
    if not sort_n or not lim_n:
        raise AnalysisError("Pandas _order_rows_step: sort / limit statements not found")
    if lim_n[0].id in g.reachable_from(sort_n[0].id) and sort_n[0].id not in g.reachable_from(lim_n[0].id):
        res.ok("C18-S3", "Pandas: the limit is taken after the sort")
    else:
        res.fail_at("C18-S3", pb, "limit-before-sort", "Pandas order_rows truncates before sorting: the kept rows are not the first `limit` of the order", lim_n[0].stmt)
    lt = unparse(lim_n[0].stmt)
    if "range(op.limit)" in lt or "head(op.limit)" in lt:
        res.ok("C18-S3", "Pandas: the first `limit` rows are kept")
    else:
        res.fail_at("C18-S3", pb, "limit-rows", f"`{lt[:70]}` does not keep the first op.limit rows", lim_n[0].stmt)
    pm = program.method("polars_model", "PolarsModel", "_order_rows_step", inherited=False)
    g2 = cfgmod.build(pm.node)
    s2 = [n for n in g2.stmt_nodes(("stmt",)) if ".sort(" in unparse(n.stmt)]
    l2 = [n for n in g2.stmt_nodes(("stmt",)) if ".head(op.limit)" in unparse(n.stmt)]
    if s2 and l2 and l2[0].id in g2.reachable_from(s2[0].id) and s2[0].id not in g2.reachable_from(l2[0].id):
        res.ok("C18-S3", "Polars: head(limit) after sort")
    else:
        res.fail_at("C18-S3", pm, "limit-before-sort", "Polars order_rows does not apply head(op.limit) after the sort")
    sm = program.method("sql_model", "SQLModel", "order_to_near_sql", inherited=False)
    g3 = cfgmod.build(sm.node)
    o3 = [n for n in g3.stmt_nodes(("stmt",)) if "'ORDER BY'" in unparse(n.stmt)]
    l3 = [n for n in g3.stmt_nodes(("stmt",)) if "'LIMIT '" in unparse(n.stmt)]
    if not o3 or not l3:
        raise AnalysisError("order_to_near_sql: ORDER BY / LIMIT suffix statements not found")
    lt3 = unparse(l3[0].stmt)
    appended = pat.match("_S = _S + [__L]", l3[0].stmt) is not None or pat.match("_S.append(__L)", getattr(l3[0].stmt, "value", l3[0].stmt)) is not None
    if l3[0].id in g3.reachable_from(o3[0].id) and o3[0].id not in g3.reachable_from(l3[0].id) and appended:
        res.ok("C18-S3", "SQL: LIMIT is appended after ORDER BY in the step's suffix")
    else:
        res.fail_at("C18-S3", sm, "limit-before-order-by", "the SQL suffix does not place LIMIT after ORDER BY", l3[0].stmt)
    # ORDER BY lists the order columns in the declared order
    def _lists_order_columns(stmt) -> bool:
        if any(isinstance(c, (ast.ListComp, ast.GeneratorExp)) and unparse(c.generators[0].iter) == "order_node.order_columns" and not c.generators[0].ifs
               for c in ast.walk(stmt)):
            return True
        # through a private helper: self._h(order_node.order_columns, …) whose result is a comprehension over its first parameter, unfiltered
        for c in ast.walk(stmt):
            if isinstance(c, ast.Call) and isinstance(c.func, ast.Attribute) and isinstance(c.func.value, ast.Name) and c.func.value.id == "self" \
                    and c.args and unparse(c.args[0]) == "order_node.order_columns" and sm.cls is not None:
                h = sm.cls.find_method(c.func.attr)
                if h is None:
                    continue
                p0 = [p_ for p_ in h.params() if p_ != "self"][0]
                for r in ast.walk(h.node):
                    if isinstance(r, ast.Return) and isinstance(r.value, (ast.ListComp, ast.GeneratorExp)) and unparse(r.value.generators[0].iter) == p0 \
                            and not r.value.generators[0].ifs:
                        return True
        return False
    if _lists_order_columns(o3[0].stmt):
        res.ok("C18-S3", "SQL: ORDER BY lists order_columns in declared order")
    else:
        res.fail_at("C18-S3", sm, "order-by-columns", "ORDER BY terms are not built from order_node.order_columns in order", o3[0].stmt)
    # Pandas / Polars sort by op.order_columns
    for (m, nm) in ((pb, "Pandas"), (pm, "Polars")):
        calls = [c for c in ast.walk(m.node) if isinstance(c, ast.Call) and isinstance(c.func, ast.Attribute) and c.func.attr in ("sort_values", "sort")]
        by = [unparse(kw.value) for c in calls for kw in c.keywords if kw.arg == "by"]
        if by == ["op.order_columns"]:
            res.ok("C18-S3", f"{nm}: sorts by op.order_columns")
        else:
            res.fail_at("C18-S3", m, "sort-keys", f"{nm} order_rows sorts by {by}")


# default place of NULL in ORDER BY per dialect and direction (SQLite: NULL is the smallest value; PostgreSQL: NULL is the largest)
SQL_NULL_DEFAULT = {"SQLiteModel": {"ASC": "first", "DESC": "last"}, "PostgreSQLModel": {"ASC": "last", "DESC": "first"}}


def null_position_rule(program, res, backends, rule="C18-S5"):
    """where missing values go when rows are ordered: Pandas sort_values puts them last whatever the direction (na_position='last').
    The other back ends must say so explicitly, or their default must coincide"""
    pb = program.method("pandas_base", "PandasModelBase", "_order_rows_step", inherited=False)
    sv = [c for c in ast.walk(pb.node) if isinstance(c, ast.Call) and isinstance(c.func, ast.Attribute) and c.func.attr == "sort_values"]
    if not sv:
        raise AnalysisError("Pandas _order_rows_step: sort_values not found")
    nap = [k.value.value for c in sv for k in c.keywords if k.arg == "na_position" and isinstance(k.value, ast.Constant)]
    pandas_pos = nap[0] if nap else "last"
    res.ok(rule, f"Pandas order_rows puts missing values {pandas_pos} (sort_values na_position)", nontrivial=False)
    if "polars" in backends:
        pm = program.method("polars_model", "PolarsModel", "_order_rows_step", inherited=False)
        res.analysed(pm)
        sorts = [c for c in ast.walk(pm.node) if isinstance(c, ast.Call) and isinstance(c.func, ast.Attribute) and c.func.attr == "sort"]
        if not sorts:
            raise AnalysisError("Polars _order_rows_step: sort not found")
        for c in sorts:
            kws = {k.arg: k.value for k in c.keywords}
            nl = kws.get("nulls_last")
            want = pandas_pos == "last"
            if isinstance(nl, ast.Constant) and nl.value is want:
                res.ok(rule, f"Polars order_rows sorts with nulls_last={want}")
            else:
                res.fail_at(rule, pm, "polars-null-position",
                            f"`{unparse(c)[:70]}` leaves nulls_last at its default (False: missing values first); Pandas puts them {pandas_pos}: "
                            f"order_rows(['x'], limit=2) over x=[2,None,1,3] keeps different rows", c)
        # the same for the sort that puts a window in order (Pandas: sort_values in _extend_step, missing values last)
        pe = program.method("polars_model", "PolarsModel", "_extend_step", inherited=False)
        res.analysed(pe)
        wsorts = [c for c in ast.walk(pe.node) if isinstance(c, ast.Call) and isinstance(c.func, ast.Attribute) and c.func.attr == "sort"]
        if not wsorts:
            # another way of ordering the window (e.g. over(order_by=...)): where it puts missing keys is not decided here (C27-S1/S2 examine it)
            res.abstain(rule, "Polars _extend_step: position of missing order keys", "no frame sort found")
        for c in wsorts:
            kws = {k.arg: k.value for k in c.keywords}
            nl = kws.get("nulls_last")
            want = pandas_pos == "last"
            if isinstance(nl, ast.Constant) and nl.value is want:
                res.ok(rule, f"Polars window sort uses nulls_last={want}")
            else:
                res.fail_at(rule, pe, "polars-window-null-position",
                            f"`{unparse(c)[:70]}` leaves nulls_last at its default (missing order keys first); the Pandas window sort puts them {pandas_pos}: "
                            f"v.shift() / v.first() / _row_number() over order_by=['o'] with a missing o give other values on Polars than on Pandas "
                            f"(o=[2,None,1]: Pandas shift = nan,30,10 by o=1,2,None; Polars 20,30,None)", c)
    for dialect in [b for b in backends if b.endswith("Model")]:
        sm = program.method("sql_model", "SQLModel", "order_to_near_sql", inherited=False)
        res.analysed(sm)
        explicit = any(isinstance(c, ast.Constant) and isinstance(c.value, str) and "NULLS " in c.value.upper() for n_ in _private_closure(sm) for c in ast.walk(n_))
        if explicit:
            res.ok(rule, f"{dialect}: ORDER BY terms state the position of NULLs")
            continue
        for direction in ("ASC", "DESC"):
            d_ = SQL_NULL_DEFAULT.get(dialect, {}).get(direction)
            if d_ == pandas_pos:
                res.ok(rule, f"{dialect}: default NULL position for {direction} ({d_}) coincides with Pandas")
            else:
                res.fail_at(rule, sm, f"sql-null-position:{dialect}:{direction}",
                            f"{dialect}: ORDER BY … {direction} has no NULLS FIRST/LAST and the dialect's default puts NULL {d_}; Pandas puts missing values "
                            f"{pandas_pos}: with a limit the kept rows differ (order_rows(['x'], limit=2) over x=[2,None,1,3])")


def _private_closure(m, depth=3):
    nodes = [m.node]
    if m.cls is None:
        return nodes
    frontier = [m.node]
    for _d in range(depth):
        nxt = []
        for fn_ in frontier:
            for c in ast.walk(fn_):
                if isinstance(c, ast.Call) and isinstance(c.func, ast.Attribute) and isinstance(c.func.value, ast.Name) and c.func.value.id == "self" \
                        and c.func.attr.startswith("_"):
                    h = m.cls.find_method(c.func.attr)
                    if h is not None and h.node not in nodes:
                        nodes.append(h.node)
                        nxt.append(h.node)
        frontier = nxt
    return nodes


def position_primitives_rule(program, res, rule="C18-S4"):
    """a primitive that numbers rows in their *incoming* order (groupby.cumcount) may realise an operator only if the builder guarantees an
    ordered window for it, or under a test that the window is ordered; otherwise the value depends on the order of the input rows"""
    er = program.module("expr_rep")
    oset = er.consts.get("fn_names_that_imply_ordered_windowed_situation")
    if not isinstance(oset, ast.Set):
        raise AnalysisError("anchor vanished: expr_rep.fn_names_that_imply_ordered_windowed_situation")
    ordered_only = {e.value.lstrip("_") for e in oset.elts if isinstance(e, ast.Constant)}
    pe = program.method("pandas_base", "PandasModelBase", "_extend_step", inherited=False)
    res.analysed(pe)
    g = cfgmod.build(pe.node)
    n = 0
    for nd in g.stmt_nodes(("stmt",)):
        if not any(isinstance(c, ast.Call) and isinstance(c.func, ast.Attribute) and c.func.attr == "cumcount" for c in ast.walk(nd.stmt)):
            continue
        n += 1
        guards = [b.cond for b, lab in g.lexical_guards(nd) if lab is True]
        inner = guards[-1] if guards else None
        if inner is None:
            res.fail_at(rule, pe, "cumcount-unguarded", "a groupby.cumcount() result is stored without any guard on the operator", nd.stmt)
            continue
        # disjuncts of the innermost guard: each must be `<op> == <ordered-only name>` / `<op> in {ordered-only…}` or contain an order_by test
        disj = inner.values if isinstance(inner, ast.BoolOp) and isinstance(inner.op, ast.Or) else [inner]
        bad = []
        for dj in disj:
            txt = unparse(dj)
            if "order_by" in txt:
                continue
            names = {c.value for c in ast.walk(dj) if isinstance(c, ast.Constant) and isinstance(c.value, str)}
            if names and names <= ordered_only:
                continue
            bad.append((dj, sorted(names - ordered_only)))
        if bad:
            dj, nm = bad[0]
            res.fail_at(rule, pe, f"position-primitive-without-order:{','.join(nm) or unparse(dj)[:30]}",
                        f"`{unparse(nd.stmt)[:60]}` numbers the rows of a partition in their incoming order and is used for {nm or unparse(dj)[:40]} without a test "
                        f"that the window is ordered: extend({{'n': '_{(nm or ['count'])[0]}()'}}, partition_by=['g']) returns 1,2,3 in input row order (it changes when "
                        f"the rows are permuted; SQL returns the partition size)", nd.stmt)
        else:
            res.ok(rule, f"Pandas _extend_step: cumcount() is used only for operators the builder restricts to ordered windows {sorted(ordered_only & {c.value for d_ in disj for c in ast.walk(d_) if isinstance(c, ast.Constant) and isinstance(c.value, str)})} or under an order_by test")
    if n < 1:
        raise AnalysisError("Pandas _extend_step: cumcount() use not found")


def order_sensitive_functions_rule(program, res, rule="C18-S4"):
    """the generic path of a windowed extend hands the operator's name to pandas' groupby.transform.  For the names whose pandas meaning depends on
    the order of a group's rows (facts.PANDAS_ORDER_SENSITIVE_TRANSFORMS) the builder has to demand an ordered window (they belong to
    fn_names_that_imply_ordered_windowed_situation), or the value follows the physical row order of the input"""
    from .. import facts
    er = program.module("expr_rep")
    oset = er.consts.get("fn_names_that_imply_ordered_windowed_situation")
    if not isinstance(oset, ast.Set):
        raise AnalysisError("anchor vanished: expr_rep.fn_names_that_imply_ordered_windowed_situation")
    ordered_only = {e.value for e in oset.elts if isinstance(e, ast.Constant)}
    # names the library accepts as window functions at all: the Term methods
    term = program.cls("expr_rep", "Term")
    known = set(term.methods)
    n = 0
    for name in sorted(facts.PANDAS_ORDER_SENSITIVE_TRANSFORMS & known):
        n += 1
        if name in ordered_only:
            res.ok(rule, f"`{name}` (order-sensitive in pandas) is accepted only in an ordered window")
        else:
            res.fail(rule, "expr_rep:fn_names_that_imply_ordered_windowed_situation", f"order-sensitive-function-unordered:{name}",
                     f"`{name}` is not in fn_names_that_imply_ordered_windowed_situation, so extend({{'f': 'z.{name}()'}}, partition_by=['g']) is accepted without order_by; "
                     f"pandas' groupby {name} follows the order of the group's rows — the same rows listed backwards give another value (Pandas and Polars)",
                     "data_algebra/expr_rep.py", getattr(oset, "lineno", 0))
    res.expect_count(rule, "order-sensitive pandas transforms known to Term", n, 6)


def limit_domain_rule(program, res, rule="C18-S5"):
    """`limit=k` means "the first k rows": the back ends agree on that only for k >= 0 (Pandas head(-1) drops the last row, SQL LIMIT -1 means
    no limit, Polars raises) — the constructor has to refuse a negative limit"""
    from .. import cfg as cfgmod
    init = program.method("view_representations", "OrderRowsNode", "__init__", inherited=False)
    res.analysed(init)
    g = cfgmod.build(init.node)
    guards = []
    for t in g.stmt_nodes(("test",)):
        for c in ast.walk(t.cond):
            if isinstance(c, ast.Compare) and len(c.ops) == 1 and isinstance(c.ops[0], (ast.Lt, ast.LtE, ast.Gt, ast.GtE)) \
                    and "limit" in {n.id for n in ast.walk(c) if isinstance(n, ast.Name)} \
                    and any(isinstance(x, ast.Constant) and x.value in (0, 1, -1) for x in (c.left, c.comparators[0])):
                raising = any(g.nodes[x].kind == "raise" for (s_, lab) in t.succ if lab is True for x in (g.reachable_from(s_, avoid={t.id}) | {s_})
                              if g.nodes[x].kind in ("raise",))
                if raising or isinstance(t.stmt, ast.Assert):
                    guards.append(t)
    if guards:
        res.ok(rule, "OrderRowsNode refuses a negative limit")
    else:
        res.fail_at(rule, init, "negative-limit-accepted",
                    "OrderRowsNode.__init__ stores any integral limit: order_rows(['x'], limit=-1) returns all but the last row on Pandas (head(-1)), every row on SQLite "
                    "(LIMIT -1) and raises on Polars — three different answers for one accepted pipeline")


def run(program, res, tier):
    res.rule("C18-S1", "index-clean typestate of every Pandas step (returned frames, positional attachments)")
    res.rule("C18-S2", "sort-direction flags have the right polarity and iterate the sort keys")
    res.rule("C18-S3", "limit after sort; sort by the declared columns")
    typestate_rule(program, res)
    polarity_rule(program, res)
    _s3(program, res)
    res.rule("C18-S4", "row-numbering primitives only under an ordered window")
    position_primitives_rule(program, res)
    order_sensitive_functions_rule(program, res)
    res.rule("C18-S5", "a limit is a non-negative row count")
    limit_domain_rule(program, res)
    res.rule("C18-S6", "an ordered window is put in its declared order whatever order the rows come in (sort keys, directions, no data-dependent skipping; C27-S1 / S3)")
    from . import c27
    from ..report import Only
    c27.run(program, Only(res, {"C27-S1": "C18-S6", "C27-S3": "C18-S6"}), tier)
