"""C24 OrderedSet remembers first insertion order — structural clauses (narrow)."""
from __future__ import annotations

import ast

from .. import cfg as cfgmod
from .. import deps as depsmod
from ..index import AnalysisError, dotted_name, unparse

EXPLANATION = (
    "S1 order source: the value returned by ordered_intersect/ordered_diff is built by iterating the first "
    "parameter (def-use roots of the comprehension's iteration source contain the first parameter and not the "
    "second) filtered by (non-)membership in the second; ordered_union and OrderedSet.union consume the first "
    "operand completely before the second (dominance on the CFG) and only add. S2 first-insertion order: "
    "OrderedSet.add has exactly one effect on self.impl, a keyed store (no delete, pop, move_to_end or "
    "re-creation), impl is an insertion-ordered mapping, and __iter__/__contains__/__len__/discard/copy use "
    "that single field. Not decided: equivalence with set over arbitrary operation sequences (the mixin "
    "operators inherited from collections.abc.MutableSet)."
)


def _impl_effects(fnode):
    """effects on self.impl inside a method: list of (kind, node)"""
    out = []
    for n in ast.walk(fnode):
        if isinstance(n, ast.Subscript) and unparse(n.value) == "self.impl" and isinstance(n.ctx, (ast.Store, ast.Del)):
            out.append(("store" if isinstance(n.ctx, ast.Store) else "del", n))
        if isinstance(n, ast.Call) and isinstance(n.func, ast.Attribute) and unparse(n.func.value) == "self.impl":
            if n.func.attr in ("pop", "popitem", "clear", "move_to_end", "update", "setdefault", "__setitem__", "__delitem__"):
                out.append((n.func.attr, n))
        if isinstance(n, ast.Attribute) and unparse(n) == "self.impl" and isinstance(n.ctx, ast.Store):
            out.append(("rebind", n))
    return out


def _check_filter_helper(program, res, name, want_op):
    f = program.func("OrderedSet", name)
    res.analysed(f)
    params = f.params()
    if len(params) != 2:
        raise AnalysisError(f"{name}: expected two parameters")
    a, b = params
    g = cfgmod.build(f.node)
    d = depsmod.Deps(g, params)
    rets = g.returns()
    if not rets:
        raise AnalysisError(f"{name}: no return")
    for r in rets:
        # find the comprehension that builds the returned value (directly or through the returned local)
        comps = [c for c in ast.walk(r.stmt.value) if isinstance(c, (ast.ListComp, ast.GeneratorExp, ast.SetComp))]
        node = r
        if not comps and isinstance(r.stmt.value, ast.Name):
            for n in g.stmt_nodes(("stmt",)):
                if isinstance(n.stmt, ast.Assign) and isinstance(n.stmt.targets[0], ast.Name) \
                        and n.stmt.targets[0].id == r.stmt.value.id and g.dominates(n.id, r.id):
                    cs = [c for c in ast.walk(n.stmt.value) if isinstance(c, (ast.ListComp, ast.GeneratorExp, ast.SetComp))]
                    if cs:
                        comps, node = cs, n
        if not comps:
            raise AnalysisError(f"{name}: returned value is not built by a comprehension")
        comp = comps[0]
        if isinstance(comp, ast.SetComp):
            res.fail_at("C24-S1", f, f"{name}:unordered", f"{name} builds its result with a set comprehension: the order of `{a}` is lost", comp)
            continue
        gen = comp.generators[0]
        it_roots = d.roots_at(node, gen.iter)
        if a in it_roots and b not in it_roots and "call:set" not in it_roots and "call:sorted" not in it_roots:
            res.ok("C24-S1", f"{name}: iterates its first argument `{a}` in order")
        else:
            res.fail_at("C24-S1", f, f"{name}:iteration-source",
                        f"{name} iterates `{unparse(gen.iter)}` (depends on {sorted(x for x in it_roots if not x.startswith('call:'))}): "
                        f"the result must be ordered by the first argument `{a}`", comp)
        ok_filter = False
        for c in gen.ifs:
            if isinstance(c, ast.Compare) and len(c.ops) == 1 and isinstance(c.ops[0], want_op):
                fr = d.roots_at(node, c.comparators[0])
                if b in fr and a not in fr:
                    ok_filter = True
        if ok_filter:
            res.ok("C24-S1", f"{name}: filters by {'membership' if want_op is ast.In else 'non-membership'} in the second argument")
        else:
            res.fail_at("C24-S1", f, f"{name}:filter",
                        f"{name} does not filter by `{'in' if want_op is ast.In else 'not in'}` the second argument `{b}`", comp)
        # the element itself is kept
        if not (isinstance(comp.elt, ast.Name) and isinstance(gen.target, ast.Name) and comp.elt.id == gen.target.id):
            res.fail_at("C24-S1", f, f"{name}:element", f"{name} transforms the elements (`{unparse(comp.elt)}`)", comp)


FRESH_CTORS = ("OrderedSet",)


def _fresh_value(v, self_ok: bool) -> bool:
    """an expression that creates a new set object: OrderedSet(...), x.copy(), self.copy()"""
    if isinstance(v, ast.Call):
        if (dotted_name(v.func) or "").split(".")[-1] in FRESH_CTORS:
            return True
        if isinstance(v.func, ast.Attribute) and v.func.attr in ("copy", "__copy__"):
            return True
    return False


def _check_union_like(res, f, first_desc, first_test, second_name):
    """a union helper (a) builds a *new* set: the object it adds to and returns is created inside the function on every path — never a
    parameter, which would be extended in place; (b) puts the first operand's elements in before the second's; (c) only adds."""
    g = cfgmod.build(f.node)
    params = [p for p in f.params()]
    first_param = "self" if first_desc == "self" else first_desc.split("`")[1]
    rets = [r for r in g.returns() if r.stmt.value is not None]
    if not rets:
        res.fail_at("C24-S1", f, f"{f.qualname}:return", f"{f.qualname} does not return the union")
        return
    ok_all = True
    for r in rets:
        if not isinstance(r.stmt.value, ast.Name):
            if _fresh_value(r.stmt.value, True):
                continue
            raise AnalysisError(f"{f.qualname}: returned expression `{unparse(r.stmt.value)}` not understood")
        acc = r.stmt.value.id
        # (a) on every path to the return, the last assignment to the accumulator before its first mutation creates a new object
        for path in g.paths(targets={r.id}, limit=5000):
            fresh = acc not in params and False
            first_source = None
            order_ok = True
            seen_second = False
            for (nid, _lab) in path:
                n = g.nodes[nid]
                st = n.stmt
                if n.kind == "stmt" and isinstance(st, ast.Assign) and len(st.targets) == 1 and isinstance(st.targets[0], ast.Name) and st.targets[0].id == acc:
                    fresh = _fresh_value(st.value, True)
                    if fresh and isinstance(st.value, ast.Call):
                        src = unparse(st.value)
                        if first_param in {x.id for x in ast.walk(st.value) if isinstance(x, ast.Name)}:
                            first_source = first_source or "ctor"
                # passing the head of a loop over the first operand consumes it (also when it is empty)
                if n.kind == "iter" and isinstance(st, ast.For) and first_param in {x.id for x in ast.walk(st.iter) if isinstance(x, ast.Name)} and not seen_second:
                    first_source = first_source or "loop"
                # mutations of the accumulator
                muts = []
                if st is not None and n.kind in ("stmt", "iter"):
                    scope = st if n.kind == "stmt" else None
                    if scope is not None:
                        for c in ast.walk(scope):
                            if isinstance(c, ast.Call) and isinstance(c.func, ast.Attribute) and isinstance(c.func.value, ast.Name) and c.func.value.id == acc \
                                    and c.func.attr in ("add", "update", "discard", "remove", "pop", "clear"):
                                muts.append(c)
                for c in muts:
                    if not fresh:
                        res.fail_at("C24-S1", f, f"{f.qualname}:extends-argument-in-place",
                                    f"{f.qualname} calls `{unparse(c)[:40]}` on `{acc}`, which on some path is still the caller's own object (no new set was created): "
                                    f"ordered_union(s, b) with an OrderedSet s adds b's elements to s itself — s then holds elements that were never added to it", c)
                        ok_all = False
                        break
                    if c.func.attr in ("discard", "remove", "pop", "clear"):
                        res.fail_at("C24-S1", f, f"{f.qualname}:removes", f"{f.qualname} calls {c.func.attr} while building a union", c)
                        ok_all = False
                    args_names = {x.id for a_ in c.args for x in ast.walk(a_) if isinstance(x, ast.Name)}
                    # loop variable of an enclosing for over a parameter
                    for (b_, _l) in g.lexical_guards(n):
                        if b_.kind == "iter" and isinstance(b_.stmt, ast.For):
                            args_names |= {x.id for x in ast.walk(b_.stmt.iter) if isinstance(x, ast.Name)}
                            # nested loops over *args: for other in args: for k in other
                    if second_name in args_names or any(second_name in {x.id for x in ast.walk(b_.stmt.iter) if isinstance(x, ast.Name)}
                                                        for (b_, _l) in g.lexical_guards(n) if b_.kind == "iter" and isinstance(b_.stmt, ast.For)) \
                            or (second_name == "args" and any(isinstance(a_, ast.Starred) for a_ in c.args)):
                        seen_second = True
                        if first_source is None:
                            order_ok = False
                    elif first_param in args_names or (first_param == "self" and "self" in args_names):
                        first_source = first_source or "adds"
                        if seen_second:
                            order_ok = False
                if not ok_all:
                    break
            if not ok_all:
                break
            if not order_ok:
                res.fail_at("C24-S1", f, f"{f.qualname}:order",
                            f"{f.qualname}: elements of `{second_name}` are added before (or instead of) those of {first_desc}: elements of the first operand would not come first", r.stmt)
                ok_all = False
                break
    if ok_all:
        res.ok("C24-S1", f"{f.qualname}: builds a new set, {first_desc} first, then `{second_name}`; only adds")


def _s3_inherited_operators(program, res):
    """set operators the class does not define come from collections.abc.Set; of those, __and__ builds its result by iterating the
    *other* operand (facts.ABC_SET_MIXINS_ORDERED_BY_OTHER) — an ordered set has to define it to stay ordered by its own elements"""
    from .. import facts
    cls = program.cls("OrderedSet", "OrderedSet")
    bases = [unparse(b) for b in cls.node.bases]
    if not any("Set" in b for b in bases):
        raise AnalysisError(f"OrderedSet no longer derives from an abstract Set class (bases: {bases})")
    for op, why in sorted(facts.ABC_SET_MIXINS_ORDERED_BY_OTHER.items()):
        m = cls.methods.get(op)
        aliases = [st for st in cls.node.body if isinstance(st, ast.Assign) and unparse(st.targets[0]) == op]
        if m is None and not aliases:
            res.fail("C24-S3", "OrderedSet:OrderedSet", f"inherited-operator-ordered-by-other:{op}",
                     f"OrderedSet does not define {op}; the inherited one ({why}) orders the result by the second operand: "
                     f"OrderedSet('abcd') & OrderedSet('dcxa') iterates d,c,a (and `intersection` is an alias of it), while &=, intersection_update and "
                     f"ordered_intersect give a,c,d", "data_algebra/OrderedSet.py", cls.node.lineno)
            continue
        if m is not None:
            res.analysed(m)
            other = [p for p in m.params() if p != "self"][0]
            g = cfgmod.build(m.node)
            d = depsmod.Deps(g, m.params())
            ok = False
            for r in g.returns():
                v = r.stmt.value
                # ordered_intersect(self, other) / a comprehension iterating self
                for c in ast.walk(v):
                    if isinstance(c, ast.Call) and dotted_name(c.func) in ("ordered_intersect",) and c.args and unparse(c.args[0]) == "self":
                        ok = True
                    if isinstance(c, (ast.ListComp, ast.GeneratorExp)) and "self" in d.roots_at(r, c.generators[0].iter) \
                            and other not in d.roots_at(r, c.generators[0].iter):
                        ok = True
            if ok:
                res.ok("C24-S3", f"{op} builds its result by iterating self")
            else:
                res.fail_at("C24-S3", m, f"operator-not-ordered-by-self:{op}", f"OrderedSet.{op} does not build its result by iterating self")


def _s3b_delegating_operators(program, res):
    """__xor__: the inherited operator hands half of the work to the other operand's own `-` (facts.ABC_SET_MIXINS_DELEGATING_TO_OTHER); an ordered
    set has to walk the other operand itself to keep that half in the other operand's order"""
    from .. import facts
    cls = program.cls("OrderedSet", "OrderedSet")
    for op, why in sorted(facts.ABC_SET_MIXINS_DELEGATING_TO_OTHER.items()):
        m = cls.methods.get(op)
        if m is None:
            res.fail("C24-S3", "OrderedSet:OrderedSet", f"inherited-operator-delegates-to-other:{op}",
                     f"OrderedSet does not define {op}; {why}: OrderedSet([7, 0]) ^ d.keys() (and `symmetric_difference`, an alias) iterates the elements "
                     f"of d in hash order — for column names an order that changes with PYTHONHASHSEED — while ^= and a list operand keep d's order",
                     "data_algebra/OrderedSet.py", cls.node.lineno)
            continue
        res.analysed(m)
        other = [p for p in m.params() if p != "self"][0]
        g = cfgmod.build(m.node)
        d = depsmod.Deps(g, m.params())
        delegated = [b for b in ast.walk(m.node) if isinstance(b, ast.BinOp) and isinstance(b.op, (ast.Sub, ast.BitXor, ast.BitAnd))
                     and other in {n_.id for n_ in ast.walk(b.left) if isinstance(n_, ast.Name)} and "OrderedSet" not in unparse(b.left)]
        walks_self = walks_other = False
        for r in g.stmt_nodes(("stmt", "return")):
            for c in ast.walk(r.stmt):
                if isinstance(c, (ast.ListComp, ast.GeneratorExp)):
                    roots = d.roots_at(r, c.generators[0].iter)
                    if "self" in roots and other not in roots:
                        walks_self = True
                    if other in roots and "self" not in roots:
                        walks_other = True
        # `other` may be rebound to an ordered copy of itself: still the other operand's order
        if delegated and not any(isinstance(st, ast.Assign) and unparse(st.targets[0]) == other and "OrderedSet" in unparse(st.value) for st in ast.walk(m.node)):
            res.fail_at("C24-S3", m, f"operator-delegates-to-other:{op}", f"OrderedSet.{op} computes `{unparse(delegated[0])}` with the other operand's own operator: "
                        f"a keys view or plain set answers with a hash ordered set", delegated[0])
        elif walks_self and walks_other:
            res.ok("C24-S3", f"{op} walks self, then the other operand, itself")
            # OrderedSet(None) is the empty set: an operator that builds an ordered copy of its operand has to refuse what is not iterable first,
            # as the inherited operators (and a plain set) do
            copies = [st for st in m.node.body if isinstance(st, ast.Assign) and unparse(st.targets[0]) == other and "OrderedSet(" in unparse(st.value)]
            if copies:
                before = m.node.body[:m.node.body.index(copies[0])]
                refuses = any(isinstance(st, ast.If) and "Iterable" in unparse(st.test) and st.body and isinstance(st.body[-1], (ast.Return, ast.Raise)) for st in before) \
                    or any(isinstance(st, ast.Assert) and "Iterable" in unparse(st.test) for st in before) \
                    or any(isinstance(c, ast.Call) and dotted_name(c.func) == "iter" and c.args and unparse(c.args[0]) == other for st in before for c in ast.walk(st))
                if refuses:
                    res.ok("C24-S3", f"{op} refuses an operand that is not iterable before copying it")
                else:
                    res.fail_at("C24-S3", m, f"operator-takes-non-iterable:{op}", f"OrderedSet.{op} copies its operand with `{unparse(copies[0])}`: OrderedSet(None) is the empty set, so "
                                f"`s ^ None` answers with a copy of s where a plain set and the inherited operator raise TypeError", copies[0])
        else:
            res.fail_at("C24-S3", m, f"operator-not-ordered-by-operands:{op}", f"OrderedSet.{op} does not build its result by iterating self and then the other operand")


def _s3c_named_aliases(program, res):
    """`symmetric_difference = property(lambda self: self.__xor__)` and its siblings hand out the operator method itself: a `return NotImplemented` inside such an
    operator — the protocol answer of a binary operator — becomes the *result* of the named method (a truthy singleton, no error)"""
    cls = program.cls("OrderedSet", "OrderedSet")
    aliased = {}
    for st in cls.node.body:
        if isinstance(st, ast.Assign) and isinstance(st.value, ast.Call) and dotted_name(st.value.func) == "property" and st.value.args \
                and isinstance(st.value.args[0], ast.Lambda) and isinstance(st.value.args[0].body, ast.Attribute):
            aliased.setdefault(st.value.args[0].body.attr, []).append(unparse(st.targets[0]))
    n = 0
    for op, names in sorted(aliased.items()):
        m = cls.methods.get(op)
        if m is None:
            continue  # inherited: collections.abc answers NotImplemented only through the operator protocol of a *non-iterable*, which the mixins turn into TypeError themselves
        n += 1
        ni = [r for r in ast.walk(m.node) if isinstance(r, ast.Return) and isinstance(r.value, ast.Name) and r.value.id == "NotImplemented"]
        if ni:
            res.fail_at("C24-S3", m, f"named-method-returns-NotImplemented:{op}",
                        f"OrderedSet.{op} returns NotImplemented, and `{names[0]}` is that very method: s.{names[0]}(3) hands back the NotImplemented singleton instead of raising", ni[0])
        else:
            res.ok("C24-S3", f"{op} (also reachable as {', '.join(names)}) raises for an operand it can not take")


def _s5_operand_consumed_once(program, res):
    """every method and helper takes "any iterable" — a generator or another one-shot iterator included, which can be walked once.  The raw argument may
    therefore be consumed (iterated, or handed to set() / OrderedSet() / a helper that iterates it) only once; after `other = set(other)` the name stands for
    the materialised copy.  A second walk of the raw argument finds nothing: `s ^ iter([...])` silently loses every element that is only in the argument"""
    mod = program.module("OrderedSet")
    n = 0
    funcs = [f for f in program.all_functions() if f.module is mod]
    for f in funcs:
        params = [p for p in f.params() if p != "self"]
        vararg = f.node.args.vararg.arg if f.node.args.vararg else None
        for p in params:
            rebinds = [st.lineno for st in ast.walk(f.node) if isinstance(st, ast.Assign) and any(isinstance(t, ast.Name) and t.id == p for t in st.targets)]
            first_rebind = min(rebinds) if rebinds else 10 ** 9
            uses = []
            for nd in ast.walk(f.node):
                if isinstance(nd, ast.Call):
                    callee = dotted_name(nd.func) or ""
                    if callee in ("isinstance", "iter", "len", "type", "repr", "str", "id"):
                        continue
                    for a_ in nd.args:
                        if isinstance(a_, ast.Name) and a_.id == p and nd.lineno <= first_rebind:
                            uses.append(nd)
                elif isinstance(nd, (ast.For, ast.comprehension)):
                    it = nd.iter
                    if isinstance(it, ast.Name) and it.id == p and getattr(nd, "lineno", getattr(it, "lineno", 0)) <= first_rebind:
                        uses.append(it)
            if p == vararg:
                continue
            n += 1
            if len(uses) > 1:
                res.analysed(f)
                res.fail_at("C24-S2", f, f"operand-consumed-twice:{f.name}:{p}",
                            f"{f.qualname} walks its raw argument `{p}` {len(uses)} times (`{unparse(uses[0])[:40]}`, `{unparse(uses[1])[:40]}`): a generator or other one-shot "
                            f"iterator is empty the second time, so the elements that are only in `{p}` are silently dropped", uses[1])
            else:
                res.ok("C24-S2", f"{f.qualname}: the raw argument `{p}` is consumed at most once", nontrivial=False)
    res.expect_count("C24-S2", "iterable parameters inspected", n, 15)


def _s4_relations(program, res):
    """<=, <, >=, > (issubset / issuperset are aliases) accept any iterable like set's methods do: membership has to be tested in a
    materialised set, not with `in` on the raw argument (an iterator is consumed, a string matches substrings, a Series looks at its index)"""
    cls = program.cls("OrderedSet", "OrderedSet")
    for mname in ("__le__", "__lt__", "__gt__"):
        m = cls.methods.get(mname)
        if m is None:
            raise AnalysisError(f"anchor vanished: OrderedSet.{mname}")
        res.analysed(m)
        other = [p for p in m.params() if p != "self"][0]
        raw_in = [c for c in ast.walk(m.node) if isinstance(c, ast.Compare) and len(c.ops) == 1 and isinstance(c.ops[0], (ast.In, ast.NotIn))
                  and isinstance(c.comparators[0], ast.Name) and c.comparators[0].id == other]
        raw_ne = [c for c in ast.walk(m.node) if isinstance(c, ast.Compare) and len(c.ops) == 1 and isinstance(c.ops[0], (ast.NotEq, ast.Eq))
                  and {unparse(c.left), unparse(c.comparators[0])} == {"self", other}]
        rebinds = any(isinstance(st, ast.Assign) and unparse(st.targets[0]) == other for st in ast.walk(m.node))
        if (raw_in or raw_ne) and not rebinds:
            what = raw_in[0] if raw_in else raw_ne[0]
            res.fail_at("C24-S4", m, f"relation-on-raw-argument:{mname}",
                        f"OrderedSet.{mname} evaluates `{unparse(what)}` on the argument as given: OrderedSet([2,1]).issubset(iter([1,2])) is False (the iterator is consumed "
                        f"out of order), OrderedSet(['ab']).issubset('abc') is True (substring), and OrderedSet([1,2]) < [1,2] is True (a list is never == a set)", what)
        else:
            res.ok("C24-S4", f"{mname} compares against a materialised set of the argument")


def run(program, res, tier):
    res.rule("C24-S1", "ordered helpers take their order from the first argument, then the second")
    res.rule("C24-S2", "OrderedSet.add only ever inserts; one insertion-ordered field backs every observer")
    res.rule("C24-S3", "operators inherited from collections.abc.Set that order by the other operand are overridden")
    res.rule("C24-S4", "subset / superset relations test membership in a materialised set")
    _s3_inherited_operators(program, res)
    _s3b_delegating_operators(program, res)
    _s3c_named_aliases(program, res)
    _s5_operand_consumed_once(program, res)
    _s4_relations(program, res)
    _check_filter_helper(program, res, "ordered_intersect", ast.In)
    _check_filter_helper(program, res, "ordered_diff", ast.NotIn)
    ou = program.func("OrderedSet", "ordered_union")
    res.analysed(ou)
    a, b = ou.params()[:2]
    _check_union_like(res, ou, f"first argument `{a}`",
                      lambda n, txt: n.kind == "stmt" and isinstance(n.stmt, ast.Assign) and f"OrderedSet({a})" in txt, b)
    cls = program.cls("OrderedSet", "OrderedSet")
    un = cls.methods.get("union")
    if un is None:
        raise AnalysisError("anchor vanished: OrderedSet.union")
    res.analysed(un)
    _check_union_like(res, un, "self",
                      lambda n, txt: n.kind == "iter" and "self.impl" in txt or (n.kind == "iter" and txt.strip() == "self"),
                      [p for p in un.params() if p != "self"][0])
    # ---- S2
    init = cls.methods.get("__init__")
    add = cls.methods.get("add")
    if init is None or add is None:
        raise AnalysisError("anchor vanished: OrderedSet.__init__/add")
    res.analysed(init, add)
    creates = [n for n in ast.walk(init.node) if isinstance(n, ast.Assign) and unparse(n.targets[0]) == "self.impl"]
    if len(creates) == 1 and unparse(creates[0].value) in ("collections.OrderedDict()", "OrderedDict()", "dict()", "{}"):
        res.ok("C24-S2", f"impl is created as an insertion-ordered mapping ({unparse(creates[0].value)})")
    else:
        res.fail_at("C24-S2", init, "impl-kind", f"self.impl is not created as an (ordered) dict: {[unparse(c.value) for c in creates]}")
    eff = _impl_effects(add.node)
    kinds = [k for k, _ in eff]
    if kinds == ["store"]:
        st = eff[0][1]
        key = unparse(st.slice)
        params = [p for p in add.params() if p != "self"]
        if params and key == params[0]:
            res.ok("C24-S2", "add has exactly one effect: self.impl[elem] = ... (re-adding keeps the first position)")
        else:
            res.fail_at("C24-S2", add, "add-key", f"add stores under key `{key}`, not its argument")
    else:
        res.fail_at("C24-S2", add, "add-effects",
                    f"add has effects {kinds} on self.impl; anything but a single keyed store (delete, pop, move_to_end, "
                    f"re-creation) changes the position of an element that is already present")
    for mname, want in (("__iter__", "self.impl"), ("__contains__", "self.impl"), ("__len__", "self.impl"),
                        ("discard", "self.impl"), ("copy", "self.impl")):
        m = cls.methods.get(mname)
        if m is None:
            raise AnalysisError(f"anchor vanished: OrderedSet.{mname}")
        res.analysed(m)
        txt = unparse(m.node)
        reads = {n.attr for n in ast.walk(m.node) if isinstance(n, ast.Attribute) and isinstance(n.value, ast.Name) and n.value.id == "self"
                 and not isinstance(getattr(n, "ctx", None), ast.Store)}
        data_fields = {r for r in reads if r not in cls.methods and r != "impl" and not r.startswith("__")}
        if "impl" in reads and not data_fields:
            res.ok("C24-S2", f"{mname} uses the single backing field self.impl")
        else:
            res.fail_at("C24-S2", m, f"{mname}:backing-field",
                        f"{mname} reads {sorted(reads)}: a second source of truth besides self.impl")
    # ---- copy protocol: the elements live in an instance attribute holding a mutable mapping, so the default protocol of the copy module
    # (object.__reduce_ex__: a new object with a shallow copy of __dict__) hands out a second OrderedSet on the same mapping
    def _ctor_call(v):
        return isinstance(v, ast.Call) and (unparse(v.func) in ("OrderedSet", "type(self)", "self.__class__"))

    def _sibling_call(v, names):
        return isinstance(v, ast.Call) and isinstance(v.func, ast.Attribute) and unparse(v.func.value) == "self" and v.func.attr in names and not v.args

    cm = cls.methods.get("__copy__")
    if cm is None:
        res.fail_at("C24-S2", cls.methods["copy"], "copy-protocol:__copy__-missing",
                    "OrderedSet keeps its elements in the instance attribute self.impl and defines no __copy__: copy.copy(s) falls back to the default protocol, "
                    "which builds a new object around a shallow copy of __dict__, i.e. around the same OrderedDict — an add / discard / update on either object "
                    "changes both, where a copied plain set is independent")
    else:
        res.analysed(cm)
        built = False
        bad = None
        for mm in (cm, cls.methods["copy"]):
            rets = [n for n in ast.walk(mm.node) if isinstance(n, ast.Return)]
            if not rets:
                bad = (mm, None)
            for r_ in rets:
                if _ctor_call(r_.value) and r_.value.args:
                    built = True
                elif _sibling_call(r_.value, {"copy", "__copy__"} - {mm.name}):
                    pass
                else:
                    bad = (mm, r_)
        if bad is not None or not built:
            mm, r_ = bad if bad is not None else (cm, None)
            res.fail_at("C24-S2", mm, f"copy-protocol:{mm.name}-not-fresh",
                        f"{mm.name} returns `{unparse(r_.value) if r_ is not None and r_.value is not None else None}`: a copy has to be a new OrderedSet built from the elements "
                        f"(the constructor re-inserts them into a mapping of its own)", r_ if r_ is not None else mm.node)
        else:
            res.ok("C24-S2", "copy() and __copy__ (the copy module's hook) both return a new OrderedSet built from the elements; the default shallow copy of __dict__ is never used")
    it = cls.methods["__iter__"]
    r = [n for n in ast.walk(it.node) if isinstance(n, ast.Return)]
    if r and any(w in unparse(r[0].value) for w in ("reversed", "sorted", "set(")):
        res.fail_at("C24-S2", it, "__iter__:order", f"__iter__ returns `{unparse(r[0].value)}`: not insertion order")
    # discard only removes
    dm = cls.methods["discard"]
    if [k for k, _ in _impl_effects(dm.node)] == ["pop"] or [k for k, _ in _impl_effects(dm.node)] == ["del"]:
        res.ok("C24-S2", "discard only removes the element")
    else:
        res.fail_at("C24-S2", dm, "discard-effects", f"discard has effects {[k for k, _ in _impl_effects(dm.node)]} on self.impl")
