"""C05 every catalogued method behaves as documented on every backend that claims it — structural clauses."""
from __future__ import annotations

import ast
import re
import itertools
from typing import Dict, List, Optional, Set, Tuple

from .. import facts, sql3vl, sqlexpr
from ..index import AnalysisError, dotted_name, unparse

EXPLANATION = (
    "S1 catalogue ⇒ implementation: for every row of op_catalog.methods_table and every backend it marks 'y' "
    "the method resolves to an implementation — SQL dialects through the modelled lookup order of expr_to_sql "
    "(replacements → formatters → inline operator → OP(args); the model is checked against expr_to_sql's shape) "
    "into a formatter function, an inline SQL operator, or a function name that is a built-in of the dialect "
    "or (SQLite) registered in prepare_connection with a python callable of the right meaning; Pandas through "
    "impl_map, else pandas/numpy names (frozen list), window/aggregate rows through groupby transform names. "
    "Where a wrong-but-valid spelling exists (LOG vs LN, STDDEV_POP vs STDDEV_SAMP) a meaning table fixes the "
    "admissible spellings. S2 null-semantics truth tables: the SQL templates of maximum, minimum, fmax, fmin, "
    "if_else, where, coalesce, is_null are folded from the formatter source and evaluated with a three-valued "
    "SQL evaluator over {NULL, lo, hi}^n; every row must equal the documented contract (which is itself "
    "cross-checked against the Term docstrings). S3 contract vs identity: methods with different null contracts "
    "must not share one implementation in a back end, and a method bound to a third-party primitive must match "
    "that primitive's null behaviour. Not decided: numerical meaning of the other methods, NaN/inf corners."
)

SQL_DIALECTS = [("SQLite", "SQLiteModel"), ("PostgreSQL", "PostgreSQLModel")]
# formatter functions that use a caveated form on purpose (function name -> forms), with the reason next to it
FORM_EXEMPT = {
    "_db_maximum_expr": {("SQLiteModel", "MAX", 2)}, "_db_minimum_expr": {("SQLiteModel", "MAX", 2)},  # decided by the truth tables of S2
    "_db_fmax_expr": {("SQLiteModel", "MAX", 2)}, "_db_fmin_expr": {("SQLiteModel", "MAX", 2)},
}


def sqlite_registered(program) -> Dict[str, str]:
    """name -> python callable text, from SQLiteModel.prepare_connection"""
    pc = program.method("SQLite", "SQLiteModel", "prepare_connection", inherited=False)
    out: Dict[str, str] = {}
    dicts: Dict[str, ast.Dict] = {}
    for st in ast.walk(pc.node):
        if isinstance(st, ast.Assign) and len(st.targets) == 1 and isinstance(st.targets[0], ast.Name) and isinstance(st.value, ast.Dict):
            dicts[st.targets[0].id] = st.value
    for st in ast.walk(pc.node):
        if isinstance(st, ast.Call) and isinstance(st.func, ast.Attribute) and st.func.attr in ("create_function", "create_aggregate", "create_window_function"):
            if st.args and isinstance(st.args[0], ast.Constant):
                out[st.args[0].value] = unparse(st.args[-1])
    for loop in [n for n in ast.walk(pc.node) if isinstance(n, ast.For)]:
        it = unparse(loop.iter)
        for dn, dnode in dicts.items():
            if it == f"{dn}.items()" and any(isinstance(c, ast.Call) and isinstance(c.func, ast.Attribute) and c.func.attr == "create_function"
                                             for c in ast.walk(loop)):
                for k, v in zip(dnode.keys, dnode.values):
                    if isinstance(k, ast.Constant) and k.value not in out:
                        # functools.partial(_wrap_scalar_fn, math.acos) -> math.acos
                        txt = unparse(v)
                        if isinstance(v, ast.Call) and dotted_name(v.func) == "functools.partial" and len(v.args) >= 2:
                            txt = unparse(v.args[1])
                        out[k.value] = txt
    if len(out) < 40:
        raise AnalysisError(f"only {len(out)} SQLite function registrations found (60+ confirmed on the pinned tree)")
    return out


def _registration_callees(program, py: str):
    """the math. / numpy. functions a registered callable computes with, and the int-valued one it returns unconverted (if any):
    `math.floor` itself, or a helper of the SQLite module whose body is looked into"""
    int_fns = facts.PYTHON_INT_VALUED_OF_FLOAT
    mod = program.module("SQLite")
    helper = next((f for f in mod.tree.body if isinstance(f, ast.FunctionDef) and f.name == py), None)
    if helper is None:
        return {py}, (py if py in int_fns else None)
    callees = {dotted_name(c.func) for c in ast.walk(helper) if isinstance(c, ast.Call) and (dotted_name(c.func) or "").split(".")[0] in ("math", "numpy", "np")}
    callees -= {"math.isinf", "math.isnan", "math.isfinite", "numpy.isnan", "numpy.isinf"}  # guards, not the computation
    # Python's built-in round (one argument: half to even, like numpy.round)
    if any(isinstance(c, ast.Call) and isinstance(c.func, ast.Name) and c.func.id == "round" and len(c.args) == 1 for c in ast.walk(helper)):
        callees.add("round")
    parents = {}
    for n in ast.walk(helper):
        for ch in ast.iter_child_nodes(n):
            parents[ch] = n
    raw = None
    for c in ast.walk(helper):
        if isinstance(c, ast.Call) and dotted_name(c.func) in int_fns:
            p_, child, safe = parents.get(c), c, False
            while p_ is not None and not safe:
                if isinstance(p_, ast.Call) and dotted_name(p_.func) == "float":
                    safe = True
                elif isinstance(p_, ast.IfExp) and child is p_.body and "isinstance" in unparse(p_.test) and "int" in unparse(p_.test):
                    safe = True
                elif isinstance(p_, ast.If) and child in p_.body and "isinstance" in unparse(p_.test) and "int" in unparse(p_.test):
                    safe = True
                child, p_ = p_, parents.get(p_)
            if not safe:
                raw = dotted_name(c.func)
    return callees, raw


def term_methods(program) -> Dict[str, Dict]:
    """op -> info (inline flag, docstring) from the Term methods that build expressions"""
    out: Dict[str, Dict] = {}
    cls = program.cls("expr_rep", "Term")
    for m in cls.methods.values():
        for c in ast.walk(m.node):
            if isinstance(c, ast.Call) and isinstance(c.func, ast.Attribute) and c.func.attr in (
                    "__op_expr__", "__rop_expr__", "__uop_expr__", "__triop_expr__") and c.args and isinstance(c.args[0], ast.Constant):
                op = c.args[0].value
                inline = {"__op_expr__": True, "__rop_expr__": True, "__uop_expr__": False, "__triop_expr__": False}[c.func.attr]
                for kw in c.keywords:
                    if kw.arg == "inline" and isinstance(kw.value, ast.Constant):
                        inline = bool(kw.value.value)
                doc = ast.get_docstring(m.node) or ""
                out.setdefault(op, {"inline": inline, "doc": doc, "method": m.name})
    return out


_FN_TOKEN = None


def _template_vocab_problems(fn, dialect, vocab, registered_override=None):
    """function names and CAST types in the literal text of a formatter's templates must belong to the dialect"""
    import re
    out = []
    types = facts.POSTGRESQL_TYPES if dialect.name == "PostgreSQLModel" else None
    for t in sqlexpr.fold_function(fn):
        text = sqlexpr.render(t)
        lit = "".join(v if k == "lit" else " § " for k, v in t)
        for m in re.finditer(r"([A-Za-z_][A-Za-z_0-9]*)\s*\(", lit):
            name = m.group(1)
            if name.lower() in facts.SQL_SYNTAX_WORDS:
                continue
            if name.lower() not in vocab:
                out.append((name, f"{name}(...) is neither a built-in of {dialect.name} nor registered for it", text))
                continue
            # argument count of this call in the template (placeholders are single arguments)
            depth, nargs, i, seen_any = 0, 0, m.end(), False
            while i < len(lit):
                ch = lit[i]
                if ch == "(":
                    depth += 1
                elif ch == ")":
                    if depth == 0:
                        break
                    depth -= 1
                elif ch == "," and depth == 0:
                    nargs += 1
                elif not ch.isspace():
                    seen_any = True
                i += 1
            nargs = nargs + 1 if seen_any else 0
            why = facts.SQL_FUNCTION_FORM_CAVEATS.get((dialect.name, name.upper(), nargs))
            if why is not None and nargs == 1 and registered_override is not None and name.lower() in registered_override:
                why = None  # a registered user function of that name and arity replaces the built-in (what it is registered as is decided separately)
            if why is not None and (dialect.name, name.upper(), nargs) not in FORM_EXEMPT.get(getattr(fn, "name", ""), set()):
                out.append((f"{name.upper()}/{nargs}", why, text))
        if types is not None:
            for m in re.finditer(r"\bAS\s+([A-Za-z][A-Za-z0-9 ]*?)\s*\)", lit):
                ty = m.group(1).strip().upper()
                if ty not in types:
                    out.append((ty, f"CAST(... AS {ty}) names a type that {dialect.name} does not have", text))
            # configured type names
            for k, v in t:
                if k == "opaque" and v.endswith(".float_type"):
                    ft = dialect.const_kwarg("float_type")
                    if ft is not None and str(ft).upper() not in types:
                        out.append((str(ft), f"configured float_type {ft!r} is not a {dialect.name} type", text))
    return out


def _sql_s1(program, res, dialect: sqlexpr.Dialect, rows, registered, tmeth):
    model = dialect.name
    vocab = facts.SQLITE_BUILTINS | {k.lower() for k in registered} if model == "SQLiteModel" else facts.POSTGRESQL_BUILTINS
    meaning = facts.MEANING.get(model, {})
    n = 0
    for r in rows:
        if r.get(model) != "y":
            continue
        n += 1
        op = r["op"]
        kind, info = dialect.resolve(op)
        inst = f"{model}: {op} [{r['op_class']}] `{r['expression']}`"
        if kind == "formatter":
            fn = dialect.formatter_func(info)
            if fn is None:
                res.fail("C05-S1", f"{dialect.module.name}:{model}", f"catalog:{op}:formatter",
                         f"{inst} resolves to a formatter entry `{unparse(info[1])}` that is not a function", dialect.module.relpath, 0)
            else:
                probs = _template_vocab_problems(fn, dialect, vocab, registered_override={k for k, v_ in registered.items() if k in facts.SQLITE_REGISTRATION_MEANING
                                                                                            and _registration_callees(program, v_)[0] and _registration_callees(program, v_)[0] <= facts.SQLITE_REGISTRATION_MEANING[k]}
                                                 if model == "SQLiteModel" else None)
                cavs = facts.SQL_TEMPLATE_CAVEATS.get((model, op))
                if cavs is not None and not probs:
                    import re as _re
                    if isinstance(cavs, tuple):
                        cavs = [cavs]
                    for t_ in sqlexpr.fold_function(fn):
                        text_ = sqlexpr.render(t_)
                        # configured names of the dialect (dbmodel.string_type, …) are spelled out before the forms are matched
                        for k_, v_ in t_:
                            if k_ == "opaque" and v_.startswith("dbmodel.") and dialect.const_kwarg(v_.split(".", 1)[1]) is not None:
                                text_ = text_.replace(f"⟨{v_}⟩", str(dialect.const_kwarg(v_.split(".", 1)[1])))
                        for cav in cavs:
                            if not probs and _re.search(cav[0], text_) and not _re.search(cav[1], text_):
                                probs = [(f"{op}:form", cav[2], text_)]
                if probs:
                    res.fail("C05-S1", f"{info[0].name}:{getattr(fn, 'name', 'lambda')}", f"catalog:{op}:template:{probs[0][0]}",
                             f"{inst} is formatted by {getattr(fn, 'name', 'lambda')} into `{probs[0][2][:80]}`; {probs[0][1]}",
                             info[0].relpath, getattr(fn, "lineno", 0))
                else:
                    res.ok("C05-S1", inst, {"formatter": getattr(fn, "name", "lambda")})
            continue
        name = info
        if name in facts.SQL_INLINE_OPERATORS:
            inl = tmeth.get(op, {}).get("inline")
            res.ok("C05-S1", inst, {"operator": name, "inline": inl})
            continue
        if name.lower() not in vocab:
            res.fail("C05-S1", f"{dialect.module.name}:{model}", f"catalog:{op}:unknown-function",
                     f"{inst} is emitted as {name}(...), which is neither a built-in of the dialect nor registered by "
                     f"prepare_connection: the query fails although the catalogue claims support", dialect.module.relpath, 0)
            continue
        if op in meaning and name not in meaning[op]:
            res.fail("C05-S1", f"{dialect.module.name}:{model}", f"catalog:{op}:meaning",
                     f"{inst} is emitted as {name}(...); the documented meaning of `{op}` is spelled {sorted(meaning[op])} in this "
                     f"dialect ({name} is valid SQL but computes something else)", dialect.module.relpath, 0)
            continue
        if model == "SQLiteModel" and name.lower() in registered and op in facts.SQLITE_REGISTRATION_MEANING:
            py = registered[name.lower()]
            callees, int_valued = _registration_callees(program, py)
            if not callees or not callees <= facts.SQLITE_REGISTRATION_MEANING[op]:
                res.fail("C05-S1", "SQLite:SQLiteModel.prepare_connection", f"registration:{name.lower()}",
                         f"SQLite function `{name.lower()}` (the realisation of `{op}`) is registered as {py} (computing with {sorted(callees)}), expected one of "
                         f"{sorted(facts.SQLITE_REGISTRATION_MEANING[op])}", "data_algebra/SQLite.py", 0)
                continue
        res.ok("C05-S1", inst, {"function": name, "source": "registered" if (model == "SQLiteModel" and name.lower() in registered) else "built-in"})
    if model == "SQLiteModel":
        # registered functions that templates (not only catalogue rows) name: what each is registered as, decided once per name
        for rn in sorted(set(registered) & set(facts.SQLITE_REGISTRATION_MEANING)):
            callees, int_valued = _registration_callees(program, registered[rn])
            if not callees or not callees <= facts.SQLITE_REGISTRATION_MEANING[rn]:
                res.fail("C05-S1", "SQLite:SQLiteModel.prepare_connection", f"registration:{rn}",
                         f"SQLite function `{rn}` is registered as {registered[rn]} (computing with {sorted(callees)}), expected one of "
                         f"{sorted(facts.SQLITE_REGISTRATION_MEANING[rn])}", "data_algebra/SQLite.py", 0)
            elif int_valued:
                res.fail("C05-S1", "SQLite:SQLiteModel.prepare_connection", f"registration-integer-valued:{rn}",
                         f"SQLite function `{rn}` hands back the Python int of {int_valued} also for a REAL argument: the column turns INTEGER and a following `/` "
                         f"is SQLite's integer division — x.floor() / 2 for x = 1.5, 3.5 gives 0, 1 on SQLite and 0.5, 1.5 on Pandas (numpy keeps the float type)",
                         "data_algebra/SQLite.py", 0)
            else:
                res.ok("C05-S1", f"SQLite function `{rn}` is registered as {registered[rn]}: the catalogued meaning, float in float out")
    res.expect_count("C05-S1", f"catalogue rows marked y for {model}", n, 80)


def _pandas_s1(program, res, rows):
    pim = program.method("pandas_base", "PandasModelBase", "_populate_impl_map", inherited=False)
    dicts = [n for n in ast.walk(pim.node) if isinstance(n, ast.Dict)]
    if not dicts:
        raise AnalysisError("anchor vanished: impl_map dict literal in _populate_impl_map")
    impl = {k.value: v for k, v in zip(dicts[0].keys, dicts[0].values) if isinstance(k, ast.Constant)}
    init = program.method("pandas_base", "PandasModelBase", "__init__", inherited=False)
    tmap = {}
    for st in ast.walk(init.node):
        if isinstance(st, ast.Assign) and unparse(st.targets[0]) == "self.transform_op_map" and isinstance(st.value, ast.Dict):
            tmap = {k.value: v.value for k, v in zip(st.value.keys, st.value.values) if isinstance(k, ast.Constant) and isinstance(v, ast.Constant)}
    ext = program.method("pandas_base", "PandasModelBase", "_extend_step", inherited=False)
    zero_ops: Set[str] = set()
    # the local that holds the operator name with its leading underscore stripped:  zero_op = opk.op[1:]
    zero_vars = {st.targets[0].id for st in ast.walk(ext.node) if isinstance(st, ast.Assign) and len(st.targets) == 1 and isinstance(st.targets[0], ast.Name)
                 and unparse(st.value).endswith(".op[1:]")} or {"zero_op"}
    for c in ast.walk(ext.node):
        if isinstance(c, ast.Compare) and isinstance(c.left, ast.Name) and c.left.id in zero_vars and len(c.ops) == 1:
            if isinstance(c.ops[0], ast.In) and isinstance(c.comparators[0], (ast.Set, ast.List, ast.Tuple)):
                zero_ops |= {e.value for e in c.comparators[0].elts if isinstance(e, ast.Constant)}
            elif isinstance(c.ops[0], ast.Eq) and isinstance(c.comparators[0], ast.Constant) and isinstance(c.comparators[0].value, str):
                zero_ops.add(c.comparators[0].value)
    n = 0
    for r in rows:
        if r.get("Pandas") != "y":
            continue
        n += 1
        op, cls = r["op"], r["op_class"]
        inst = f"Pandas: {op} [{cls}] `{r['expression']}`"
        if cls in ("e", "u"):
            if op in impl:
                res.ok("C05-S1", inst, {"impl_map": unparse(impl[op])[:50]})
            elif op in ("uniform", "_uniform"):
                res.ok("C05-S1", inst, {"special": "numpy.random.uniform"})
            elif op in facts.PANDAS_SERIES_METHODS or op in facts.NUMPY_ELEMENTWISE:
                res.ok("C05-S1", inst, {"fallthrough": "pandas.Series method" if op in facts.PANDAS_SERIES_METHODS else "numpy"})
            else:
                res.fail_at("C05-S1", pim, f"catalog:{op}:pandas",
                            f"{inst} is neither in impl_map nor a pandas Series / numpy name the executor falls through to: "
                            f"act_on_expression raises KeyError although the catalogue claims support")
        else:
            base = op[1:] if op.startswith("_") else op
            mapped = tmap.get(op, op)
            if op.startswith("_") and base in zero_ops:
                res.ok("C05-S1", inst, {"zero-argument window op": base})
            elif mapped in facts.PANDAS_GROUPBY_TRANSFORM or base in facts.PANDAS_GROUPBY_TRANSFORM:
                res.ok("C05-S1", inst, {"groupby": mapped})
            else:
                res.fail_at("C05-S1", ext, f"catalog:{op}:pandas-window",
                            f"{inst} is not a pandas groupby transform/agg name (after transform_op_map) nor a handled zero-argument op")
    res.expect_count("C05-S1", "catalogue rows marked y for Pandas", n, 100)
    return impl


# ---------------------------------------------------------------------------------------------- S2
def _contract(op: str, vals: Tuple) -> object:
    N = None
    if op in ("maximum", "minimum"):
        x, y = vals
        if x is N or y is N:
            return N
        return max(x, y) if op == "maximum" else min(x, y)
    if op in ("fmax", "fmin"):
        x, y = vals
        if x is N:
            return y
        if y is N:
            return x
        return max(x, y) if op == "fmax" else min(x, y)
    if op == "if_else":
        c, x, y = vals
        return N if c is N else (x if c else y)
    if op == "where":
        c, x, y = vals
        return x if c is True else y
    if op == "coalesce":
        x, y = vals
        return x if x is not N else y
    if op == "is_null":
        return vals[0] is N
    raise KeyError(op)


DOMAINS = {
    "maximum": [(None, 1.0, 2.0)] * 2, "minimum": [(None, 1.0, 2.0)] * 2, "fmax": [(None, 1.0, 2.0)] * 2, "fmin": [(None, 1.0, 2.0)] * 2,
    "if_else": [(None, True, False), (None, 1.0), (None, 2.0)], "where": [(None, True, False), (None, 1.0), (None, 2.0)],
    "coalesce": [(None, 1.0, 2.0)] * 2, "is_null": [(None, 1.0)],
}


MUST_DECIDE = {"maximum", "minimum", "fmax", "fmin", "if_else", "where", "is_null"}


def _s2(program, res, dialects: List[sqlexpr.Dialect]):
    n_abst_before = sum(1 for o in res.obligations if o["status"] == "abstained")
    seen_templates = {}
    for d in dialects:
        for op, dom in DOMAINS.items():
            kind, info = d.resolve(op)
            inst = f"{d.name}: {op}"
            if kind != "formatter":
                res.abstain("C05-S2", inst, f"emitted as plain {info}(...): null behaviour is the dialect's")
                continue
            fn = d.formatter_func(info)
            if fn is None:
                continue
            fname = getattr(fn, "name", "lambda")
            templates = sqlexpr.fold_function(fn)
            if len(templates) != 1:
                res.abstain("C05-S2", inst, f"{fname} has {len(templates)} return templates")
                continue
            text = sqlexpr.render(templates[0])
            if any(k == "opaque" for k, _ in templates[0]):
                res.abstain("C05-S2", inst, f"template of {fname} has non-literal pieces: {text[:80]}")
                continue
            try:
                tree = sql3vl.parse(text)
                bad = []
                for vals in itertools.product(*dom):
                    env = dict(zip(("X", "Y", "Z"), vals))
                    got = sql3vl.ev(tree, env)
                    want = _contract(op, vals)
                    if got != want or (got is None) != (want is None):
                        bad.append((vals, got, want))
            except sql3vl.Opaque as e:
                res.abstain("C05-S2", inst, f"template of {fname} not interpretable: {e}")
                continue
            mod = info[0]
            if bad:
                (vals, got, want) = bad[0]
                res.fail("C05-S2", f"{mod.name}:{fname}", f"truth-table:{op}",
                         f"{inst}: template `{text}` evaluates {op}{_fmt(vals)} to {_fmt1(got)}; the documented result is {_fmt1(want)} "
                         f"({len(bad)} of {len(list(itertools.product(*dom)))} rows of the null truth table differ)",
                         mod.relpath, getattr(fn, "lineno", 0), facts={"template": text, "rows": [(str(a), str(b), str(c)) for a, b, c in bad]})
            else:
                res.ok("C05-S2", inst, {"template": text, "rows": len(list(itertools.product(*dom)))})


def _require_decided(res):
    if res.findings:
        return  # a violation is already established; an undecided template does not hide anything
    for o in res.obligations:
        if o["rule"] == "C05-S2" and o["status"] == "abstained":
            d, op = o["instance"].split(": ")
            if op in MUST_DECIDE and d in ("SQLiteModel", "PostgreSQLModel"):
                raise AnalysisError(f"C05-S2 could not decide the null truth table of {op} for {d} ({o['facts']}): "
                                    f"an abstention here would hide a wrong template")


def _fmt1(v):
    return "NULL" if v is None else str(v)


def _fmt(vals):
    return "(" + ", ".join(_fmt1(v) for v in vals) + ")"


# ---------------------------------------------------------------------------------------------- S3
def _s3(program, res, impl, tmeth):
    # documented contracts agree with the frozen ones
    for op, want in facts.NULL_CONTRACT.items():
        info = tmeth.get(op)
        if info is None:
            raise AnalysisError(f"anchor vanished: Term.{op}")
        doc = info["doc"].lower()
        if any(k in doc for k in facts.DOC_KEYWORDS[want]):
            res.ok("C05-S3", f"Term.{op} is documented to {want} missing values")
        else:
            other = "ignore" if want == "propagate" else "propagate"
            if any(k in doc for k in facts.DOC_KEYWORDS[other]):
                res.fail("C05-S3", f"expr_rep:Term.{op}", f"doc-contract:{op}", f"Term.{op} is documented to {other} missing values; the property fixes {want}",
                         "data_algebra/expr_rep.py", 0)
            else:
                res.abstain("C05-S3", f"Term.{op} docstring", "does not state its null behaviour")
    # Pandas: not overridden in impl_map, so numpy.<op> decides
    for op, want in facts.NULL_CONTRACT.items():
        if op in impl:
            txt = unparse(impl[op])
            prim = [k for k in facts.NULL_SEMANTICS if k.split(".")[1] in txt and k.startswith("numpy")]
            if prim and facts.NULL_SEMANTICS[prim[0]] != want:
                res.fail("C05-S3", "pandas_base:PandasModelBase._populate_impl_map", f"pandas:{op}",
                         f"Pandas binds `{op}` to {txt}, which {facts.NULL_SEMANTICS[prim[0]]}s missing values; documented: {want}",
                         "data_algebra/pandas_base.py", 0)
            elif prim and facts.NULL_SEMANTICS_MASKED.get(prim[0], want) != want and not _refills_missing(program, impl[op]):
                res.fail("C05-S3", "pandas_base:PandasModelBase._populate_impl_map", f"pandas-masked:{op}",
                         f"Pandas binds `{op}` to {txt}: on a nullable (masked) column {prim[0]} {facts.NULL_SEMANTICS_MASKED[prim[0]]}s <NA>; documented: {want}", "data_algebra/pandas_base.py", 0)
            else:
                res.ok("C05-S3", f"Pandas {op}: impl_map entry {txt[:40]}")
        else:
            sem = facts.NULL_SEMANTICS.get(f"numpy.{op}")
            if sem == want and facts.NULL_SEMANTICS_MASKED.get(f"numpy.{op}", want) != want:
                res.fail("C05-S3", "pandas_base:PandasModelBase.act_on_expression", f"pandas-masked:{op}",
                         f"Pandas resolves `{op}` to the bare ufunc numpy.{op}: for NaN it {sem}s the missing value, but a pandas nullable (masked) column carries <NA> through every "
                         f"ufunc — pd.array([5, None, 1], 'Int64').{op}(2) is <NA> in the second row on Pandas and 2 on SQLite / Polars (documented: {want} missing)",
                         "data_algebra/pandas_base.py", 0)
            elif sem == want:
                res.ok("C05-S3", f"Pandas {op}: falls through to numpy.{op}, which {sem}s missing values")
            else:
                res.fail("C05-S3", "pandas_base:PandasModelBase.act_on_expression", f"pandas:{op}",
                         f"Pandas resolves `{op}` to numpy.{op} ({sem}); documented: {want}", "data_algebra/pandas_base.py", 0)
    # Polars: structurally identical implementations for differently documented methods; primitive semantics
    pm = program.method("polars_model", "PolarsModel", "__init__", inherited=False)
    pol = {}
    for st in ast.walk(pm.node):
        if isinstance(st, ast.Assign) and unparse(st.targets[0]) == "self.impl_map_arbitrary_arity" and isinstance(st.value, ast.Dict):
            pol = {k.value: v for k, v in zip(st.value.keys, st.value.values) if isinstance(k, ast.Constant)}
    if not pol:
        raise AnalysisError("anchor vanished: PolarsModel.impl_map_arbitrary_arity")
    for op, want in facts.NULL_CONTRACT.items():
        if op not in pol:
            res.abstain("C05-S3", f"Polars {op}", "not in impl_map_arbitrary_arity")
            continue
        txt = unparse(pol[op])
        prim = [k for k in facts.NULL_SEMANTICS if k.startswith("pl.") and k in txt]
        from .c03 import propagates_nulls
        if prim and want == "propagate" and propagates_nulls(pol[op]):
            res.ok("C05-S3", f"Polars {op}: null when any operand is null, else {prim[0]}: documented '{want}'")
            continue
        if prim and facts.NULL_SEMANTICS[prim[0]] != want:
            res.fail("C05-S3", "polars_model:PolarsModel.__init__", f"polars:{op}",
                     f"Polars binds `{op}` to `{txt}`; {prim[0]} {facts.NULL_SEMANTICS[prim[0]]}s nulls but `{op}` is documented to "
                     f"{want} them (and Pandas does): x.{op}(y) with a null operand returns the other operand instead of null",
                     "data_algebra/polars_model.py", getattr(pol[op], "lineno", 0))
        else:
            res.ok("C05-S3", f"Polars {op}: `{txt[:50]}` matches the documented null behaviour")
    for a, b in (("maximum", "fmax"), ("minimum", "fmin")):
        if a in pol and b in pol and unparse(pol[a]) == unparse(pol[b]):
            res.notes.append(f"Polars binds {a} and {b} to the same implementation although their null contracts differ (reported per method above)")
    res.assumptions.append("null behaviour of numpy.maximum/minimum/fmax/fmin and polars max_horizontal/min_horizontal (sa/facts.py NULL_SEMANTICS)")


def _refills_missing(program, entry) -> bool:
    """the impl_map entry goes through a method of the model that fills the cells the ufunc left missing (fillna / combine_first / where)"""
    for c in ast.walk(entry):
        if isinstance(c, ast.Call) and isinstance(c.func, ast.Attribute) and isinstance(c.func.value, ast.Name) and c.func.value.id == "self":
            try:
                h = program.method("pandas_base", "PandasModelBase", c.func.attr, inherited=False)
            except Exception:
                continue
            if any(isinstance(x, ast.Call) and isinstance(x.func, ast.Attribute) and x.func.attr in ("fillna", "combine_first", "where", "mask") for x in ast.walk(h.node)):
                return True
    return False


def sql_floor_division_rule(program, res, rule="C05-S1", dialects=(("SQLite", "SQLiteModel"), ("PostgreSQL", "PostgreSQLModel"), ("SparkSQL", "SparkSQLModel"))):
    """`//` is the floor of a division.  SQL's `/` between two integer columns has already truncated towards zero before a FLOOR sees it, so in
    every template of `//` the quotient under FLOOR has to be a float division (the divisor cast to the dialect's float type or multiplied by a float
    constant) — or the template computes the integer case exactly and says so with a typeof() guard.  A float *literal* multiplier is a DECIMAL in
    Spark (the result then comes back as decimal.Decimal), which is why the generic template casts"""
    import re as _re
    n = 0
    # the generic formatter is a derived expression: the floor of a division term.  That term has to be the float division, not `/`
    gf = program.module("sql_model").functions.get("_db_int_divide_expr")
    if gf is not None:
        res.analysed(gf)
        plain = [b for b in ast.walk(gf.node) if isinstance(b, ast.BinOp) and isinstance(b.op, ast.Div) and "expression.args" in unparse(b)]
        if plain:
            res.fail_at(rule, gf, "floor-division-of-truncated-quotient",
                        f"`{unparse(plain[0])}` builds `//` on the SQL operator `/`: for integer operands the quotient is truncated towards zero before FLOOR — "
                        f"(7, -7, -1) // (2, 2, 3) gives 3, -3, 0 on SQLite (and in the PostgreSQL text) and 3, -4, -1 on Pandas and Polars", plain[0])
            n += 1
        elif any(isinstance(c, ast.Call) and isinstance(c.func, ast.Attribute) and c.func.attr == "float_divide" for c in ast.walk(gf.node)):
            res.ok(rule, "the generic `//` is the floor of the dialect's float division")
            n += 1
    # Spark: a float literal is a DECIMAL; the float division (and everything built on it) must not multiply by one
    try:
        sp = sqlexpr.Dialect(program, "SparkSQL", "SparkSQLModel")
        kind_, info_ = sp.resolve("%/%")
        texts_ = [sqlexpr.render(t) for t in sqlexpr.fold_function(sp.formatter_func(info_))] if kind_ == "formatter" else [str(info_)]
        for text in texts_:
            n += 1
            if _re.search(r"\b1\.0\s*\*|\*\s*1\.0\b", text):
                res.fail(rule, "SparkSQL:SparkSQLModel", "float-division-decimal-literal:SparkSQLModel",
                         f"SparkSQLModel: `%/%` is emitted as `{text[:60]}`: the literal 1.0 is a DECIMAL(2,1) in Spark, so x %/% y and x // y come back as decimal.Decimal objects "
                         f"(arithmetic on the column then raises)", "data_algebra/SparkSQL.py", 0)
            else:
                res.ok(rule, f"SparkSQLModel: the float division is `{text[:40]}` (no decimal literal)")
    except AnalysisError:
        pass
    for mod, cls in dialects:
        d_ = sqlexpr.Dialect(program, mod, cls)
        kind, info = d_.resolve("//")
        if kind != "formatter":
            res.fail(rule, f"{mod}:{cls}", f"floor-division-native:{cls}", f"{cls}: `//` has no formatter and is emitted as `{info}`", f"data_algebra/{mod}.py", 0)
            continue
        fn = d_.formatter_func(info)
        res.analysed(fn) if hasattr(fn, "where") else None
        for t in sqlexpr.fold_function(fn):
            text = sqlexpr.render(t)
            n += 1
            floors = [m.end() for m in _re.finditer(r"FLOOR\(", text)]
            if not floors:
                res.abstain(rule, f"{cls}: `//` template `{text[:60]}`", "no FLOOR found")
                continue
            bad = None
            for st in floors:
                seg = text[st:]
                slash = seg.find("/")
                after = seg[slash + 1:].lstrip() if slash >= 0 else ""
                if not (after.startswith("CAST(") or after.startswith("(1.0 *") or after.startswith("1.0 *")):
                    bad = seg[:60]
            if bad is not None:
                res.fail(rule, f"{mod}:{getattr(fn, 'name', '//')}", f"floor-division-of-truncated-quotient:{cls}",
                         f"{cls}: `//` is emitted as `{text[:80]}`: the quotient under FLOOR is SQL's `/`, which truncates towards zero for integer operands — "
                         f"(7, -7, -1) // (2, 2, 3) gives 3, -3, 0 where Pandas and Polars give 3, -4, -1", f"data_algebra/{mod}.py", getattr(fn, "lineno", 0))
            elif cls == "SparkSQLModel" and "1.0 *" in text:
                res.fail(rule, f"{mod}:{getattr(fn, 'name', '//')}", f"floor-division-decimal-literal:{cls}",
                         f"{cls}: `{text[:80]}` multiplies by the literal 1.0, a DECIMAL(2,1) in Spark: the quotient and its FLOOR are DECIMAL and come back as decimal.Decimal "
                         f"objects (arithmetic on the column then raises)", f"data_algebra/{mod}.py", getattr(fn, "lineno", 0))
            else:
                res.ok(rule, f"{cls}: `//` floors a float quotient (`{text[:50]}`)")
    res.expect_count(rule, "templates of `//` examined", n, 3)


# witnesses for the value tables of the floored modulo and the floor division: integer and real operands of both signs, exact multiples included
ARITHMETIC_WITNESSES = [(7, 2), (-7, 2), (7, -2), (-7, -2), (5, -7), (-1, 3), (6, 3), (-6, 3), (0, 5), (7.5, 2.0), (-7.5, 2.0), (7.5, -2.0), (-7.5, -2.0), (7, 2.0), (-7.0, 2)]
# SQLite only (its integer branch promises exact integers, and its overflow rule is known: the result is computed in REAL): divisors beyond 2**62 —
# a template that adds the divisor to something leaves the 64 bit range.  The other dialects raise on overflow (loud) and compute the shared
# float forms in double precision (a stated limit, 10.8), so the generic tables keep to the small witnesses.
SQLITE_WIDE_WITNESSES = [(1, 2 ** 63 - 1), (-3, -(2 ** 63 - 1)), (2 ** 62 + 1, -(2 ** 62 + 3)), (-(2 ** 62 + 1), 2 ** 62 + 3)]


def _same_value(got, want) -> bool:
    if got is None:
        return False
    if isinstance(got, int) and isinstance(want, int) and not isinstance(got, bool):
        return got == want
    return abs(float(got) - float(want)) <= 1e-9 * max(1.0, abs(float(want)))


def sqlite_arithmetic_tables(program, res, rule="C05-S2"):
    """`%` / mod / remainder are documented as the floored modulo (numpy.mod: the sign of the divisor) and `//` as the floor division.  SQLite's own
    `%` and integer `/` truncate, so the SQLite templates are CASE expressions — evaluated here, as text, over a table of witnesses with SQLite's
    arithmetic (sa/sql3vl.py) and compared with Python's `%` and `//`, which numpy agrees with on these values"""
    d_ = sqlexpr.Dialect(program, "SQLite", "SQLiteModel")
    n = 0
    for op, py in (("%", lambda a, b: a % b), ("mod", lambda a, b: a % b), ("remainder", lambda a, b: a % b), ("//", lambda a, b: a // b)):
        kind, info = d_.resolve(op)
        if kind != "formatter":
            res.abstain(rule, f"SQLite `{op}`", "no formatter (emitted natively)")
            continue
        fn = d_.formatter_func(info)
        for t in sqlexpr.fold_function(fn):
            text = sqlexpr.render(t)
            try:
                tree = sql3vl.parse(text)
            except sql3vl.Opaque as e:
                res.abstain(rule, f"SQLite `{op}` template `{text[:50]}`", f"not interpretable: {e}")
                continue
            n += 1
            bad = None
            wide = False
            for (a, b) in ARITHMETIC_WITNESSES + SQLITE_WIDE_WITNESSES:
                wide = (a, b) in SQLITE_WIDE_WITNESSES
                try:
                    got = sql3vl.ev(tree, {"X": a, "Y": b})
                except sql3vl.Opaque as e:
                    bad = ("opaque", str(e))
                    break
                want = py(a, b)
                if not _same_value(got, want):
                    bad = (a, b, got, want)
                    break
            if bad is None:
                res.ok(rule, f"SQLite `{op}`: the template gives Python's / numpy's value on all {len(ARITHMETIC_WITNESSES)} witnesses (both signs, integers and reals)")
            elif bad[0] == "opaque":
                res.abstain(rule, f"SQLite `{op}` template", bad[1])
            else:
                a, b, got, want = bad
                # the small witnesses (signs, exact multiples, reals) and the 64 bit ones are different findings: a template right on the first and
                # wrong on the second is wrong for divisors beyond 2**62 only
                res.fail(rule, f"SQLite:{getattr(fn, 'name', op)}", f"value-table-64bit:{op}" if wide else f"value-table:{op}",
                         f"SQLiteModel emits `{op}` as `{text[:90]}…`; evaluated with SQLite's arithmetic at x = {a}, y = {b} it gives {got}, the documented (numpy) value is {want}",
                         "data_algebra/SQLite.py", getattr(fn, "lineno", 0))
    res.expect_count(rule, "SQLite arithmetic templates evaluated", n, 3)


def sql_modulo_tables(program, res, rule="C05-S2", dialects=None):
    """The same value tables for the dialects that share the generic formatters: `%` / mod / remainder of PostgreSQL, MySQL, BigQuery, Spark and
    Polars-SQL.  MOD(a, b) there is the truncating remainder (sign of the dividend, each dialect's documentation; Spark was run: MOD(-7, 2) = -1),
    numpy.mod / Python's % — the catalogued meaning — takes the sign of the divisor.  Polars' own SQL is the exception (run: its MOD is floored already)."""
    n = 0
    seen = set()
    for mod_, cls_ in sqlexpr.DIALECTS:
        if cls_ == "SQLiteModel" or (dialects is not None and cls_ not in dialects):
            continue
        d_ = sqlexpr.Dialect(program, mod_, cls_)
        for op in ("%", "mod", "remainder"):
            kind, info = d_.resolve(op)
            if kind != "formatter":
                res.abstain(rule, f"{cls_} `{op}`", "no formatter (emitted natively)")
                continue
            fn = d_.formatter_func(info)
            for t in sqlexpr.fold_function(fn):
                text = sqlexpr.render(t)
                key = (getattr(fn, "name", op), op, text)
                n += 1
                try:
                    tree = sql3vl.parse(text)
                except sql3vl.Opaque as e:
                    res.abstain(rule, f"{cls_} `{op}` template `{text[:50]}`", f"not interpretable: {e}")
                    continue
                bad = None
                for (a, b) in ARITHMETIC_WITNESSES:
                    try:
                        got = sql3vl.ev(tree, {"X": a, "Y": b, "__MOD_FLOORED__": cls_ == "PolarsSQLModel"})
                    except sql3vl.Opaque as e:
                        bad = ("opaque", str(e))
                        break
                    want = a % b
                    if not _same_value(got, want):
                        bad = (a, b, got, want)
                        break
                if bad is None:
                    res.ok(rule, f"{cls_} `{op}`: `{text[:40]}` gives the floored modulo on all {len(ARITHMETIC_WITNESSES)} witnesses")
                elif bad[0] == "opaque":
                    res.abstain(rule, f"{cls_} `{op}` template", bad[1])
                elif key in seen:
                    continue  # the shared formatter is reported once
                else:
                    seen.add(key)
                    a, b, got, want = bad
                    owner = fn._sa_module if hasattr(fn, "_sa_module") else None
                    res.fail(rule, f"{_formatter_owner(program, fn)}:{getattr(fn, 'name', op)}", f"value-table:{op}",
                             f"`{op}` is emitted as `{text[:60]}` ({cls_} and every dialect sharing the formatter); at x = {a}, y = {b} that is {got}, the documented "
                             f"(numpy) value is {want}: MOD takes the sign of the dividend", f"data_algebra/{_formatter_owner(program, fn)}.py", getattr(fn, "lineno", 0))
    res.expect_count(rule, "generic modulo templates evaluated", n, 10 if dialects is None else 3 * len(dialects))


def sql_template_grouping_rule(program, res, rule="C05-S2", dialects=None):
    """A formatter pastes the SQL of its operands into a template.  An operand rendered with want_inline_parens=False comes back bare (`a + b`): next
    to a `*`, `/`, `%` of the template, or after its `-`, SQL's precedence regroups it — `(a + b) %/% c` written as `(X / NULLIF(1.0 * Y, 0))` with a
    bare X computes a + b / c.  Such an operand has to sit in a delimited place (function argument, CAST … AS) or be rendered with parentheses."""
    seen = set()
    n = 0
    for mod_, cls_ in sqlexpr.DIALECTS:
        if dialects is not None and cls_ not in dialects:
            continue
        d_ = sqlexpr.Dialect(program, mod_, cls_)
        for op, entry in sorted(d_.formatters.items()):
            fn = d_.formatter_func(entry)
            if fn is None or id(fn) in seen:
                continue
            seen.add(id(fn))
            for t in sqlexpr.fold_function(fn):
                for i, pc in enumerate(t):
                    if not isinstance(pc, sqlexpr.ArgPiece):
                        continue
                    n += 1
                    if pc.parens is True:
                        continue
                    prev = t[i - 1][1] if i > 0 and t[i - 1][0] == "lit" else ""
                    nxt = t[i + 1][1] if i + 1 < len(t) and t[i + 1][0] == "lit" else ""
                    pl, nl = prev.rstrip()[-1:], nxt.lstrip()[:1]
                    if pl in ("*", "/", "%", "-") or nl in ("*", "/", "%"):
                        res.fail(rule, f"{_formatter_owner(program, fn)}:{getattr(fn, 'name', 'lambda')}", f"template-operand-ungrouped:{op}",
                                 f"`{op}` is emitted as `{sqlexpr.render(t)[:70]}` with operand {pc[1]} rendered bare (want_inline_parens=False) next to `{pl if pl in '*/%-' and pl else nl}`: "
                                 f"an operand that is itself a sum, `(a + b) {op} c`, is regrouped by SQL's precedence and computes another value than Pandas",
                                 f"data_algebra/{_formatter_owner(program, fn)}.py", getattr(pc.node, "lineno", 0))
                    else:
                        res.ok(rule, f"{cls_} `{op}`: operand {pc[1]} is rendered bare in a delimited place (`…{prev.rstrip()[-8:]}▮{nxt.lstrip()[:8]}…`)", nontrivial=False)
    res.expect_count(rule, "operand places in SQL templates", n, 40 if dialects is None else 10)


def _formatter_owner(program, fn) -> str:
    for m in program.modules.values():
        for f in m.functions.values():
            if f.node is fn:
                return m.name.split(".")[-1]
    return "sql_model"


def sql_division_rule(program, res, dialect, rule):
    """`/` is true division in Python, Pandas and Polars; SQL's `/` between two integer operands is integer division.  A dialect agrees with
    the data-frame executors only if `/` goes through a formatter that makes an operand floating (as the library's `%/%` does)."""
    kind, entry = dialect.resolve("/")
    if kind == "formatter":
        res.ok(rule, f"{dialect.name}: `/` is emitted by a formatter")
    else:
        res.fail(rule, f"{dialect.module.name.split('.')[-1]}:{dialect.name}", "sql-division-of-integer-operands",
                 f"{dialect.name}: `i / j` has no formatter and is emitted as the SQL operator `/`: on integer columns SQL truncates (7 / 2 = 3, -7 / 2 = -3) "
                 f"while Pandas and Polars return 3.5 and -4; the library's `%/%` operator exists for this reason (it multiplies by 1.0)",
                 f"data_algebra/{dialect.module.name.split('.')[-1]}.py", 0)


def _s4_slice_contract(program, res):
    """x.trimstr(start, stop) is documented (and implemented on Pandas) as the slice x[start:stop]; SQL's SUBSTR takes a 1-based start and a
    *length*: the template's third SUBSTR argument has to be built from stop and start, not from stop alone"""
    import ast as _ast
    f = program.module("sql_model").functions.get("_trimstr")
    if f is None:
        raise AnalysisError("anchor vanished: sql_model._trimstr")
    res.analysed(f)
    rets = [r.value for r in _ast.walk(f.node) if isinstance(r, _ast.Return) and r.value is not None]
    if len(rets) != 1:
        raise AnalysisError("_trimstr: expected one return")

    def ops(e):
        if isinstance(e, _ast.BinOp) and isinstance(e.op, _ast.Add):
            return ops(e.left) + ops(e.right)
        return [e]

    parts = ops(rets[0])
    # split the operands at the string constants that contain the argument separators of SUBSTR( a , b , c )
    seps = [i for i, p_ in enumerate(parts) if isinstance(p_, _ast.Constant) and isinstance(p_.value, str) and "," in p_.value]
    if len(seps) < 2 or not (isinstance(parts[0], _ast.Constant) and "SUBSTR" in str(parts[0].value).upper()):
        raise AnalysisError("_trimstr: SUBSTR(a, b, c) template not recognised")
    third = parts[seps[1]:]
    idx = {int(m.group(1)) for p_ in third for m in re.finditer(r"expression\.args\[(\d)\]", unparse(p_))}
    minus = any(isinstance(p_, _ast.Constant) and isinstance(p_.value, str) and "-" in p_.value for p_ in third)
    if {1, 2} <= idx and minus:
        res.ok("C05-S4", "trimstr: SUBSTR length is stop - start")
    else:
        res.fail_at("C05-S4", f, "trimstr-length-is-stop",
                    f"_trimstr emits SUBSTR(x, 1 + start, <args {sorted(idx)}>): the third argument of SUBSTR is a length, so x.trimstr(1, 3) of 'abcdef' returns 'bcd' in every "
                    f"SQL dialect and 'bc' on Pandas (str.slice(start, stop)); the two agree only for start = 0", rets[0])


def _s4b_polars_slice_contract(program, res):
    """the Polars twin of S4: `Expr.str.slice(offset, length)` takes a *length* (Polars API), the catalogued trimstr(start, stop) a stop.  An entry that hands start and
    stop over as they are returns s[start:start+stop] — right only for start = 0"""
    import ast as _ast
    pm = program.modules.get("polars_model")
    if pm is None:
        return
    entries = []
    for f in program.all_functions():
        if f.module is not pm:
            continue
        for d_ in _ast.walk(f.node):
            if isinstance(d_, _ast.Dict):
                for k, v_ in zip(d_.keys, d_.values):
                    if isinstance(k, _ast.Constant) and k.value == "trimstr":
                        entries.append((f, v_))
    if not entries:
        res.abstain("C05-S4", "Polars trimstr", "no entry in the Polars implementation maps")
        return
    for f, e in entries:
        slices = [c for c in _ast.walk(e) if isinstance(c, _ast.Call) and isinstance(c.func, _ast.Attribute) and c.func.attr == "slice" and len(c.args) >= 2]
        if not slices:
            res.ok("C05-S4", "Polars trimstr: no str.slice with a second argument (an entry that raises is outside the property)", nontrivial=False)
            continue
        params = [a.arg for a in e.args.args] if isinstance(e, _ast.Lambda) else []
        for c in slices:
            second = c.args[1]
            names = {x.id for x in _ast.walk(second) if isinstance(x, _ast.Name)}
            if isinstance(second, _ast.BinOp) and isinstance(second.op, _ast.Sub) and len(names & set(params)) >= 2:
                res.ok("C05-S4", "Polars trimstr: the length handed to str.slice is stop - start")
            else:
                res.fail_at("C05-S4", f, "polars-trimstr-length-is-stop",
                            f"`{unparse(c)[:50]}`: Polars' str.slice takes (offset, length); with the catalogued (start, stop) handed over as they are, x.trimstr(1, 3) of 'abcdef' is "
                            f"'bcd' on Polars and 'bc' on Pandas and SQL — the two agree only for start = 0", c)


def _s5_if_else_missing(program, res):
    """Pandas if_else: numpy.where gives an array of the branches' type (int, bool, fixed-width string); the documented None for a missing
    condition can be stored only after the array was given a type that can hold it"""
    import ast as _ast
    m = program.method("pandas_base", "PandasModelBase", "_if_else_expr", inherited=False)
    res.analysed(m)
    def _is_where(e):
        # numpy.where(...) itself, or handed through a one-argument helper (which keeps the array: the stores below are still needed)
        if not isinstance(e, _ast.Call):
            return False
        if (dotted_name(e.func) or "").endswith("where"):
            return True
        return len(e.args) == 1 and not e.keywords and _is_where(e.args[0])

    where_vars = {st.targets[0].id for st in _ast.walk(m.node) if isinstance(st, _ast.Assign) and isinstance(st.targets[0], _ast.Name)
                  and _is_where(st.value)}
    if not where_vars:
        raise AnalysisError("_if_else_expr: numpy.where(...) result not found")
    stores = [st for st in _ast.walk(m.node) if isinstance(st, _ast.Assign) and isinstance(st.targets[0], _ast.Subscript)
              and isinstance(st.targets[0].value, _ast.Name) and st.targets[0].value.id in where_vars
              and (isinstance(st.value, _ast.Constant) and st.value.value is None or "nan" in unparse(st.value).lower())]
    if not stores:
        res.fail_at("C05-S5", m, "if-else-missing-condition-not-propagated", "_if_else_expr no longer stores a missing value where the condition is missing (documented: if_else(None, 1, 2) -> None)")
        return
    retyped = {st.targets[0].id for st in _ast.walk(m.node) if isinstance(st, _ast.Assign) and isinstance(st.targets[0], _ast.Name) and st.targets[0].id in where_vars
               and isinstance(st.value, _ast.Call) and (isinstance(st.value.func, _ast.Attribute) and st.value.func.attr == "astype"
                                                         or any(kw.arg == "dtype" for kw in st.value.keywords))}
    bad = [st for st in stores if st.targets[0].value.id not in retyped]
    if bad:
        res.fail_at("C05-S5", m, "if-else-none-into-typed-array",
                    f"`{unparse(bad[0])}` writes None into the array numpy.where returned, whose type is that of the branches: with string branches the cell becomes the text "
                    f"'Non', with bool branches False, with int branches the store raises TypeError (the docstring's own if_else(None, 1, 2)); SQLite and Polars return null", bad[0])
    else:
        res.ok("C05-S5", "Pandas if_else gives the result a type that can hold a missing value before storing one")


def _s6_concat_missing(program, res):
    """Pandas concat: numpy.asarray(x, dtype=str) spells a missing value as the text 'nan' / 'None'; string concatenation with a missing
    operand is missing on SQL (||, CONCAT of NULL) and Polars — the implementation has to look at the operands' nulls"""
    import ast as _ast
    pm = program.method("pandas_base", "PandasModelBase", "_populate_impl_map", inherited=False)
    entry = None
    for d_ in _ast.walk(pm.node):
        if isinstance(d_, _ast.Dict):
            for k, v in zip(d_.keys, d_.values):
                if isinstance(k, _ast.Constant) and k.value == "concat":
                    entry = v
    if entry is None:
        raise AnalysisError("Pandas impl_map: entry for concat not found")
    body = entry
    if isinstance(entry, _ast.Lambda) and isinstance(entry.body, _ast.Call) and isinstance(entry.body.func, _ast.Attribute) \
            and isinstance(entry.body.func.value, _ast.Name) and entry.body.func.value.id == "self":
        tgt = program.method("pandas_base", "PandasModelBase", entry.body.func.attr)
        if tgt is not None:
            body = tgt.node
            res.analysed(tgt)
    elif isinstance(entry, _ast.Attribute) and unparse(entry.value) == "self":
        tgt = program.method("pandas_base", "PandasModelBase", entry.attr)
        if tgt is not None:
            body = tgt.node
            res.analysed(tgt)
    txt = unparse(body)
    to_text = "dtype=str" in txt or "astype(str)" in txt
    looks_at_nulls = any(w in txt for w in ("isnull", "isna", "bad_column_positions", "notnull"))
    if to_text and not looks_at_nulls:
        res.fail_at("C05-S6", pm, "concat-spells-missing-as-text",
                    "Pandas `concat` converts both operands with dtype=str and adds the texts: a missing operand becomes the text 'nan' ('xy'.concat(None) gives 'xynan'); "
                    "SQLite and Polars return null", entry)
    else:
        res.ok("C05-S6", "Pandas concat returns a missing value when an operand is missing")


def _s7_coalesce_missing_only(program, res):
    """coalesce is documented to replace *missing* values.  PandasModelBase.bad_column_positions is "null, nan or infinite": using it (or isinf)
    to decide which cells coalesce fills overwrites infinities, which SQL COALESCE and Polars keep"""
    import ast as _ast
    m = program.method("pandas_base", "PandasModelBase", "_coalesce", inherited=False)
    res.analysed(m)
    bc = program.method("pandas_base", "PandasModelBase", "bad_column_positions", inherited=False)
    flags_inf = "isinf" in unparse(bc.node)
    uses = [c for c in _ast.walk(m.node) if isinstance(c, _ast.Call) and isinstance(c.func, _ast.Attribute)
            and (c.func.attr == "isinf" or (c.func.attr == "bad_column_positions" and flags_inf))]
    if uses:
        res.fail_at("C05-S7", m, "coalesce-treats-infinite-as-missing",
                    f"_coalesce selects the cells to fill with `{unparse(uses[0])[:50]}`, which is true for +/-inf as well as for missing values: x.coalesce(y) / x %?% y / "
                    f"coalesce_0() overwrite infinite cells on Pandas; SQLite and Polars keep them (documented: 'replace missing values')", uses[0])
    else:
        res.ok("C05-S7", "Pandas coalesce fills missing cells only (no test that also flags infinities)")


def _numeric_test(t) -> bool:
    txt = unparse(t)
    return "is_numeric_dtype" in txt or ".kind" in txt or "'kind'" in txt or '"kind"' in txt or "is_integer_dtype" in txt or "is_float_dtype" in txt or "numbers.Number" in txt


def _after_numeric_branch(fn_, call, _numeric_test=_numeric_test) -> bool:
    """the call sits in the else part of a test for a numeric type, or after an `if <numeric test>: ... return` of the same block"""
    def blocks(n_):
        for fld in ("body", "orelse", "finalbody"):
            b = getattr(n_, fld, None)
            if isinstance(b, list) and b and isinstance(b[0], ast.stmt):
                yield n_, fld, b
        for h in getattr(n_, "handlers", []) or []:
            yield h, "body", h.body

    for owner in ast.walk(fn_):
        for own, fld, b in blocks(owner):
            for i, st in enumerate(b):
                if not any(x is call for x in ast.walk(st)):
                    continue
                if isinstance(own, ast.If) and fld == "orelse" and _numeric_test(own.test):
                    return True
                for prev in b[:i]:
                    if isinstance(prev, ast.If) and _numeric_test(prev.test) and prev.body and isinstance(prev.body[-1], (ast.Return, ast.Raise)):
                        return True
    return False


def pandas_logic_rule(program, res, rule="C05-S3"):
    """`and` / `or` over truth values that may be missing: SQL and Polars compute three valued (Kleene) logic.  numpy.logical_and / logical_or
    decide by Python truthiness of None (and propagate pandas' <NA>), which is neither commutative nor Kleene; the Pandas entries therefore have to
    look at which operands are missing"""
    pim = program.method("pandas_base", "PandasModelBase", "_populate_impl_map", inherited=False)
    dicts = [n for n in ast.walk(pim.node) if isinstance(n, ast.Dict)]
    impl = {k.value: v for k, v in zip(dicts[0].keys, dicts[0].values) if isinstance(k, ast.Constant)}
    mod = program.module("pandas_base")
    pb = program.cls("pandas_base", "PandasModelBase")
    # not(x): the function spelling of negation (`p == not (q)` parses to it): true where x is false
    e_not = impl.get("not")
    if e_not is not None:
        tgt = mod.functions[e_not.id].node if isinstance(e_not, ast.Name) and e_not.id in mod.functions else e_not
        cmps = [c for c in ast.walk(tgt) if isinstance(c, ast.Compare) and isinstance(c.comparators[0], ast.Constant) and c.comparators[0].value is False]
        if any(isinstance(c.ops[0], ast.NotEq) for c in cmps):
            res.fail(rule, "pandas_base:PandasModelBase._populate_impl_map", "pandas-logic:not:identity",
                     "Pandas computes not(x) as `x != False`, which is x itself: 'p == not (q)' evaluates p == q on Pandas while SQLite negates", "data_algebra/pandas_base.py", getattr(e_not, "lineno", 0))
        elif cmps or any(isinstance(c, ast.Attribute) and c.attr == "logical_not" for c in ast.walk(tgt)):
            res.ok(rule, "Pandas not(x) is true where x is false")
        else:
            res.abstain(rule, "Pandas `not`", "implementation shape not recognised")
    for op in ("and", "or"):
        e = impl.get(op)
        if e is None:
            res.fail(rule, "pandas_base:PandasModelBase._populate_impl_map", f"pandas-logic:{op}:fallthrough",
                     f"Pandas has no entry for `{op}`: it falls through to numpy.logical_{op}", "data_algebra/pandas_base.py", 0)
            continue
        # the function the entry goes through
        target = None
        for c in [e] + list(ast.walk(e)):
            if isinstance(c, ast.Name) and c.id in mod.functions:
                target = mod.functions[c.id].node
            elif isinstance(c, ast.Attribute) and isinstance(c.value, ast.Name) and c.value.id == "self" and pb.find_method(c.attr) is not None:
                target = pb.find_method(c.attr).node
        body = target if target is not None else e
        looks_at_missing = any(isinstance(c, ast.Call) and isinstance(c.func, ast.Attribute) and c.func.attr in ("isnull", "isna") for c in ast.walk(body))
        bare_numpy = any(isinstance(c, ast.Attribute) and unparse(c) in ("numpy.logical_and", "numpy.logical_or") for c in ast.walk(body))
        object_result = [c for c in ast.walk(body) if isinstance(c, ast.Call) and isinstance(c.func, ast.Attribute) and c.func.attr == "astype"
                         and c.args and unparse(c.args[0]) in ("object", "'object'", '"object"')]
        # pandas' cast to the nullable boolean type takes truth values and the numbers 0 / 1 only ("Need to pass bool-like values"): a numeric
        # operand (n and b, with n a count) has to be turned into truth values first, as numpy.logical_and / SQL / Polars' cast do
        for fn_ in [body]:
            for c in ast.walk(fn_):
                if not (isinstance(c, ast.Call) and isinstance(c.func, ast.Attribute) and c.func.attr == "astype" and c.args
                        and isinstance(c.args[0], ast.Constant) and c.args[0].value == "boolean"):
                    continue
                recv = c.func.value
                if isinstance(recv, ast.Compare) or (isinstance(recv, ast.Call) and isinstance(recv.func, ast.Attribute) and recv.func.attr in ("ne", "eq", "isna", "notna")):
                    continue  # a comparison's result: truth values already
                if _after_numeric_branch(fn_, c):
                    res.ok(rule, f"Pandas `{op}`: `{unparse(c)[:50]}` is reached only by operands that are not numbers")
                else:
                    res.fail(rule, "pandas_base:PandasModelBase._populate_impl_map", f"pandas-logic:{op}:numbers-refused",
                             f"Pandas `{op}` casts every operand with `{unparse(c)[:50]}`: pandas takes only truth values, 0 and 1 there, so `n {op} b` with a numeric column "
                             f"holding 2 raises TypeError 'Need to pass bool-like values' while SQLite, Polars and the scalar form use the number's truth value",
                             "data_algebra/pandas_base.py", getattr(c, "lineno", 0))
        if looks_at_missing and object_result:
            res.fail(rule, "pandas_base:PandasModelBase._populate_impl_map", f"pandas-logic:{op}:object-result",
                     f"Pandas `{op}` answers in an object array holding None (`{unparse(object_result[0])[:40]}`): select_rows over it raises 'Cannot mask with non-boolean array containing NA', "
                     f"cumsum / arithmetic on the column fail, and a million plain booleans take a second — pandas' nullable boolean type has the three valued & and | built in",
                     "data_algebra/pandas_base.py", getattr(e, "lineno", 0))
        elif looks_at_missing:
            res.ok(rule, f"Pandas `{op}` decides from which operands are missing (three valued logic)")
        else:
            res.fail(rule, "pandas_base:PandasModelBase._populate_impl_map", f"pandas-logic:{op}:truthiness",
                     f"Pandas binds `{op}` to {'numpy.logical_' + op if bare_numpy else unparse(e)[:40]} without looking at missing operands: on object columns `a {op} b` at (None, False) differs "
                     f"from `b {op} a`, and on the nullable boolean dtype False and <NA> is <NA>; SQLite and Polars compute three valued logic in all nine combinations",
                     "data_algebra/pandas_base.py", getattr(e, "lineno", 0))


def masked_condition_rule(program, res, rule="C05-S8"):
    """numpy.where(cond, a, b) asks cond for the truth value of every entry; a pandas nullable column refuses that for its missing entries.
    The condition handed over by where / if_else therefore goes through a step that fills the missing entries first"""
    mod = program.module("pandas_base")
    n = 0
    for f in program.all_functions():
        if f.module is not mod or f.node.name not in ("_where_expr", "_if_else_expr"):
            continue
        res.analysed(f)
        for c in ast.walk(f.node):
            if isinstance(c, ast.Call) and dotted_name(c.func) == "numpy.where" and c.args:
                n += 1
                a0 = c.args[0]
                normalised = False
                if isinstance(a0, ast.Call):
                    callee = dotted_name(a0.func) or ""
                    h = mod.functions.get(callee.split(".")[-1]) if hasattr(mod, "functions") else None
                    hnode = getattr(h, "node", None)
                    if hnode is not None and any(isinstance(x, ast.Call) and isinstance(x.func, ast.Attribute) and x.func.attr in ("fillna", "to_numpy") for x in ast.walk(hnode)):
                        normalised = True
                    bad_fill = [x for x in ast.walk(hnode)] if hnode is not None else []
                    bad_fill = [x for x in bad_fill if isinstance(x, ast.Call) and isinstance(x.func, ast.Attribute) and x.func.attr == "fillna" and x.args
                                and isinstance(x.args[0], ast.Constant) and isinstance(x.args[0].value, bool)]
                    if bad_fill:
                        res.fail_at(rule, f, f"masked-condition-filled-with-bool:{f.node.name}",
                                    f"`{unparse(bad_fill[0])[:50]}` fills the condition's missing entries with a bool before it is read: an Int64 / Float64 flag column refuses that "
                                    f"(TypeError: Invalid value 'False' for dtype 'Int64') — flag.if_else(x, y) worked before the nullable conditions were handled", bad_fill[0])
                        continue
                    if isinstance(a0.func, ast.Attribute) and a0.func.attr in ("fillna", "to_numpy"):
                        normalised = True
                if normalised:
                    res.ok(rule, f"{f.node.name}: the condition of numpy.where has its missing entries filled first")
                else:
                    res.fail_at(rule, f, f"masked-condition-asked-for-truth:{f.node.name}",
                                f"`{unparse(c)[:60]}` hands the condition over as it is: for a pandas nullable column ((n > 2) with an Int64 n, a `boolean` column) numpy.where "
                                f"raises TypeError 'boolean value of NA is ambiguous'; SQLite and Polars return the documented values", c)
                # the branches: a nullable (masked) branch — what `and` / `or` answer in — makes numpy.where build an object array holding <NA>, which
                # has no truth value and can not be compared; either the branches or the result go through a step before anything reads the array
                if len(c.args) == 3:
                    bare = [x for x in c.args[1:] if isinstance(x, ast.Name)]
                    parent = [p_ for p_ in ast.walk(f.node) if isinstance(p_, ast.Call) and any(a_ is c for a_ in p_.args)]
                    if len(bare) == 2 and not parent:
                        res.fail_at(rule, f, f"where-result-keeps-NA:{f.node.name}",
                                    f"`{unparse(c)[:60]}` takes the branches as they come and its result is used as it is: with a nullable boolean branch (the result of an and / or) "
                                    f"the array holds <NA>, and using it as a condition, comparing or negating it raises 'boolean value of NA is ambiguous'", c)
                    else:
                        res.ok(rule, f"{f.node.name}: the result of numpy.where (or its branches) goes through a step that can replace <NA>")
    if n < 2:
        raise AnalysisError("pandas_base: numpy.where in _where_expr and _if_else_expr not found")
    # the helpers the branches go through: turning a branch into an object array is right for truth values and text only — a nullable *number* column
    # (Int64 with one missing entry) made object breaks every arithmetic and comparison on the result, where numpy reads its missing entries as nan
    for hname in sorted({dotted_name(a_.func) for f in program.all_functions() if f.module is mod and f.node.name in ("_where_expr", "_if_else_expr")
                         for c in ast.walk(f.node) if isinstance(c, ast.Call) and dotted_name(c.func) == "numpy.where" and len(c.args) == 3
                         for a_ in c.args[1:] if isinstance(a_, ast.Call) and isinstance(a_.func, ast.Name)}):
        h = mod.functions.get(hname)
        if h is None:
            continue
        res.analysed(h)
        for c in ast.walk(h.node):
            if isinstance(c, ast.Call) and isinstance(c.func, ast.Attribute) and c.func.attr in ("to_numpy", "astype") \
                    and any(unparse(v_) in ("object", "'object'") for v_ in list(c.args) + [k.value for k in c.keywords if k.arg == "dtype"]) \
                    and isinstance(c.func.value, ast.Name) and c.func.value.id in h.params():
                if _after_numeric_branch(h.node, c):
                    res.ok(rule, f"{hname}: `{unparse(c)[:50]}` is reached only by branches that are not numbers or dates")
                else:
                    res.fail_at(rule, h, f"numeric-branch-made-object:{hname}",
                                f"{hname} turns every nullable branch into an object array (`{unparse(c)[:50]}`): b.where(I, 0) + 1 with an Int64 column I holding one missing "
                                f"entry raises 'unsupported operand type(s) for +: NoneType and int', cumsum refuses object columns — numpy reads a nullable number column as float "
                                f"with nan by itself", c)
    # is_in: numpy.isin compares entry by entry, which a nullable column refuses for its missing entries
    pim = program.method("pandas_base", "PandasModelBase", "_populate_impl_map", inherited=False)
    entry = None
    for d_ in ast.walk(pim.node):
        if isinstance(d_, ast.Dict):
            for k, v_ in zip(d_.keys, d_.values):
                if isinstance(k, ast.Constant) and k.value == "is_in":
                    entry = v_
    if entry is None:
        raise AnalysisError("anchor vanished: Pandas implementation of is_in")
    if isinstance(entry, ast.Name) and entry.id in mod.functions:
        h = mod.functions[entry.id]
        res.analysed(h)
        ps = h.params()
        for c in ast.walk(h.node):
            if isinstance(c, ast.Call) and dotted_name(c.func) == "numpy.isin" and c.args and isinstance(c.args[0], ast.Name) and ps and c.args[0].id == ps[0]:
                if _after_numeric_branch(h.node, c, lambda t: "na_value" in unparse(t) or "isna" in unparse(t) or "BaseMasked" in unparse(t)):
                    res.ok(rule, f"{h.node.name}: numpy.isin is reached only by columns without a missing value of their own")
                else:
                    res.fail_at(rule, h, f"is-in-masked-column:{h.node.name}",
                                f"`{unparse(c)[:50]}` is handed the column as it is: for a nullable (masked) column with a missing entry — the result of an and / or — "
                                f"numpy.isin raises 'boolean value of NA is ambiguous'; a missing entry is in no set", c)
        # numpy.isin finds a None of the list in an object column's missing cells too: the answer has to be masked by the column's own missing entries
        for c in ast.walk(h.node):
            if isinstance(c, ast.Call) and dotted_name(c.func) == "numpy.isin" and c.args and isinstance(c.args[0], ast.Name) and ps and c.args[0].id == ps[0]:
                holders = {t.id for a_ in ast.walk(h.node) if isinstance(a_, ast.Assign) and any(x is c for x in ast.walk(a_.value)) for t in a_.targets if isinstance(t, ast.Name)}
                masked = [b_ for b_ in ast.walk(h.node) if isinstance(b_, ast.BinOp) and isinstance(b_.op, ast.BitAnd)
                          and (any(x is c for x in ast.walk(b_)) or any(isinstance(x, ast.Name) and x.id in holders for x in ast.walk(b_)))
                          and any(isinstance(x, ast.Call) and isinstance(x.func, ast.Attribute) and x.func.attr in ("notna", "notnull", "isna", "isnull") for x in ast.walk(b_))]
                if masked:
                    res.ok(rule, f"{h.node.name}: the answer of numpy.isin is masked by the column's own missing entries")
                else:
                    res.fail_at(rule, h, f"is-in-missing-is-member-numpy:{h.node.name}",
                                f"`{unparse(c)[:40]}` is the answer as it is: for an object column s_obj.is_in(['a', None]) is True at the missing row (numpy compares None to None), "
                                f"SQLite gives NULL and select_rows keeps a row Pandas should drop", c)
        # Series.isin counts a missing entry as a member of a list that holds None / nan (pandas matches missing to missing); numpy.isin and SQL do not
        for c in ast.walk(h.node):
            if isinstance(c, ast.Call) and isinstance(c.func, ast.Attribute) and c.func.attr == "isin" and isinstance(c.func.value, ast.Name) and ps and c.func.value.id == ps[0]:
                masked = [b_ for b_ in ast.walk(h.node) if isinstance(b_, ast.BinOp) and isinstance(b_.op, ast.BitAnd) and any(x is c for x in ast.walk(b_))
                          and any(isinstance(x, ast.Call) and isinstance(x.func, ast.Attribute) and x.func.attr in ("notna", "notnull", "isna", "isnull") for x in ast.walk(b_))]
                if masked:
                    res.ok(rule, f"{h.node.name}: the answer of Series.isin is masked by the column's own missing entries")
                else:
                    res.fail_at(rule, h, f"is-in-missing-is-member:{h.node.name}",
                                f"`{unparse(c)[:40]}` is the answer as it is: pandas' isin matches a missing entry to a None / nan in the list, so s.is_in(['a', None]) is True at the missing "
                                f"row of a text, categorical or Arrow column where numpy.isin gave False and SQL gives NULL", c)
    else:
        res.abstain(rule, "Pandas is_in", "not bound to a module function")
    # the normalising helper itself: a refusal it swallows must not end in handing the condition back unread — numpy takes nan (the missing value
    # of a text or categorical column) for True, where / if_else document the else branch / None
    for hname in sorted({(dotted_name(a0.func) or "").split(".")[-1] for f in program.all_functions() if f.module is mod and f.node.name in ("_where_expr", "_if_else_expr")
                         for c in ast.walk(f.node) if isinstance(c, ast.Call) and dotted_name(c.func) == "numpy.where" and c.args
                         for a0 in [c.args[0]] if isinstance(a0, ast.Call)}):
        h = mod.functions.get(hname)
        if h is None:
            continue
        res.analysed(h)
        for owner in ast.walk(h.node):
            for fld in ("body", "orelse"):
                b = getattr(owner, fld, None)
                if not (isinstance(b, list) and b and isinstance(b[0], ast.stmt)):
                    continue
                for i, st in enumerate(b):
                    if isinstance(st, ast.Try) and any(all(isinstance(x, ast.Pass) for x in hd.body) for hd in st.handlers):
                        later = b[i + 1:]
                        looks = any(isinstance(x, ast.Call) and isinstance(x.func, ast.Attribute) and x.func.attr in ("isna", "isnull", "fillna", "notna")
                                    for st2 in later for x in ast.walk(st2))
                        if looks:
                            res.ok(rule, f"{hname}: after a refused conversion the missing entries are still looked at")
                        else:
                            res.fail_at(rule, h, f"masked-condition-fallback-unread:{hname}",
                                        f"{hname} swallows the refusal of `{unparse(st.body[0])[:60]}` and hands the condition back as it is: a text (`str`) or categorical "
                                        f"condition with a missing entry reaches numpy.where, which takes nan for True — where() documents the else branch for a missing condition", st)


def _s9_total_user_functions(program, res, rule="C05-S9"):
    """Python's math functions raise on arguments outside their domain or range (log(0), sqrt(-1), exp(800), pow(0.0, -1)); numpy — the catalogued
    Pandas meaning — returns -inf, nan, inf.  A SQLite user function that raises fails the whole query, so the wrappers through which the
    math functions are registered have to catch the three exception types"""
    mod = program.module("SQLite")
    pc = program.method("SQLite", "SQLiteModel", "prepare_connection", inherited=False)
    wrappers = {}
    for c in ast.walk(pc.node):
        if isinstance(c, ast.Call) and dotted_name(c.func) == "functools.partial" and len(c.args) >= 2 and isinstance(c.args[0], ast.Name) \
                and (dotted_name(c.args[1]) or "").startswith("math."):
            wrappers.setdefault(c.args[0].id, set()).add(dotted_name(c.args[1]))
    if not wrappers:
        res.ok(rule, "no Python math function is registered as a SQLite function")
        return
    for wname, fns in sorted(wrappers.items()):
        w = next((f for f in mod.tree.body if isinstance(f, ast.FunctionDef) and f.name == wname), None)
        if w is None:
            raise AnalysisError(f"SQLite: wrapper {wname} not found")
        caught = set()
        for t in ast.walk(w):
            if isinstance(t, ast.Try) and any(isinstance(c, ast.Call) and isinstance(c.func, ast.Name) and c.func.id == w.args.args[0].arg for b in t.body for c in ast.walk(b)):
                for h in t.handlers:
                    if h.type is None:
                        caught |= {"ValueError", "OverflowError", "ZeroDivisionError"}
                    else:
                        caught |= {x.id for x in ast.walk(h.type) if isinstance(x, ast.Name)}
        need = {"ValueError", "OverflowError"}
        if need <= caught or "Exception" in caught or "ArithmeticError" in caught and "ValueError" in caught:
            res.ok(rule, f"SQLite: {wname} ({len(fns)} math functions) turns a domain / range error into a value")
        else:
            res.fail(rule, f"SQLite:{wname}", f"user-function-raises:{wname}",
                     f"{wname} calls the registered math function ({sorted(fns)[:5]}…) without catching {sorted(need - caught)}: x.log() over a column holding 0 fails the whole SQLite "
                     f"query ('user-defined function raised exception'); Pandas and Polars return -inf", "data_algebra/SQLite.py", w.lineno)


def _s8_column_operand_kinds(program, res, rule="C05-S8"):
    """the Pandas expression implementations return a Series or — numpy.where, numpy.char.add and friends — a numpy array.  A helper that tells a
    column from a scalar by `isinstance(x, pd.Series)` alone takes such an array for a scalar"""
    mod = program.module("pandas_base")
    producers = []
    for f in program.all_functions():
        if f.module is not mod:
            continue
        for r in ast.walk(f.node):
            v = r.value if isinstance(r, ast.Return) else (r.value if isinstance(r, ast.Assign) and len(r.targets) == 1 and unparse(r.targets[0]) == "res" else None)
            if isinstance(v, ast.Call) and (dotted_name(v.func) or "") in facts.NUMPY_ARRAY_VALUED:
                producers.append((f, dotted_name(v.func)))
    # ... or a plain Python list (a comprehension over the rows)
    list_producers = []
    for f in program.all_functions():
        if f.module is not mod:
            continue
        for r in ast.walk(f.node):
            if isinstance(r, ast.Return) and isinstance(r.value, ast.Name):
                defs_ = [a.value for a in ast.walk(f.node) if isinstance(a, ast.Assign) and len(a.targets) == 1 and isinstance(a.targets[0], ast.Name) and a.targets[0].id == r.value.id]
                if defs_ and all(isinstance(dv, ast.ListComp) for dv in defs_):
                    list_producers.append(f)
            elif isinstance(r, ast.Return) and isinstance(r.value, ast.ListComp):
                list_producers.append(f)
            elif isinstance(r, ast.Lambda) and isinstance(r.body, ast.ListComp):
                list_producers.append(f)
    if not producers:
        res.ok(rule, "no Pandas expression implementation returns a bare numpy array")
        return
    n = 0
    for f in program.all_functions():
        if f.module is not mod:
            continue
        tests = [c for c in ast.walk(f.node) if isinstance(c, ast.Call) and dotted_name(c.func) == "isinstance" and len(c.args) == 2
                 and unparse(c.args[1]).endswith("pd.Series") and isinstance(c.args[0], ast.Name) and c.args[0].id in f.params()]
        for t in tests:
            n += 1
            p_ = t.args[0].id
            also_array = any(isinstance(c, ast.Call) and dotted_name(c.func) == "isinstance" and len(c.args) == 2 and isinstance(c.args[0], ast.Name) and c.args[0].id == p_
                             and "ndarray" in unparse(c.args[1]) for c in ast.walk(f.node))
            also_list = any(isinstance(c, ast.Call) and dotted_name(c.func) == "isinstance" and len(c.args) == 2 and isinstance(c.args[0], ast.Name) and c.args[0].id == p_
                            and "list" in unparse(c.args[1]) for c in ast.walk(f.node))
            if also_array and list_producers and not also_list:
                res.fail_at(rule, f, f"list-operand-taken-for-scalar:{f.node.name}:{p_}",
                            f"{f.node.name} takes `{p_}` for a scalar unless it is a Series or an array, but {len(list_producers)} implementation(s) "
                            f"({sorted(set(x.node.name for x in list_producers))[:4]}) hand back Python lists: f.fmax(timestamp_diff(t1, t2)) raises 'Data must be 1-dimensional'", t)
            elif also_array:
                res.ok(rule, f"{f.where()}: `{p_}` is recognised as a column when it is a Series or a numpy array")
            else:
                res.fail_at(rule, f, f"array-operand-taken-for-scalar:{f.node.name}:{p_}",
                            f"{f.node.name} takes `{p_}` for a scalar unless it is a Series, but {len(producers)} expression implementations hand back numpy arrays "
                            f"({sorted(set(x[1] for x in producers))}): x.where(...).coalesce(0) raises 'at least one argument must be a Pandas series' and "
                            f"x.coalesce(c.if_else(a, b)) 'Data must be 1-dimensional' on Pandas; SQLite and Polars evaluate both", t)
    res.expect_count(rule, "column / scalar discriminations in pandas_base", n, 2)


def run(program, res, tier):
    res.rule("C05-S9", "SQLite: registered Python math functions are total (numpy's -inf / nan / inf instead of an exception)")
    _s9_total_user_functions(program, res)
    sql_floor_division_rule(program, res)
    sqlite_arithmetic_tables(program, res)
    sql_modulo_tables(program, res)
    sql_template_grouping_rule(program, res)
    res.rule("C05-S8", "Pandas: helpers that tell columns from scalars know every column type the implementations return")
    _s8_column_operand_kinds(program, res)
    masked_condition_rule(program, res)
    pandas_logic_rule(program, res)
    res.rule("C05-S1", "every catalogued (method, backend) marked 'y' resolves to an implementation of the right meaning")
    res.rule("C05-S2", "three-valued truth tables of the SQL templates equal the documented null contracts")
    res.rule("C05-S3", "documented null contracts match the primitives each back end binds the method to")
    f = sqlexpr.confirm_lookup_model(program)
    res.analysed(f)
    rows = sqlexpr.catalog(program)
    res.expect_count("C05-S1", "catalogue rows", len(rows), 120)
    registered = sqlite_registered(program)
    tmeth = term_methods(program)
    dialects = [sqlexpr.Dialect(program, m, c) for (m, c) in SQL_DIALECTS]
    for d in dialects:
        _sql_s1(program, res, d, rows, registered, tmeth)
    impl = _pandas_s1(program, res, rows)
    all_d = dialects
    if tier == "thorough":
        all_d = [sqlexpr.Dialect(program, m, c) for (m, c) in sqlexpr.DIALECTS]
    _s2(program, res, all_d)
    _require_decided(res)
    _s3(program, res, impl, tmeth)
    res.rule("C05-S4", "string slicing: SUBSTR's length argument is stop - start")
    _s4_slice_contract(program, res)
    _s4b_polars_slice_contract(program, res)
    res.rule("C05-S5", "Pandas if_else returns a missing value for a missing condition, whatever the branch types")
    _s5_if_else_missing(program, res)
    res.rule("C05-S6", "Pandas concat does not spell a missing operand as text")
    _s6_concat_missing(program, res)
    res.rule("C05-S7", "Pandas coalesce replaces missing values only")
    _s7_coalesce_missing_only(program, res)
    res.assumptions.append("SQLite/PostgreSQL built-in function lists and meaning vocabulary (sa/facts.py)")
    res.extra["sqlite_registered_functions"] = len(registered)
