"""C12 printed pipelines rebuild to equal pipelines — structural clauses."""
from __future__ import annotations

import ast
import re
from typing import List, Optional, Set, Tuple

from .. import cfg as cfgmod
from .. import deps as depsmod
from ..index import AnalysisError, dotted_name, unparse
from ..nodes import EQUIVALENT, NodeModel, feeds_for

EXPLANATION = (
    "Static rules over the printers. S1: each node's to_python_src_ is read as a string template: the "
    "'+'-chains are flattened, every operand that depends (def-use) on a node field is matched with the "
    "keyword text ('kw=') or call opening ('.method(') that precedes it; the keyword must be a parameter of "
    "the builder named in the emitted text and must feed (through the builder and the constructor) exactly "
    "the field printed under it; every semantic field is printed. The same for RecordMap/RecordSpecification "
    "__repr__ against their constructors. S2: in Expression.to_python every path on which the expression "
    "is printed inline tests want_inline_parens, and the operands of an inline n-ary form are printed with "
    "want_inline_parens=True. S3: literals are printed with repr (Value.to_python, field operands of the node "
    "printers), never with str. Not decided: black formatting, pickling, equality of results after rebuild."
)

KW_TAIL = re.compile(r"([A-Za-z_]\w*)=\[?\s*$")
CALL_TAIL = re.compile(r"\.?([A-Za-z_]\w*)\(\{?\s*$")
CALL_ANY = re.compile(r"\.([A-Za-z_]\w*)\(")


def add_operands(e: ast.AST) -> List[ast.AST]:
    if isinstance(e, ast.BinOp) and isinstance(e.op, ast.Add):
        return add_operands(e.left) + add_operands(e.right)
    return [e]


def chains(fnode: ast.AST) -> List[Tuple[ast.stmt, List[ast.AST]]]:
    """top-level '+' chains of every assignment / return in source order"""
    out = []
    for st in ast.walk(fnode):
        v = None
        if isinstance(st, ast.Assign):
            v = st.value
        elif isinstance(st, ast.Return):
            v = st.value
        elif isinstance(st, ast.AugAssign) and isinstance(st.op, ast.Add):
            v = st.value
        if v is not None and isinstance(v, ast.BinOp) and isinstance(v.op, ast.Add):
            out.append((st, add_operands(v)))
    out.sort(key=lambda x: (x[0].lineno, x[0].col_offset))
    return out


class _StripLen(ast.NodeTransformer):
    def visit_Call(self, node):
        if isinstance(node.func, ast.Name) and node.func.id == "len":
            return ast.Constant(value=0)
        return self.generic_visit(node)


def _strip_len(e: ast.AST) -> ast.AST:
    """len(x) carries no content of x: replace by a constant before taking dependencies"""
    import copy
    return ast.fix_missing_locations(_StripLen().visit(copy.deepcopy(e)))


def check_printer(res, rule, owner_name, printer, fields_of_interest: Set[str], feeds_lookup, required: List[str],
                  str_ok: Set[str] = frozenset(), equivalents=None):
    equivalents = equivalents or {}
    """feeds_lookup(method_name) -> (callee FuncInfo or None, feeds dict param->fields)"""
    g = cfgmod.build(printer.node)
    d = depsmod.Deps(g, printer.params())
    printed: Set[str] = set()
    current_call: Optional[str] = None
    n_slots = 0
    for (st, ops) in chains(printer.node):
        try:
            node = g.node_of(st)
        except AnalysisError:
            continue
        slot = None  # ('kw', name) | ('pos', method)
        for op in ops:
            if isinstance(op, ast.Constant) and isinstance(op.value, str):
                txt = op.value
                for m in CALL_ANY.finditer(txt):
                    current_call = m.group(1)
                mk = KW_TAIL.search(txt)
                mc = CALL_TAIL.search(txt)
                if mk:
                    slot = ("kw", mk.group(1))
                elif mc:
                    current_call = mc.group(1)
                    slot = ("pos", mc.group(1))
                elif txt.strip() in ("", ","):
                    pass
                else:
                    # any other text ends the pending slot unless it is pure layout
                    if txt.strip(" \n,") != "":
                        slot = None if not txt.rstrip().endswith(("(", "{", "[", "=")) else slot
                continue
            # a helper that formats keyword arguments (`name=repr(value)` for each **kwargs item): every keyword is a printed slot
            if isinstance(op, ast.Call) and isinstance(op.func, ast.Name) and op.func.id in printer.module.functions \
                    and printer.module.functions[op.func.id].node.args.kwarg is not None and op.keywords and current_call is not None:
                helper = printer.module.functions[op.func.id].node
                htxt = unparse(helper)
                if ".items()" in htxt and "'='" in htxt and ("__repr__" in htxt or "repr(" in htxt):
                    callee, feeds = feeds_lookup(current_call)
                    for kw_ in op.keywords:
                        if kw_.arg is None:
                            continue
                        roots = d.roots_at(node, _strip_len(kw_.value))
                        flds = {r.split(".")[1] for r in roots if r.startswith("self.") and r.count(".") >= 1} & fields_of_interest
                        if not flds:
                            continue
                        printed |= flds
                        if callee is None:
                            continue
                        n_slots += 1
                        if kw_.arg not in callee.params():
                            res.fail_at(rule, printer, f"kw:{kw_.arg}", f"{owner_name} prints keyword '{kw_.arg}=' but {callee.qualname} has no such parameter", op)
                            continue
                        fed = feeds.get(kw_.arg, set())
                        wrong = sorted(f for f in flds if f not in fed)
                        if wrong:
                            res.fail_at(rule, printer, f"slot:{kw_.arg}", f"{owner_name} prints field(s) {wrong} under parameter '{kw_.arg}' of {callee.qualname}, which feeds {sorted(fed)}", op)
                        else:
                            res.ok(rule, f"{owner_name}: '{kw_.arg}' <- {sorted(flds)} (through {op.func.id})", {"callee": callee.qualname, "feeds": sorted(fed)})
                    continue
            roots = d.roots_at(node, _strip_len(op))
            fields = {r.split(".")[1] for r in roots if r.startswith("self.") and r.count(".") >= 1}
            fields &= fields_of_interest
            if not fields:
                continue
            printed |= fields
            # S3: field operands are printed by repr
            txt = unparse(op)
            if not ("__repr__" in txt or "repr(" in txt or "to_python" in txt or "pandas_to_example_str" in txt):
                if isinstance(op, ast.Name):
                    pass  # local built above (checked where it was built)
                elif fields <= str_ok:
                    pass
                else:
                    res.fail_at("C12-S3", printer, f"str:{'/'.join(sorted(fields))}",
                                f"operand `{txt}` prints field(s) {sorted(fields)} without repr", op)
            if slot is None or current_call is None:
                continue
            callee, feeds = feeds_lookup(current_call)
            if callee is None:
                continue
            n_slots += 1
            if slot[0] == "kw":
                kw = slot[1]
                if kw not in callee.params():
                    res.fail_at(rule, printer, f"kw:{kw}",
                                f"{owner_name} prints keyword '{kw}=' but {callee.qualname} has no such parameter", op)
                    slot = None
                    continue
                fed = feeds.get(kw, set())
            else:
                pos = [p for p in callee.params() if p != "self"]
                kw = pos[0] if pos else "?"
                fed = feeds.get(kw, set())
            wrong = sorted(f for f in fields if f not in fed)
            if wrong:
                res.fail_at(rule, printer, f"slot:{kw}",
                            f"{owner_name} prints field(s) {wrong} under parameter '{kw}' of {callee.qualname}, "
                            f"which feeds {sorted(fed)}", op)
            else:
                res.ok(rule, f"{owner_name}: '{kw}' <- {sorted(fields)}", {"callee": callee.qualname, "feeds": sorted(fed)})
            slot = None
    for f, (g_, _why) in equivalents.items():
        if f in printed:
            printed.add(g_)
    for f in required:
        if f in printed:
            res.ok(rule, f"{owner_name} prints {f}")
        else:
            res.fail_at(rule, printer, f"field:{f}", f"{owner_name} never prints semantic field {f}: the printed pipeline cannot rebuild it")
    return n_slots


def run(program, res, tier):
    res.rule("C12-S1", "every semantic field is printed into the builder/constructor parameter that feeds it")
    res.rule("C12-S2", "inline expression printing honours want_inline_parens on every path")
    res.rule("C12-S3", "literals printed with repr, never str")
    model = NodeModel(program)
    total_slots = 0
    for k in model.kinds.values():
        pr = k.method("to_python_src_")
        if pr is None:
            raise AnalysisError(f"{k.name} has no to_python_src_")
        res.analysed(pr)
        required = list(k.core_fields())
        if k.name == "TableDescription":
            required = sorted(set(required) | {"column_names", "qualifiers"})
        if k.name == "SQLNode":
            required = sorted(set(required) | {"column_names"})

        def lookup(method_name, k=k):
            if method_name == k.name:
                return k.init, feeds_for(model, k, k.init)
            m = model.base.find_method(method_name)
            if m is None:
                return None, {}
            return m, feeds_for(model, k, m)

        interest = set(k.init_fields) | {"column_names"}
        str_ok = {"sql", "column_names"} if k.name == "SQLNode" else set()
        total_slots += check_printer(res, "C12-S1", k.name + ".to_python_src_", pr, interest, lookup, required, str_ok,
                                     EQUIVALENT.get(k.name, {}))
    res.expect_count("C12-S1", "printed slots", total_slots, 18)
    _s4_optional_omission(program, model, res)
    _s5_eval_environment(program, model, res)
    # RecordMap / RecordSpecification __repr__ against their constructors
    for cname in ("RecordSpecification", "RecordMap"):
        cls = program.cls("cdata", cname)
        pr = cls.methods.get("__repr__")
        init = cls.methods.get("__init__")
        if pr is None or init is None:
            raise AnalysisError(f"anchor vanished: cdata.{cname}.__repr__/__init__")
        res.analysed(pr)
        g = cfgmod.build(init.node)
        d = depsmod.Deps(g, init.params())
        params = set(init.params()) - {"self"}
        feeds = {}
        fields = set()
        for n in g.stmt_nodes(("stmt",)):
            st = n.stmt
            if isinstance(st, ast.Assign):
                for t in st.targets:
                    if isinstance(t, ast.Attribute) and isinstance(t.value, ast.Name) and t.value.id == "self":
                        fields.add(t.attr)
                        for r in d.roots_at(n, st.value):
                            if r.split(".")[0] in params:
                                feeds.setdefault(r.split(".")[0], set()).add(t.attr)
        required = {"RecordSpecification": ["record_keys", "control_table", "control_table_keys", "strict"],
                    "RecordMap": ["blocks_in", "blocks_out", "strict"]}[cname]
        for f in required:
            if f not in fields:
                raise AnalysisError(f"cdata.{cname}: field {f} vanished")

        def lookup2(method_name, init=init, feeds=feeds, cname=cname):
            if method_name == cname:
                return init, feeds
            return None, {}

        check_printer(res, "C12-S1", cname + ".__repr__", pr, fields, lookup2, required)
    _s2(program, res)
    _s2b(program, res)
    _s3(program, res)
    # the expression text inside the printed pipeline has to be readable by the expression parser (shared with C13)
    from . import c13
    from ..report import Relabel
    res.rule("C12-S6", "operators, constants and column names print as expression text the parser reads back")
    c13.printable_ops_rule(program, Relabel(res, {"*": "C12-S6"}), rule="C12-S6")
    c13.printable_literals_rule(program, Relabel(res, {"*": "C12-S6"}), rule="C12-S6", column_names=True)


# optional fields that can hold a falsy value different from "not given" (0 is a limit; None is no limit)
FALSY_MEANINGFUL = {("OrderRowsNode", "limit"): "limit=0 keeps no rows, limit=None keeps all"}


def _s4_optional_omission(program, model, res):
    """an optional argument is left out of the print only when it has the builder's default: for a field whose falsy values differ
    from 'not given', the condition must be an `is not None` test, not truthiness (directly, or inside a formatting helper)"""
    n = 0
    for (kname, field), why in FALSY_MEANINGFUL.items():
        k = model.kinds.get(kname)
        if k is None:
            raise AnalysisError(f"anchor vanished: {kname}")
        pr = k.method("to_python_src_")
        mod = pr.module
        g = cfgmod.build(pr.node)
        found = False
        # (a) guarded print:  if <cond>: s = s + "... field=" + self.field.__repr__()
        for nd in g.stmt_nodes(("stmt",)):
            if f"self.{field}" in unparse(nd.stmt) and isinstance(nd.stmt, (ast.Assign, ast.AugAssign)) and f"{field}=" in unparse(nd.stmt):
                guards = [b for b, _l in g.lexical_guards(nd) if f"self.{field}" in unparse(b.cond)]
                found = True
                n += 1
                def _none_test(c):
                    while isinstance(c, ast.UnaryOp) and isinstance(c.op, ast.Not):
                        c = c.operand
                    return isinstance(c, ast.Compare) and len(c.ops) == 1 and isinstance(c.ops[0], (ast.IsNot, ast.Is)) \
                        and isinstance(c.comparators[0], ast.Constant) and c.comparators[0].value is None
                if guards and all(_none_test(b.cond) for b in guards):
                    res.ok("C12-S1", f"{kname}: `{field}` is printed whenever it is not None ({why})")
                elif not guards:
                    res.ok("C12-S1", f"{kname}: `{field}` is always printed")
                else:
                    res.fail_at("C12-S1", pr, f"omitted-when-falsy:{field}",
                                f"{kname}.to_python_src_ prints `{field}=` under `{unparse(guards[0].cond)}`: a falsy value that is not the default is left out "
                                f"({why}), so the printed pipeline rebuilds a different step", guards[0].stmt)
        # (b) through a keyword-formatting helper
        for c in ast.walk(pr.node):
            if isinstance(c, ast.Call) and isinstance(c.func, ast.Name) and c.func.id in mod.functions and any(
                    kw.arg == field and f"self.{field}" in unparse(kw.value) for kw in c.keywords):
                found = True
                n += 1
                helper = mod.functions[c.func.id].node
                truthy = [gen for comp in ast.walk(helper) if isinstance(comp, (ast.ListComp, ast.GeneratorExp, ast.DictComp)) for gen in comp.generators
                          for i in gen.ifs if isinstance(i, ast.Name)]
                truthy += [i for i in ast.walk(helper) if isinstance(i, ast.If) and isinstance(i.test, ast.Name)]
                if truthy:
                    res.fail_at("C12-S1", pr, f"omitted-when-falsy:{field}",
                                f"{kname}.to_python_src_ prints `{field}` through {c.func.id}(), which leaves out every falsy value: {why}, so "
                                f"`{field}=0` is not printed and the rebuilt step differs", c)
                else:
                    res.ok("C12-S1", f"{kname}: `{field}` printed through {c.func.id}() without a truthiness filter")
        if not found:
            # not printed at all / under another keyword: that is reported by the slot rule above
            res.abstain("C12-S1", f"{kname}: omission condition of `{field}`", "the field is not printed under its own keyword")
    return n


def _s5_eval_environment(program, model, res):
    """the names that head printed source (constructors of leaf nodes, record maps, data frames) are bound in the environment the library
    itself uses to re-evaluate printed pipelines (expr_parse_fn's module globals, copied into g_env)"""
    import re as _re
    ef = program.module("expr_parse_fn")
    bound = set(ef.imports) | set(ef.consts) | set(ef.functions) | set(ef.classes)
    for st in ef.toplevel:
        if isinstance(st, ast.ImportFrom):
            bound |= {a.asname or a.name for a in st.names}
        elif isinstance(st, ast.Import):
            bound |= {(a.asname or a.name).split(".")[0] for a in st.names}
    if "g_env" not in ef.consts or "globals()" not in unparse(ef.consts["g_env"]):
        raise AnalysisError("expr_parse_fn.g_env is no longer built from the module globals")
    heads = {}
    pat_head = _re.compile(r"(?:^|[\s(=])((?:[A-Za-z_][A-Za-z_0-9]*\.)*[A-Z][A-Za-z_0-9]*)\(")
    for k in model.kinds.values():
        if k.name not in ("TableDescription", "SQLNode"):
            continue
        pr = k.method("to_python_src_")
        for c in ast.walk(pr.node):
            if isinstance(c, ast.Constant) and isinstance(c.value, str):
                for m in pat_head.finditer(c.value):
                    heads.setdefault(m.group(1), pr)
    for cname in ("RecordSpecification", "RecordMap"):
        pr = program.cls("cdata", cname).methods.get("__repr__")
        for c in ast.walk(pr.node):
            if isinstance(c, ast.Constant) and isinstance(c.value, str):
                for m in pat_head.finditer(c.value):
                    heads.setdefault(m.group(1), pr)
    if not any(h.endswith("TableDescription") for h in heads) or not any(h.endswith("SQLNode") for h in heads):
        raise AnalysisError(f"printed constructor names not found (got {sorted(heads)})")
    for h, pr in sorted(heads.items()):
        root = h.split(".")[0]
        if root in bound:
            res.ok("C12-S1", f"printed source starts `{h}(`: `{root}` is bound in the re-evaluation environment (expr_parse_fn)")
        else:
            res.fail_at("C12-S1", pr, f"printed-name-unbound:{h}",
                        f"{pr.qualname} prints `{h}(…)`, but `{root}` is not among the names expr_parse_fn makes available to eval_da_ops: the "
                        f"printed source of such a pipeline raises NameError instead of rebuilding it")


def _eval_flag(cond, flag: str, value: bool):
    """three-valued evaluation of a condition in which only `flag` is known"""
    if isinstance(cond, ast.Name):
        return value if cond.id == flag else None
    if isinstance(cond, ast.UnaryOp) and isinstance(cond.op, ast.Not):
        v = _eval_flag(cond.operand, flag, value)
        return None if v is None else (not v)
    if isinstance(cond, ast.BoolOp):
        vals = [_eval_flag(v, flag, value) for v in cond.values]
        if isinstance(cond.op, ast.And):
            return False if any(v is False for v in vals) else (True if all(v is True for v in vals) else None)
        return True if any(v is True for v in vals) else (False if all(v is False for v in vals) else None)
    return None


def _memoised_print(program, res):
    """the text of a term depends on who asks: an operand position asks for parentheses (want_inline_parens=True), a top-level position does not.  A
    to_python that hands back a stored text (`if self._t is None: self._t = …; return self._t`) answers every later caller with what the *first* caller
    asked for: `a / (a + b)` prints as `a / a + b` once `a + b` was printed on its own"""
    mod = program.module("expr_rep")
    n = 0
    for cls in mod.classes.values():
        tp = cls.methods.get("to_python")
        if tp is None or "want_inline_parens" not in [a.arg for a in tp.node.args.kwonlyargs + tp.node.args.args]:
            continue
        n += 1
        stored = {unparse(t) for st in ast.walk(tp.node) if isinstance(st, ast.Assign) for t in st.targets if isinstance(t, ast.Attribute) and unparse(t.value) == "self"}
        memo = [r for r in ast.walk(tp.node) if isinstance(r, ast.Return) and r.value is not None and unparse(r.value) in stored]
        if memo:
            res.fail_at("C12-S2", tp, f"printed-text-memoised-without-flag:{cls.name}",
                        f"{cls.name}.to_python stores its text on the node and returns `{unparse(memo[0].value)}` to later callers: the stored text was built for the first caller's "
                        f"want_inline_parens, so an expression printed once on its own (a column of its own, repr()) loses its parentheses as an operand later", memo[0])
        else:
            res.ok("C12-S2", f"{cls.name}.to_python builds its text for the caller's want_inline_parens each time", nontrivial=False)
    res.expect_count("C12-S2", "to_python methods taking want_inline_parens", n, 3)


def _s2(program, res):
    _memoised_print(program, res)
    tp = program.method("expr_rep", "Expression", "to_python", inherited=False)
    # the body may have moved into a method of the class that to_python hands want_inline_parens to: that method is what prints
    for c in ast.walk(tp.node):
        if isinstance(c, ast.Call) and isinstance(c.func, ast.Attribute) and unparse(c.func.value) == "self" \
                and any(k.arg == "want_inline_parens" for k in c.keywords):
            h = program.cls("expr_rep", "Expression").find_method(c.func.attr)
            if h is not None and h.node is not tp.node and any("self.inline" == unparse(t.test).strip() for t in ast.walk(h.node) if isinstance(t, ast.If)):
                tp = h
                break
    res.analysed(tp)
    g = cfgmod.build(tp.node)
    npaths = 0
    bad = {}
    unwrapped = {}
    for path in g.paths(limit=20000):
        if len(path) < 2 or g.nodes[path[-2][0]].kind != "return":
            continue
        inline_true = False
        tested = False
        for (nid, label) in path[:-1]:
            n = g.nodes[nid]
            if n.kind == "test":
                names = {x.id for x in ast.walk(n.cond) if isinstance(x, ast.Name)}
                attrs = {dotted_name(x) for x in ast.walk(n.cond) if isinstance(x, ast.Attribute)}
                if "self.inline" in attrs and label is True and unparse(n.cond).strip() == "self.inline":
                    inline_true = True
                if "want_inline_parens" in names:
                    tested = True
        if inline_true:
            npaths += 1
            ret = g.nodes[path[-2][0]]
            if not tested:
                bad[ret.line] = ret
            else:
                # with want_inline_parens=True the inline text has to come back wrapped: a path that is feasible under that assumption
                # (every test mentioning the flag can take the branch the path took) must return "(" + ... + ")"
                feasible = True
                for (nid, label) in path[:-1]:
                    n = g.nodes[nid]
                    if n.kind == "test" and isinstance(label, bool) and "want_inline_parens" in {x.id for x in ast.walk(n.cond) if isinstance(x, ast.Name)}:
                        v = _eval_flag(n.cond, "want_inline_parens", True)
                        if v is not None and v != label:
                            feasible = False
                if feasible:
                    rv = ret.stmt.value
                    txt_arg = rv.args[0] if isinstance(rv, ast.Call) and dotted_name(rv.func) == "PythonText" and rv.args else rv
                    ops_ = add_operands(txt_arg)
                    wrapped = len(ops_) >= 3 and isinstance(ops_[0], ast.Constant) and str(ops_[0].value).startswith("(") \
                        and isinstance(ops_[-1], ast.Constant) and str(ops_[-1].value).endswith(")")
                    if not wrapped:
                        unwrapped[ret.line] = ret
    if npaths == 0:
        raise AnalysisError("Expression.to_python: no path tests self.inline")
    for line, ret in bad.items():
        res.fail_at("C12-S2", tp, "inline-return-ignores-want_inline_parens",
                    f"a path with self.inline true returns `{unparse(ret.stmt.value)[:80]}` without testing want_inline_parens: "
                    f"an inline sub-expression is printed without grouping parentheses", ret.stmt)
    for line, ret in unwrapped.items():
        res.fail_at("C12-S2", tp, "inline-text-unwrapped-although-parens-wanted",
                    f"with want_inline_parens=True an inline form can still return `{unparse(ret.stmt.value)[:80]}` (the wrapping depends on a further condition): "
                    f"a unary minus printed bare inside a tighter-binding operator regroups — (-x) ** 2 prints as -x ** 2, which reads back as -(x ** 2)", ret.stmt)
    if not bad and not unwrapped:
        res.ok("C12-S2", f"all {npaths} inline paths of Expression.to_python test want_inline_parens and return wrapped text when it is set")
    # operands of inline n-ary forms are printed with want_inline_parens=True
    n_calls = 0
    for st in ast.walk(tp.node):
        if isinstance(st, ast.If) and unparse(st.test).strip() == "self.inline":
            for c in [c for b in st.body for c in ast.walk(b)]:
                if isinstance(c, ast.Call) and isinstance(c.func, ast.Attribute) and c.func.attr == "to_python":
                    # only the n-ary form (iterating self.args)
                    kws = {kw.arg: kw.value for kw in c.keywords}
                    recv = unparse(c.func.value)
                    if recv.startswith("self.args["):
                        continue
                    n_calls += 1
                    v = kws.get("want_inline_parens")
                    if isinstance(v, ast.Constant) and v.value is True:
                        res.ok("C12-S2", "operands of inline n-ary expressions printed with want_inline_parens=True")
                    else:
                        res.fail_at("C12-S2", tp, "inline-operands-without-parens",
                                    f"`{unparse(c)}` prints an operand of an inline expression without want_inline_parens=True", c)
    if n_calls == 0:
        raise AnalysisError("Expression.to_python: inline n-ary operand printing not found")


def _s2b(program, res, rule="C12-S2"):
    """PythonText(text, is_in_parens=True) may only be claimed for a text that is wrapped as a whole: "(" + ... + ")" """
    mod = program.module("expr_rep")
    n = 0
    for f in program.all_functions():
        if f.module is not mod:
            continue
        for c in ast.walk(f.node):
            if isinstance(c, ast.Call) and dotted_name(c.func) == "PythonText" and c.args:
                kws = {kw.arg: kw.value for kw in c.keywords}
                v = kws.get("is_in_parens")
                if not (isinstance(v, ast.Constant) and v.value is True):
                    continue
                n += 1
                ops = add_operands(c.args[0])
                first, last = ops[0], ops[-1]
                wrapped = isinstance(first, ast.Constant) and isinstance(first.value, str) and first.value.startswith("(") \
                    and isinstance(last, ast.Constant) and isinstance(last.value, str) and last.value.endswith(")") and len(ops) >= 3
                if wrapped:
                    res.ok(rule, f"{f.qualname}: is_in_parens=True is claimed for a text wrapped as a whole")
                else:
                    res.fail_at(rule, f, "is_in_parens-claimed-for-unwrapped-text",
                                f"`{unparse(c)[:80]}` marks the text as parenthesised although it is not wrapped as a whole: callers that "
                                f"trust the flag (method-call printing) omit the grouping parentheses, e.g. (-x).abs() prints as -(x).abs()", c)
    if n == 0:
        raise AnalysisError("expr_rep: no PythonText(..., is_in_parens=True) construction found")
    # a literal can start with a unary minus: Value.to_python must honour want_inline_parens for negative numbers
    vp = program.method("expr_rep", "Value", "to_python", inherited=False)
    g = cfgmod.build(vp.node)
    tests = [t for t in g.stmt_nodes(("test",)) if "want_inline_parens" in unparse(t.cond)]
    ok = False
    by_comparison = None
    for t in tests:
        c = unparse(t.cond)
        textual = "startswith('-')" in c or 'startswith("-")' in c or "copysign" in c
        numeric = any(isinstance(x, ast.Compare) and len(x.ops) == 1 and isinstance(x.ops[0], (ast.Lt, ast.LtE)) and isinstance(x.comparators[0], ast.Constant)
                      and x.comparators[0].value == 0 for x in ast.walk(t.cond))
        if textual or numeric:
            wrapped = [r for r in g.returns() if any(b is t and lab is True for b, lab in g.lexical_guards(r)) and '"("' in unparse(r.stmt.value).replace("'", '"')]
            if wrapped:
                ok = True
                if numeric and not textual:
                    by_comparison = t
    if ok and by_comparison is not None:
        res.fail_at(rule, vp, "negative-zero-ungrouped",
                    "Value.to_python decides 'starts with a minus' by comparing the number with 0: -0.0 < 0 is False, so (-0.0) ** y prints as -0.0 ** y and "
                    "re-parses as -(0.0 ** y) — a different tree and the opposite sign of zero; the test has to look at the printed text (or the sign bit)",
                    by_comparison.stmt if hasattr(by_comparison, "stmt") else None)
        return
    if ok:
        res.ok(rule, "Value.to_python groups a negative numeric literal when want_inline_parens is set")
    else:
        res.fail_at(rule, vp, "negative-literal-ungrouped",
                    "Value.to_python ignores want_inline_parens: a negative literal is printed with a bare leading minus inside an operator "
                    "expression, so (-3) ** y prints as -3 ** y and re-parses as -(3 ** y)")


def _s3(program, res):
    vp = program.method("expr_rep", "Value", "to_python", inherited=False)
    res.analysed(vp)
    txt = unparse(vp.node)
    uses_repr = "self.value.__repr__()" in txt or "repr(self.value)" in txt
    uses_str = "str(self.value)" in txt or "format(self.value" in txt or "f'{self.value}'" in txt
    if uses_repr and not uses_str:
        res.ok("C12-S3", "Value.to_python prints the literal with repr")
    elif uses_str:
        res.fail_at("C12-S3", vp, "value-not-repr", "Value.to_python converts the literal with str(): strings lose their quotes, floats their precision")
    else:
        raise AnalysisError("Value.to_python: conversion of self.value not found")
    # what repr prints is evaluable only for the builtin scalar types: a constant admitted through the type-equivalence table
    # (numpy scalars) has to be stored as its canonical builtin type, or be converted before printing
    vi = program.method("expr_rep", "Value", "__init__", inherited=False)
    res.analysed(vi)
    admits_foreign = any(isinstance(c, ast.Call) and (dotted_name(c.func) or "").endswith("map_type_to_canonical")
                         and any(isinstance(a, ast.Call) and dotted_name(a.func) == "type" for a in c.args) for c in ast.walk(vi.node))
    if admits_foreign:
        canon_names = {st.targets[0].id for st in ast.walk(vi.node) if isinstance(st, ast.Assign) and len(st.targets) == 1 and isinstance(st.targets[0], ast.Name)
                       and isinstance(st.value, ast.Call) and (dotted_name(st.value.func) or "").endswith("map_type_to_canonical")}

        def _converts(fn_node, subject):
            for c in ast.walk(fn_node):
                if isinstance(c, ast.Call) and len(c.args) == 1 and unparse(c.args[0]) == subject:
                    f = c.func
                    if isinstance(f, ast.Name) and f.id in canon_names:
                        return True
                    if isinstance(f, ast.Call) and (dotted_name(f.func) or "").endswith("map_type_to_canonical"):
                        return True
                if isinstance(c, ast.Call) and isinstance(c.func, ast.Attribute) and c.func.attr == "item" and unparse(c.func.value) == subject:
                    return True
            return False

        if _converts(vi.node, "value") or _converts(vp.node, "self.value"):
            res.ok("C12-S3", "a constant admitted through the type-equivalence table is converted to its canonical builtin type before it is printed")
        else:
            res.fail_at("C12-S3", vi, "foreign-scalar-printed-with-its-own-repr",
                        "Value admits any type the equivalence table maps to int/float/str/bool (numpy scalars) but stores and prints the object as given: "
                        "repr(numpy.float64(2.0)) is 'np.float64(2.0)', so select_rows(x > numpy.float64(2.0)) prints text that can not be evaluated (unknown symbol np)")
    # the same for the other carriers of raw literals: a class of expr_rep whose to_python prints stored items with repr and whose constructor
    # takes them from the caller as they are (DictTerm: keys and values of a mapv dictionary) has to bring them to the canonical builtin types too
    er = program.module("expr_rep")
    n_carriers = 0
    for cls_ in program.all_classes():
        if cls_.module is not er or cls_.name == "Value":
            continue
        tp = cls_.methods.get("to_python")
        ini = cls_.methods.get("__init__")
        if tp is None or ini is None:
            continue
        prints_items = any(isinstance(c, ast.Call) and isinstance(c.func, ast.Attribute) and c.func.attr == "__repr__" and "self.value" not in unparse(c.func.value)
                           and not any(isinstance(x, ast.Attribute) and x.attr == "to_python" for x in ast.walk(c.func.value)) for c in ast.walk(tp.node))
        stores_raw = any(isinstance(st, ast.Assign) and unparse(st.targets[0]) == "self.value" for st in ast.walk(ini.node))
        if not (prints_items and stores_raw):
            continue
        n_carriers += 1
        res.analysed(tp, ini)
        def _is_canon_call(c, scope):
            if not isinstance(c, ast.Call):
                return False
            if (dotted_name(c.func) or "").endswith("map_type_to_canonical"):
                return True
            if isinstance(c.func, ast.Name):
                helper = next((h for h in ast.walk(scope) if isinstance(h, ast.FunctionDef) and h.name == c.func.id and h is not scope), None)
                return helper is not None and any(isinstance(x, ast.Call) and (dotted_name(x.func) or "").endswith("map_type_to_canonical") for x in ast.walk(helper))
            return False
        stores = [st for st in ast.walk(ini.node) if isinstance(st, ast.Assign) and unparse(st.targets[0]) == "self.value"]
        canon = any(any(_is_canon_call(c, ini.node) for c in ast.walk(st.value)) for st in stores) \
            or any(_is_canon_call(c, tp.node) for c in ast.walk(tp.node) if not isinstance(c, ast.FunctionDef))
        if canon:
            res.ok("C12-S3", f"{cls_.name}: items printed with repr are brought to their canonical builtin types first")
        else:
            res.fail_at("C12-S3", ini, f"foreign-scalar-printed-with-its-own-repr:{cls_.name}",
                        f"{cls_.name} stores the caller's items as given and prints each with repr: a mapv dictionary built from numpy values "
                        f"(dict(zip(codes.k.values, codes.v.values))) prints {{np.int64(1): np.float64(10.5)}}, which eval_da_ops can not read (unknown symbol np)")
    # ListTerm: its printer falls back to str(item) for an item that is not a term (strings lose their quotes) and its column scan calls
    # item.get_column_names: the constructor therefore has to hold terms only
    lt = program.cls("expr_rep", "ListTerm").methods.get("__init__")
    res.analysed(lt)
    def _wrapping_call(c):
        if not isinstance(c, ast.Call):
            return False
        if (dotted_name(c.func) or "") in ("Value", "enc_value"):
            return True
        if isinstance(c.func, ast.Name):
            h_ = next((h for h in ast.walk(lt.node) if isinstance(h, ast.FunctionDef) and h.name == c.func.id and h is not lt.node), None)
            return h_ is not None and any(isinstance(x, ast.Call) and (dotted_name(x.func) or "") in ("Value", "enc_value") for x in ast.walk(h_))
        return False
    # `.item()` is also what a one-element array or column answers to: a conversion of "numpy numbers" has to exclude what has a length
    for cname_ in ("ListTerm", "DictTerm"):
        ini_ = program.cls("expr_rep", cname_).methods.get("__init__")
        if ini_ is None:
            continue
        for t_ in ast.walk(ini_.node):
            if isinstance(t_, ast.If) and any(isinstance(c, ast.Call) and isinstance(c.func, ast.Attribute) and c.func.attr == "item" and not c.args for st in t_.body for c in ast.walk(st)):
                tt = unparse(t_.test)
                if ".kind" not in tt and "dtype" not in tt:
                    continue  # another test (isinstance(numpy.generic) ...) is exact by itself
                if "__len__" in tt and "ndim" not in tt:
                    res.fail_at("C12-S3", ini_, f"zero-dimensional-array-refused:{cname_}",
                                f"{cname_} tells scalars from arrays by `__len__` (`{tt[:70]}`): numpy.ndarray defines __len__ for every array, a zero-dimensional one "
                                f"(numpy.array(3), the result of .squeeze()) included, so x.is_in([1, numpy.array(3)]) is refused although it holds one number", t_)
                elif "ndim" in tt or "numpy.generic" in tt or "isscalar" in tt:
                    res.ok("C12-S3", f"{cname_}: the numpy conversion takes scalars only")
                else:
                    res.fail_at("C12-S3", ini_, f"array-item-taken-for-scalar:{cname_}",
                                f"{cname_} converts whatever has `.item` and a numeric `.dtype` (`{tt[:70]}`): a one-item array or Series inside the literal is silently taken for "
                                f"its item (x.is_in([pandas.Series([1])]) tests for 1), a longer one fails inside numpy", t_)
    wraps = any(isinstance(st, ast.Assign) and unparse(st.targets[0]) == "self.value" and any(_wrapping_call(c) for c in ast.walk(st.value)) for st in ast.walk(lt.node))
    if wraps:
        res.ok("C12-S3", "ListTerm holds terms: plain items given to it are wrapped as values")
    else:
        res.fail_at("C12-S3", lt, "list-items-kept-raw",
                    "ListTerm keeps plain Python items as given: col('x').is_in(['a', 'b']) prints 'x.is_in([a, b])' (no quotes, not re-readable) and adding the step raises "
                    "AttributeError: 'str' object has no attribute 'get_column_names'")
    # dict keys of ops printed with repr in node printers: k.__repr__() + ": " + opi.to_python().__repr__()
    for cname in ("ExtendNode", "ProjectNode"):
        pr = program.method("view_representations", cname, "to_python_src_", inherited=False)
        txt = unparse(pr.node)
        if re.search(r"\w+\.__repr__\(\)\s*\+\s*': '\s*\+\s*\w+\.to_python\(\)\.__repr__\(\)", txt):
            res.ok("C12-S3", f"{cname} prints op keys and expression text with repr")
        else:
            res.fail_at("C12-S3", pr, "ops-not-repr", f"{cname}.to_python_src_ does not print `key.__repr__() + ': ' + op.to_python().__repr__()`")
