"""C11 pipelines that compare equal behave identically — structural clauses."""
from __future__ import annotations

import ast
from typing import Dict, List, Optional, Set, Tuple

from .. import cfg as cfgmod
from ..index import AnalysisError, ClassInfo, FuncInfo, dotted_name, unparse
from ..nodes import DERIVED, EQUIVALENT, NodeModel

EXPLANATION = (
    "Static rules over every structural-equality method of the package (ViewRepresentation.__eq__ and the 13 "
    "_equiv_nodes, TableDescription.__eq__, the five Term is_equal methods, RecordMap/RecordSpecification/"
    "DataOpArrow.__eq__). S1: on every CFG path on which the method can return a non-False value, every "
    "semantic field of the class (assigned in __init__ and read by an evaluator; minus fields that are "
    "functions of other fields) is examined: self.f and other.f occur together in a branch condition or in "
    "the returned expression, or the path tested self.f against None. S2: comparisons pair the same field on "
    "both sides and the type test is two-sided. S3: Term.__eq__/__ne__ build expressions, so a Python "
    "==/!=/in over a field whose elements the class itself treats as Terms is never a comparison. "
    "Not decided: that equal fields imply equal results for values Python's == conflates (1 == True)."
)

PRETERM_METHODS = {"get_column_names", "get_method_names", "to_python", "act_on", "is_equal"}
TERM_ONLY_METHODS = {"get_column_names", "get_method_names", "is_equal"}  # not shared with operator nodes

# classes outside the operator-node hierarchy: (module, class, method, derived fields, exempt fields+reason)
EQ_TARGETS = [
    ("cdata", "RecordSpecification", "__eq__",
     {"block_columns": "record_keys + control_table columns", "content_keys": "cells of control_table",
      "row_columns": "record_keys + content_keys"}, {}),
    ("cdata", "RecordMap", "__eq__",
     {"columns_needed": "from blocks_in/blocks_out", "columns_produced": "from blocks_in/blocks_out"},
     {"strict": "construction-time validation switch, read only by assertions and the printer"}),
    ("arrow", "DataOpArrow", "__eq__", {}, {}),
    ("expr_rep", "Value", "is_equal", {}, {}),
    ("expr_rep", "ListTerm", "is_equal", {}, {}),
    ("expr_rep", "DictTerm", "is_equal", {}, {}),
    ("expr_rep", "ColumnReference", "is_equal", {}, {}),
    ("expr_rep", "Expression", "is_equal", {},
     {"method": "print form only (x.f() vs f(x)); both re-parse to the same expression"}),
]


def own_init_fields(cls: ClassInfo) -> List[str]:
    init = cls.methods.get("__init__")
    if init is None:
        return []
    out = []
    for n in ast.walk(init.node):
        if isinstance(n, ast.Attribute) and isinstance(n.value, ast.Name) and n.value.id == "self" \
                and isinstance(n.ctx, ast.Store) and n.attr not in out:
            out.append(n.attr)
    return out


def _fields_of(expr: ast.AST, recv: str) -> Set[str]:
    return {n.attr for n in ast.walk(expr)
            if isinstance(n, ast.Attribute) and isinstance(n.value, ast.Name) and n.value.id == recv}


def _self_method_reads(cls: ClassInfo, name: str, depth: int = 2) -> Set[str]:
    m = cls.find_method(name)
    if m is None:
        return set()
    out = _fields_of(m.node, "self")
    if depth > 0:
        for c in ast.walk(m.node):
            if isinstance(c, ast.Call) and isinstance(c.func, ast.Attribute) and isinstance(c.func.value, ast.Name) \
                    and c.func.value.id == "self" and cls.find_method(c.func.attr) is not None:
                out |= _self_method_reads(cls, c.func.attr, depth - 1)
    return out


def _loop_aliases(fnode: ast.AST, other: str):
    """`for a, b in ((self.f, other.f), (self.g, other.g))`: a -> self-fields {f, g}, b -> other-fields {f, g}"""
    al_self: Dict[str, Set[str]] = {}
    al_other: Dict[str, Set[str]] = {}
    literal_loops = set()
    for n in ast.walk(fnode):
        if isinstance(n, ast.For) and isinstance(n.iter, (ast.Tuple, ast.List)) and n.iter.elts \
                and all(isinstance(e, (ast.Tuple, ast.List)) for e in n.iter.elts) and isinstance(n.target, (ast.Tuple, ast.List)):
            literal_loops.add(id(n))
            for pos, t in enumerate(n.target.elts):
                if not isinstance(t, ast.Name):
                    continue
                for e in n.iter.elts:
                    if pos < len(e.elts):
                        d = dotted_name(e.elts[pos])
                        if d and d.count(".") == 1:
                            base, f = d.split(".")
                            if base == "self":
                                al_self.setdefault(t.id, set()).add(f)
                            elif base == other:
                                al_other.setdefault(t.id, set()).add(f)
    # for a, b in zip(self.f, other.g): a -> self-field f, b -> other-field g
    for n in ast.walk(fnode):
        gens = []
        if isinstance(n, ast.For):
            gens.append((n.target, n.iter))
        if isinstance(n, (ast.ListComp, ast.SetComp, ast.GeneratorExp, ast.DictComp)):
            gens += [(gn.target, gn.iter) for gn in n.generators]
        for (tgt, it) in gens:
            if isinstance(it, ast.Call) and dotted_name(it.func) == "zip" and isinstance(tgt, (ast.Tuple, ast.List)):
                for pos, t in enumerate(tgt.elts):
                    if pos >= len(it.args):
                        continue
                    a = it.args[pos]
                    # zip(self.f.items(), other.f.items()): the items / keys / values of a field are the field's content
                    if isinstance(a, ast.Call) and isinstance(a.func, ast.Attribute) and a.func.attr in ("items", "keys", "values") and not a.args:
                        a = a.func.value
                    d = dotted_name(a)
                    if d and d.count(".") == 1:
                        base, f = d.split(".")
                        # a nested target ((k, v), ...) names parts of the same element
                        for nm in [x.id for x in ast.walk(t) if isinstance(x, ast.Name)]:
                            if base == "self":
                                al_self.setdefault(nm, set()).add(f)
                            elif base == other:
                                al_other.setdefault(nm, set()).add(f)
    return al_self, al_other, literal_loops


_HELPER_CACHE: Dict[int, Set[str]] = {}


def _comparison_helpers(module) -> Set[str]:
    """module-level functions of two parameters that return a comparison of (something of) the first with (something of) the second"""
    key = id(module)
    if key not in _HELPER_CACHE:
        out = set()
        for name, f in getattr(module, "functions", {}).items():
            ps = [a.arg for a in f.node.args.args]
            if len(ps) != 2:
                continue
            rets = [r.value for r in ast.walk(f.node) if isinstance(r, ast.Return) and r.value is not None]
            ok = bool(rets)
            for rv in rets:
                cmps = [c for c in ast.walk(rv) if isinstance(c, ast.Compare) and len(c.ops) == 1 and isinstance(c.ops[0], ast.Eq)]
                if not any(ps[0] in {x.id for x in ast.walk(c.left) if isinstance(x, ast.Name)} and ps[1] in {x.id for x in ast.walk(c.comparators[0]) if isinstance(x, ast.Name)}
                           for c in cmps):
                    ok = False
            if ok:
                out.add(name)
        _HELPER_CACHE[key] = out
    return _HELPER_CACHE[key]


def _examined(expr: ast.AST, other: str, cls: ClassInfo, al_self=None, al_other=None) -> Tuple[Set[str], Set[str], List[str]]:
    """(fields compared self-vs-other, fields None-tested on self, asymmetries) within one expression"""
    al_self = al_self or {}
    al_other = al_other or {}
    compared: Set[str] = set()
    nonetest: Set[str] = set()
    asym: List[str] = []
    # occurrences inside `x is None` / `x is not None` are None-ness tests, not value comparisons
    skip = set()
    for n in ast.walk(expr):
        if isinstance(n, ast.Compare) and len(n.ops) == 1 and isinstance(n.ops[0], (ast.Is, ast.IsNot)) \
                and isinstance(n.comparators[0], ast.Constant) and n.comparators[0].value is None:
            for sub in ast.walk(n):
                skip.add(id(sub))
        # len(x) and x.keys() compare sizes / key sets, not the field's content
        if isinstance(n, ast.Call) and ((isinstance(n.func, ast.Name) and n.func.id == "len") or
                                        (isinstance(n.func, ast.Attribute) and n.func.attr == "keys")):
            for sub in ast.walk(n):
                skip.add(id(sub))

    def fields(recv, scope):
        out = {n.attr for n in ast.walk(scope) if isinstance(n, ast.Attribute) and isinstance(n.value, ast.Name)
               and n.value.id == recv and id(n) not in skip}
        al = al_self if recv == "self" else al_other
        for n in ast.walk(scope):
            if isinstance(n, ast.Name) and n.id in al and id(n) not in skip:
                out |= al[n.id]
        return out

    # a field is *compared* when self.f and other.f meet in one comparison / equality call (not merely in one expression)
    for n in ast.walk(expr):
        joined = None
        if isinstance(n, ast.Compare) and any(isinstance(o, (ast.Eq, ast.NotEq)) for o in n.ops):
            joined = n
        elif isinstance(n, ast.Call) and isinstance(n.func, ast.Attribute) and n.func.attr in ("is_equal", "__eq__", "__ne__", "equals", "same_table_description_"):
            joined = n
        elif isinstance(n, ast.Call) and isinstance(n.func, ast.Name) and n.func.id in _comparison_helpers(cls.module) and len(n.args) == 2:
            joined = n
        if joined is not None:
            compared |= (fields("self", joined) & fields(other, joined))
    # self.m() == other.m(): fields read by m
    smeth = set()
    ometh = set()
    for c in ast.walk(expr):
        if isinstance(c, ast.Call) and isinstance(c.func, ast.Attribute) and isinstance(c.func.value, ast.Name):
            if c.func.value.id == "self" and cls.find_method(c.func.attr) is not None:
                smeth.add(c.func.attr)
            if c.func.value.id == other and cls.find_method(c.func.attr) is not None:
                ometh.add(c.func.attr)
    for m in smeth & ometh:
        compared |= _self_method_reads(cls, m)
    for n in ast.walk(expr):
        if isinstance(n, ast.Compare) and len(n.ops) == 1 and isinstance(n.ops[0], (ast.Is, ast.IsNot)) \
                and isinstance(n.comparators[0], ast.Constant) and n.comparators[0].value is None:
            nonetest |= _fields_of(n.left, "self")
        if isinstance(n, ast.Compare) and len(n.ops) == 1 and isinstance(n.ops[0], (ast.Eq, ast.NotEq)):
            l_s, l_o = _fields_of(n.left, "self"), _fields_of(n.left, other)
            r_s, r_o = _fields_of(n.comparators[0], "self"), _fields_of(n.comparators[0], other)
            a, b = (l_s | r_s), (l_o | r_o)
            if a and b and a != b:
                asym.append(unparse(n))
    for n in ast.walk(expr):
        # self.f.is_equal(other.g) / self.f.__eq__(other.g)
        if isinstance(n, ast.Call) and isinstance(n.func, ast.Attribute) and n.func.attr in ("is_equal", "__eq__") and n.args:
            a = _fields_of(n.func.value, "self") | _fields_of(n.args[0], "self")
            b = _fields_of(n.func.value, other) | _fields_of(n.args[0], other)
            if a and b and a != b:
                asym.append(unparse(n))
    return compared, nonetest, asym


def _expand(cond: ast.AST, truth: bool):
    """alternatives of (atom, truth) lists describing how `cond` evaluates to `truth` under short-circuit evaluation"""
    if isinstance(cond, ast.UnaryOp) and isinstance(cond.op, ast.Not):
        return _expand(cond.operand, not truth)
    if isinstance(cond, ast.BoolOp):
        conj = isinstance(cond.op, ast.And)
        if conj == truth:
            # and=True / or=False: every operand evaluated with that truth value
            alts = [[]]
            for v in cond.values:
                alts = [a + b for a in alts for b in _expand(v, truth)]
            return alts
        # and=False / or=True: operands before the deciding one have the opposite value, later ones are not evaluated
        out = []
        prefix = [[]]
        for v in cond.values:
            for a in prefix:
                for b in _expand(v, truth):
                    out.append(a + b)
            prefix = [a + b for a in prefix for b in _expand(v, not truth)]
        return out
    return [[(cond, truth)]]


def check_eq_method(res, rule: str, cls: ClassInfo, m: FuncInfo, required: List[str], aliases: Dict[str, str]):
    """path-based examined-field check; aliases maps a compared field to the semantic field it carries"""
    params = [p for p in m.params() if p != "self"]
    if not params:
        raise AnalysisError(f"{m.where()} has no `other` parameter")
    other = params[0]
    g = cfgmod.build(m.node)
    al_self, al_other, literal_loops = _loop_aliases(m.node, other)
    missing_on_path: Dict[str, str] = {}
    asyms: Set[str] = set()
    npaths = 0
    for path in g.paths(limit=20000):
        # a loop over a non-empty literal tuple always runs: the zero-iteration path is infeasible
        if any(g.nodes[nid].kind == "iter" and id(g.nodes[nid].stmt) in literal_loops and lab is False
               and not any(n2 == nid and l2 is True for (n2, l2) in path) for (nid, lab) in path):
            continue
        last = g.nodes[path[-2][0]] if len(path) >= 2 else None
        if last is None or last.kind != "return":
            continue
        rv = last.stmt.value
        if isinstance(rv, ast.Constant) and rv.value is False:
            continue
        npaths += 1
        entered = {nid for (nid, label) in path[:-1] if g.nodes[nid].kind == "iter" and label is True}
        # expand and/or/not conditions into the alternatives of atoms that were actually evaluated (short circuit)
        variants = [[]]
        for (nid, label) in path[:-1]:
            n = g.nodes[nid]
            if n.kind == "test" and n.cond is not None and isinstance(label, bool):
                alts = _expand(n.cond, label)
                variants = [v + [("atom", a)] for v in variants for a in alts][:512]
            elif n.kind == "iter":
                variants = [v + [("iter", (n, nid not in entered))] for v in variants]
            elif n.kind == "return" and n.stmt.value is not None:
                variants = [v + [("expr", n.stmt.value)] for v in variants]
            elif n.kind == "stmt" and isinstance(n.stmt, ast.Assign):
                variants = [v + [("expr", n.stmt.value)] for v in variants]
        for events in variants:
            compared: Set[str] = set()
            nonetest: Set[str] = set()
            none_equal: Set[str] = set()   # fields for which the path established (self.f is None) == (other.f is None)
            other_none: Set[str] = set()
            trail = []
            for (kind, payload) in events:
                if kind == "iter":
                    (n, zero) = payload
                    if zero:
                        # zero iterations: the collection is empty on this path, nothing of it is left to compare
                        compared |= _fields_of(n.cond, "self") & (_fields_of(n.cond, other) | _fields_of(n.cond, "self"))
                    continue
                if kind == "expr":
                    c, _nt, a = _examined(payload, other, cls, al_self, al_other)
                    compared |= c
                    asyms |= set(a)
                    continue
                for (atom, truth) in payload:
                    trail.append(f"{unparse(atom)}={truth}")
                    c, _nt, a = _examined(atom, other, cls, al_self, al_other)
                    compared |= c
                    asyms |= set(a)
                    # (self.f is None) != (other.f is None) false / == true: None-ness agrees on this path
                    if isinstance(atom, ast.Compare) and len(atom.ops) == 1 and isinstance(atom.ops[0], (ast.NotEq, ast.Eq)):
                        sides = [atom.left, atom.comparators[0]]
                        if all(isinstance(sd, ast.Compare) and len(sd.ops) == 1 and isinstance(sd.ops[0], (ast.Is, ast.IsNot))
                               and isinstance(sd.comparators[0], ast.Constant) and sd.comparators[0].value is None for sd in sides):
                            fs = _fields_of(sides[0], "self") | _fields_of(sides[1], "self")
                            fo = _fields_of(sides[0], other) | _fields_of(sides[1], other)
                            if (isinstance(atom.ops[0], ast.NotEq) and truth is False) or (isinstance(atom.ops[0], ast.Eq) and truth is True):
                                none_equal |= (fs & fo)
                    # a plain None-test taken in the direction that entails None
                    if isinstance(atom, ast.Compare) and len(atom.ops) == 1 and isinstance(atom.ops[0], (ast.Is, ast.IsNot)) \
                            and isinstance(atom.comparators[0], ast.Constant) and atom.comparators[0].value is None:
                        d = dotted_name(atom.left)
                        is_none = (isinstance(atom.ops[0], ast.Is) and truth is True) or (isinstance(atom.ops[0], ast.IsNot) and truth is False)
                        if d and d.startswith("self.") and d.count(".") == 1 and is_none:
                            nonetest.add(d[5:])
                        if d and d.startswith(other + ".") and d.count(".") == 1 and is_none:
                            other_none.add(d.split(".")[1])
                        if isinstance(atom.left, ast.Name) and is_none:
                            nonetest |= al_self.get(atom.left.id, set())
                            other_none |= al_other.get(atom.left.id, set())
            # a field may go uncompared only if the path knows it is None on *both* sides
            both_none = {f for f in nonetest if f in none_equal or f in other_none}
            seen = compared | both_none
            seen |= {aliases[f] for f in list(seen) if f in aliases}
            one_sided = nonetest - both_none - compared
            for f in required:
                if f not in seen and f not in missing_on_path:
                    why = "; ".join(trail[-6:]) or "(straight line)"
                    if f in one_sided:
                        why += f" — self.{f} is None on this path but nothing establishes that {other}.{f} is None too (asymmetric)"
                    missing_on_path[f] = why
    if npaths == 0:
        raise AnalysisError(f"{m.where()}: no path returns a non-False value")
    for f in required:
        if f in missing_on_path:
            res.fail_at(rule, m, f"field:{f}",
                        f"{cls.name}.{m.name} can return a non-False value without examining self.{f} against "
                        f"{other}.{f} (path: {missing_on_path[f]})")
        else:
            res.ok(rule, f"{cls.name}.{m.name} examines {f} on all {npaths} accepting paths")
    for a in sorted(asyms):
        res.fail_at("C11-S2", m, f"asym:{a}", f"comparison `{a}` pairs different fields of self and {other}")
    return npaths


def term_valued_fields(cls: ClassInfo) -> Dict[str, str]:
    """fields whose elements the class's own methods treat as PreTerms (the code's belief)"""
    out: Dict[str, str] = {}
    for m in cls.methods.values():
        for n in ast.walk(m.node):
            # loops / comprehensions over self.f (or self.f.values()/.items()) whose target receives PreTerm methods
            iters = []
            if isinstance(n, (ast.For,)):
                iters.append((n.iter, n.target, n))
            if isinstance(n, (ast.ListComp, ast.SetComp, ast.GeneratorExp, ast.DictComp)):
                for gen in n.generators:
                    iters.append((gen.iter, gen.target, n))
            for it, tgt, scope in iters:
                fs = _fields_of(it, "self")
                if not fs:
                    continue
                tnames = {x.id for x in ast.walk(tgt) if isinstance(x, ast.Name)}
                for c in ast.walk(scope):
                    if isinstance(c, ast.Call) and isinstance(c.func, ast.Attribute) and c.func.attr in PRETERM_METHODS \
                            and isinstance(c.func.value, ast.Name) and c.func.value.id in tnames:
                        for f in fs:
                            out.setdefault(f, f"{m.name}: element.{c.func.attr}()")
                    if isinstance(c, ast.Call) and dotted_name(c.func) == "isinstance" and len(c.args) == 2 \
                            and isinstance(c.args[0], ast.Name) and c.args[0].id in tnames \
                            and "Term" in unparse(c.args[1]):
                        for f in fs:
                            out.setdefault(f, f"{m.name}: isinstance(element, {unparse(c.args[1])})")
            # self.f[k].method()
            if isinstance(n, ast.Call) and isinstance(n.func, ast.Attribute) and n.func.attr in PRETERM_METHODS \
                    and isinstance(n.func.value, ast.Subscript):
                for f in _fields_of(n.func.value.value, "self"):
                    if isinstance(n.func.value.value, ast.Attribute):
                        out.setdefault(f, f"{m.name}: self.{f}[..].{n.func.attr}()")
            # self.f.method() where f itself is a term
            if isinstance(n, ast.Call) and isinstance(n.func, ast.Attribute) and n.func.attr in TERM_ONLY_METHODS \
                    and isinstance(n.func.value, ast.Attribute) and isinstance(n.func.value.value, ast.Name) \
                    and n.func.value.value.id == "self":
                out.setdefault(n.func.value.attr, f"{m.name}: self.{n.func.value.attr}.{n.func.attr}()")
            # local alias: vi = self.f[i]; isinstance(vi, PreTerm)
        for n in ast.walk(m.node):
            if isinstance(n, ast.Assign) and len(n.targets) == 1 and isinstance(n.targets[0], ast.Name) \
                    and isinstance(n.value, ast.Subscript):
                fs = _fields_of(n.value.value, "self")
                if fs and isinstance(n.value.value, ast.Attribute):
                    v = n.targets[0].id
                    for c in ast.walk(m.node):
                        if isinstance(c, ast.Call) and dotted_name(c.func) == "isinstance" and len(c.args) == 2 \
                                and isinstance(c.args[0], ast.Name) and c.args[0].id == v and "Term" in unparse(c.args[1]):
                            for f in fs:
                                out.setdefault(f, f"{m.name}: isinstance(self.{f}[i], {unparse(c.args[1])})")
    return out


def check_overloaded_eq(res, cls: ClassInfo, m: FuncInfo):
    tv = term_valued_fields(cls)
    params = [p for p in m.params() if p != "self"]
    other = params[0] if params else "other"
    n_checked = 0
    for n in ast.walk(m.node):
        if isinstance(n, ast.Compare):
            for op, right in zip(n.ops, n.comparators):
                if isinstance(op, (ast.Eq, ast.NotEq, ast.In, ast.NotIn)):
                    for side in (n.left,):
                        d = dotted_name(side)
                        if d and d.count(".") == 1 and d.split(".")[0] in ("self", other) and d.split(".")[1] in tv:
                            n_checked += 1
                            f = d.split(".")[1]
                            res.fail_at("C11-S3", m, f"eq-on-terms:{f}",
                                        f"`{unparse(n)}` applies Python {type(op).__name__} to {d}, whose elements are Terms "
                                        f"({tv[f]}); Term.__eq__ builds an expression (always truthy), so this is not a comparison", n)
    return tv, n_checked


def _s4_literal_equality(program, res):
    """Python's == conflates literals that behave differently in a pipeline (1 == 1.0 == True, 0.0 == -0.0) and is not reflexive on nan.
    The is_equal methods of the literal-holding terms must not decide by a bare ==/!= on the held values."""
    n = 0
    for cname in ("Value", "ListTerm", "DictTerm"):
        m = program.method("expr_rep", cname, "is_equal", inherited=False)
        res.analysed(m)
        other = [p for p in m.params() if p != "self"][0]
        bare = []
        for c in ast.walk(m.node):
            if isinstance(c, ast.Compare) and len(c.ops) == 1 and isinstance(c.ops[0], (ast.Eq, ast.NotEq)):
                sides = [unparse(c.left), unparse(c.comparators[0])]
                if any(sd.startswith("len(") or sd.startswith("type(") or "__repr__" in sd or sd.startswith("repr(") for sd in sides):
                    continue
                # values of the two terms (directly, or the loop variables of a zip over them)
                zipped = {t.id for f in ast.walk(m.node) if isinstance(f, (ast.For, ast.comprehension)) and f"{other}.value" in unparse(f.iter)
                          for t in ast.walk(f.target) if isinstance(t, ast.Name)}
                if any(sd in ("self.value", f"{other}.value") or sd in zipped for sd in sides):
                    bare.append(c)
        n += 1
        if bare:
            res.fail_at("C11-S4", m, f"literal-compared-with-python-eq:{cname}",
                        f"{cname}.is_equal decides with `{unparse(bare[0])}`: 1, 1.0 and True compare equal (i / 2 vs i / 2.0 give other SQL and other SQLite results; "
                        f"mapv int vs float values other Pandas dtypes), 0.0 equals -0.0 (1.0 / 0.0 vs 1.0 / -0.0), and a nan constant is not equal to itself, so "
                        f"`ops == ops` is False for extend({{'y': nan}})", bare[0])
        else:
            res.ok("C11-S4", f"{cname}.is_equal does not decide by a bare ==/!= on the held literals")
    if n != 3:
        raise AnalysisError("C11-S4: literal-holding term classes not found")
    # the one numeric option compared with == in _equiv_nodes: order_rows(limit=...)
    oi = program.method("view_representations", "OrderRowsNode", "__init__", inherited=False)
    res.analysed(oi)
    stores = [st for st in ast.walk(oi.node) if isinstance(st, ast.Assign) and unparse(st.targets[0]) == "self.limit"]
    if not stores:
        raise AnalysisError("OrderRowsNode.__init__: self.limit is not assigned")

    def _int_typed(v) -> bool:
        if isinstance(v, ast.Call) and dotted_name(v.func) == "int":
            return True
        if isinstance(v, ast.Name):
            defs = [a for a in ast.walk(oi.node) if isinstance(a, ast.Assign) and unparse(a.targets[0]) == v.id]
            checked = any(isinstance(c, ast.Call) and dotted_name(c.func) == "isinstance" and len(c.args) == 2 and unparse(c.args[0]) == v.id and "int" in unparse(c.args[1])
                          and "float" not in unparse(c.args[1]) for c in ast.walk(oi.node))
            return checked or (bool(defs) and all(_int_typed(a.value) for a in defs))
        if isinstance(v, ast.IfExp):
            return all(_int_typed(x) or (isinstance(x, ast.Constant) and x.value is None) for x in (v.body, v.orelse))
        return False

    if all(_int_typed(st.value) for st in stores):
        res.ok("C11-S4", "OrderRowsNode stores limit as an int (or None)")
    else:
        res.fail_at("C11-S4", oi, "limit-stored-as-given",
                    "OrderRowsNode stores `limit` as given and _equiv_nodes compares it with ==: order_rows(['x'], limit=2) equals order_rows(['x'], limit=2.0), "
                    "but the second emits `LIMIT 2.0` and raises TypeError on Pandas", stores[0])


def _s5_lossy_list_comparison(program, model, res):
    """a field that holds a *list* (its order and repetitions are part of the step: join key pairs, order columns) is compared as a list.
    Wrapping it in set / frozenset / dict / sorted before comparing loses order or repetitions: different steps compare equal."""
    n = 0
    for k in model.kinds.values():
        eq = k.cls.methods.get("_equiv_nodes")
        if eq is None:
            continue
        # list-valued fields: assigned in __init__ from a list display / comprehension / list(...)
        list_fields = set()
        for st in ast.walk(k.init.node):
            if isinstance(st, ast.Assign) and isinstance(st.targets[0], ast.Attribute) and unparse(st.targets[0].value) == "self":
                v = st.value
                if isinstance(v, (ast.List, ast.ListComp)) or (isinstance(v, ast.Call) and dotted_name(v.func) == "list"):
                    list_fields.add(st.targets[0].attr)
        # ... or declared as List[...] in the class body, or asserted to be a List in the constructor
        for st in k.cls.node.body:
            if isinstance(st, ast.AnnAssign) and isinstance(st.target, ast.Name) and unparse(st.annotation).startswith(("List", "typing.List", "list")):
                list_fields.add(st.target.id)
        other = [p for p in eq.params() if p != "self"][0]
        for c in ast.walk(eq.node):
            if not (isinstance(c, ast.Compare) and len(c.ops) == 1 and isinstance(c.ops[0], (ast.Eq, ast.NotEq))):
                continue
            for side in (c.left, c.comparators[0]):
                for w in ast.walk(side):
                    if isinstance(w, ast.Call) and dotted_name(w.func) in ("set", "frozenset", "dict", "sorted", "collections.Counter", "Counter"):
                        inner = {a.attr for a in ast.walk(w) if isinstance(a, ast.Attribute) and isinstance(a.value, ast.Name) and a.value.id in ("self", other)}
                        hit = sorted(inner & list_fields)
                        if hit:
                            n += 1
                            direct = any(isinstance(c2, ast.Compare) and {unparse(c2.left), unparse(c2.comparators[0])} == {f"self.{hit[0]}", f"{other}.{hit[0]}"}
                                         for c2 in ast.walk(eq.node))
                            if not direct:
                                res.fail_at("C11-S5", eq, f"list-field-compared-lossily:{hit[0]}",
                                            f"{k.name}._equiv_nodes compares `{unparse(w)[:60]}`: {dotted_name(w.func)}() forgets the order and the repetitions of the list field "
                                            f"{hit[0]} — on=[('a','x'),('a','y')] compares equal to on=[('a','y')] (different rows), and key pairs in another order compare "
                                            f"equal although the ON clauses differ", w)
    res.ok("C11-S5", f"no list-valued field is compared through an order- or repetition-losing wrapper ({n} wrapped comparisons looked at)")


def run(program, res, tier):
    res.rule("C11-S1", "every semantic field is examined on every path on which an equality method accepts")
    res.rule("C11-S2", "comparisons pair the same field on both sides; type test two-sided")
    res.rule("C11-S3", "no Python ==/!=/in over a field holding Terms inside an equality method")
    res.assumptions.append("derived/advisory field tables in sa/nodes.py and EQ_TARGETS in sa/rules/c11.py (one reason per row)")
    res.rule("C11-S4", "literal equality distinguishes what prints differently (type and repr), and is reflexive")
    _s4_literal_equality(program, res)
    model = NodeModel(program)
    res.rule("C11-S5", "list-valued fields are compared as lists")
    _s5_lossy_list_comparison(program, model, res)
    for (kn, f, why) in model.confirm_derived():
        res.fail("C11-S1", f"view_representations:{kn}.__init__", f"derived:{f}", why,
                 "data_algebra/view_representations.py", model.kinds[kn].init.line)
    base = model.base
    # --- ViewRepresentation.__eq__ itself
    beq = base.methods.get("__eq__")
    if beq is None:
        raise AnalysisError("anchor vanished: ViewRepresentation.__eq__")
    res.analysed(beq)
    npaths = check_eq_method(res, "C11-S1", base, beq, ["node_name", "column_names", "sources"], {})
    # it must call _equiv_nodes and recurse into sources, each with a False exit
    src = unparse(beq.node)
    g = cfgmod.build(beq.node)
    found_equiv = found_rec = False
    for n in g.stmt_nodes(("test",)):
        txt = unparse(n.cond)
        exits_false = any(isinstance(g.nodes[s].stmt, ast.Return) and isinstance(g.nodes[s].stmt.value, ast.Constant)
                          and g.nodes[s].stmt.value.value is False for (s, lab) in n.succ if lab is True)
        if "_equiv_nodes" in txt and txt.startswith("not") and exits_false:
            found_equiv = True
        if "sources" in txt and "__eq__" in txt and txt.startswith("not") and exits_false:
            found_rec = True
    if found_equiv:
        res.ok("C11-S1", "ViewRepresentation.__eq__ returns False when _equiv_nodes fails")
    else:
        res.fail_at("C11-S1", beq, "call:_equiv_nodes", "ViewRepresentation.__eq__ does not reject when self._equiv_nodes(other) is false")
    if found_rec:
        res.ok("C11-S1", "ViewRepresentation.__eq__ recurses into every source")
    else:
        res.fail_at("C11-S1", beq, "recursion:sources", "ViewRepresentation.__eq__ does not compare the sources recursively")
    two_sided = ("type(self) is type(other)" in src) or ("type(other) is type(self)" in src) or \
                ("type(self) == type(other)" in src)
    if two_sided:
        res.ok("C11-S2", "ViewRepresentation.__eq__ type test is two-sided (type(self) is type(other))")
    else:
        res.fail_at("C11-S2", beq, "type-test", "ViewRepresentation.__eq__ lacks an exact two-sided type test")
    # --- per node kind
    n_fields = 0
    for k in model.kinds.values():
        m = k.method("_equiv_nodes")
        if m is None:
            raise AnalysisError(f"{k.name} has no _equiv_nodes")
        res.analysed(m)
        required = list(k.core_fields())
        n_fields += len(required)
        check_eq_method(res, "C11-S1", k.cls, m, required, {f: g_ for f, (g_, _w) in EQUIVALENT.get(k.name, {}).items()})
        check_overloaded_eq(res, k.cls, m)
        # an overriding __eq__ must cover what the base compares plus the node's own fields
        if "__eq__" in k.cls.methods:
            om = k.cls.methods["__eq__"]
            res.analysed(om)
            aliases = {}
            # key <- table_name (ViewRepresentation.__init__(key=table_name))
            for call in [c for c in ast.walk(k.init.node) if isinstance(c, ast.Call) and dotted_name(c.func) == "ViewRepresentation.__init__"]:
                for kw in call.keywords:
                    if kw.arg == "key" and isinstance(kw.value, ast.Name):
                        for f, ps in k.init_fields.items():
                            if kw.value.id in ps and f not in DERIVED.get(k.name, {}):
                                aliases["key"] = f
            req = sorted(set(required) | {"column_names"} | ({"qualifiers"} if "qualifiers" in k.init_fields else set()))
            check_eq_method(res, "C11-S1", k.cls, om, req, aliases)
            check_overloaded_eq(res, k.cls, om)
    res.expect_count("C11-S1", "node semantic fields", n_fields, 22)
    # --- other classes with structural equality
    for (mod, cname, mname, derived, exempt) in EQ_TARGETS:
        cls = program.cls(mod, cname)
        m = cls.methods.get(mname)
        if m is None:
            raise AnalysisError(f"anchor vanished: {mod}.{cname}.{mname}")
        res.analysed(m)
        fields = [f for f in own_init_fields(cls) if f not in derived and f not in exempt]
        if not fields:
            raise AnalysisError(f"{cname}: no fields found in __init__")
        check_eq_method(res, "C11-S1", cls, m, fields, {})
        tv, _ = check_overloaded_eq(res, cls, m)
        res.ok("C11-S3", f"{cname}.{mname}: no ==/!=/in over Term-valued fields {sorted(tv)}", nontrivial=bool(tv))
        # isinstance test on the class itself
        txt = unparse(m.node)
        if f"isinstance(other, {cname})" in txt:
            res.ok("C11-S2", f"{cname}.{mname} rejects other types")
        else:
            res.fail_at("C11-S2", m, "type-test", f"{cname}.{mname} has no isinstance(other, {cname}) test")
    # print-only exemption confirmation: Expression.method is read only by printers / copied into constructors
    for mname_mod in program.modules.values():
        for f in list(mname_mod.functions.values()) + [mm for c in mname_mod.classes.values() for mm in c.methods.values()]:
            for n in ast.walk(f.node):
                if isinstance(n, ast.Attribute) and n.attr == "method" and isinstance(n.ctx, ast.Load) \
                        and isinstance(n.value, ast.Name) and n.value.id in ("self", "opk", "expression", "op"):
                    if f.name in ("to_python", "__init__"):
                        continue
                    # allowed: passed as method= keyword to a constructor
                    ok = False
                    for c in ast.walk(f.node):
                        if isinstance(c, ast.Call):
                            for kw in c.keywords:
                                if kw.arg == "method" and kw.value is n:
                                    ok = True
                    if not ok:
                        res.fail_at("C11-S1", f, "exempt:method",
                                    "Expression.method is exempt from equality as print-form only, but it is read here outside a printer", n)
    res.ok("C11-S1", "Expression.method is read only by to_python and constructor copies (exemption confirmed)")
