"""C26 the builder rejects ill-formed steps when the pipeline is built — structural clauses."""
from __future__ import annotations

import ast
from typing import List, Optional, Tuple

from .. import cfg as cfgmod
from .. import deps as depsmod
from ..index import AnalysisError, FuncInfo, dotted_name, unparse
from ..nodes import NodeModel
from . import c06

EXPLANATION = (
    "S1 obligation table: one row per documented construction rule x node kind (unknown column, unknown "
    "partition/order/group column, changing a partition/order/group column, use-and-produce in one step, "
    "non-aggregating / too-complex / not-allowed window or project expression, join with missing keys, "
    "non-key common columns when requested, concatenating different columns). A row is discharged by a raise "
    "(or failing assert) in the named constructor/builder whose *own* guard (the enclosing branch conditions) "
    "depends, by def-use, on all the inputs the rule talks about; for the unknown-column family the tested set "
    "must be a difference argument − known columns (direction checked). S2 sibling coverage: every non-leaf "
    "node kind has an unknown-column row. S3: the checks survive simplification (the C06 delegation and "
    "collapse rules, reported under this property too). Generic lints: exception object built but not raised. "
    "Not decided: that conforming steps are accepted (absence of false rejections), threshold values in guards."
)

VRM = "view_representations"
# (row id, module, class or None, function, required guard roots, optional (left root, right root) of the tested difference)
ROWS: List[Tuple[str, str, Optional[str], str, List[str], Optional[Tuple[str, str]]]] = [
    ("unknown column in extend expression", VRM, "ExtendNode", "__init__", ["parsed_ops", "source.column_names"], ("parsed_ops", "source.column_names")),
    ("unknown column in project expression", VRM, "ProjectNode", "__init__", ["parsed_ops", "source.column_names"], ("parsed_ops", "source.column_names")),
    ("unknown column in select_rows condition", VRM, "SelectRowsNode", "__init__", ["ops", "source.column_names"], ("ops", "source.column_names")),
    ("unknown column in select_columns", VRM, "SelectColumnsNode", "__init__", ["columns", "source.column_names"], ("columns", "source.column_names")),
    ("unknown column in drop_columns", VRM, "DropColumnsNode", "__init__", ["column_deletions", "source.column_names"], ("column_deletions", "source.column_names")),
    ("unknown column in order_rows", VRM, "OrderRowsNode", "__init__", ["columns", "source.column_names"], ("columns", "source.column_names")),
    ("reverse column not an order column", VRM, "OrderRowsNode", "__init__", ["reverse", "columns"], ("reverse", "columns")),
    ("unknown column in map_columns", VRM, "MapColumnsNode", "__init__", ["column_remapping", "source.column_names"], ("column_remapping", "source.column_names")),
    ("unknown column in rename_columns", VRM, "RenameColumnsNode", "__init__", ["column_remapping", "source.column_names"], ("column_remapping", "source.column_names")),
    ("rename collides with existing column", VRM, "RenameColumnsNode", "__init__", ["column_remapping", "source.column_names"], None),
    ("map collides with existing column", VRM, "MapColumnsNode", "__init__", ["column_remapping", "source.column_names"], None),
    ("unknown column needed by convert_records", VRM, "ConvertRecordsNode", "__init__", ["record_map", "source.column_names"], ("record_map", "source.column_names")),
    ("unknown partition_by column", VRM, "ExtendNode", "__init__", ["partition_by", "source.column_names"], ("partition_by", "source.column_names")),
    ("unknown order_by column", VRM, "ExtendNode", "__init__", ["order_by", "source.column_names"], ("order_by", "source.column_names")),
    ("reverse column not an order_by column", VRM, "ExtendNode", "__init__", ["reverse", "order_by"], ("reverse", "order_by")),
    ("unknown group_by column", VRM, "ProjectNode", "__init__", ["group_by", "source.column_names"], None),
    ("changing a partition or ordering column (constructor)", VRM, "ExtendNode", "__init__", ["parsed_ops", "partition_by", "order_by"], None),
    ("changing a partition column (builder)", VRM, "ViewRepresentation", "extend_parsed_", ["parsed_ops", "partition_by"], None),
    ("changing an ordering column (builder)", VRM, "ViewRepresentation", "extend_parsed_", ["parsed_ops", "order_by"], None),
    ("changing a grouping column", VRM, "ViewRepresentation", "project_parsed_", ["parsed_ops", "group_by"], None),
    ("project without ops or group_by", VRM, "ViewRepresentation", "project_parsed_", ["parsed_ops", "group_by"], None),
    ("use and produce in the same step", "expr_parse", None, "parse_assignments_in_context", ["ops", "call:get_column_names"], None),
    ("non-aggregating project expression", VRM, "ProjectNode", "__init__", ["parsed_ops", "g:data_algebra.expr_rep.Expression"], None),
    ("too-complex project expression (argument count)", VRM, "ProjectNode", "__init__", ["parsed_ops.args", "call:len"], None),
    ("too-complex project expression (argument kind)", VRM, "ProjectNode", "__init__", ["parsed_ops.args", "g:data_algebra.expr_rep.ColumnReference"], None),
    ("function not allowed in project", VRM, "ProjectNode", "__init__", ["parsed_ops.op", "g:data_algebra.expr_rep.fn_names_not_allowed_in_project"], None),
    ("ordered window function in project", VRM, "ProjectNode", "__init__", ["parsed_ops.op", "g:data_algebra.expr_rep.fn_names_that_imply_ordered_windowed_situation"], None),
    ("row-wise method or operator in project", VRM, "ProjectNode", "__init__", ["parsed_ops.op", "g:data_algebra.expr_rep.fn_names_that_contradict_ordered_windowed_situation"], None),
    ("non-aggregating windowed expression", VRM, "ExtendNode", "__init__", ["parsed_ops", "g:data_algebra.expr_rep.Expression", "partition_by", "order_by"], None),
    ("too-complex windowed expression (extra arguments)", VRM, "ExtendNode", "__init__", ["parsed_ops.args", "g:data_algebra.expr_rep.Value"], None),
    ("too-complex windowed expression (first argument)", VRM, "ExtendNode", "__init__", ["parsed_ops.args", "g:data_algebra.expr_rep.ColumnReference"], None),
    ("row-wise method or operator in a windowed extend", VRM, "ExtendNode", "__init__", ["parsed_ops.op", "g:data_algebra.expr_rep.fn_names_of_window_functions"], None),
    ("function contradicting an ordered window", VRM, "ExtendNode", "__init__", ["parsed_ops.op", "g:data_algebra.expr_rep.fn_names_that_contradict_ordered_windowed_situation", "order_by"], None),
    ("ordered function without order_by", VRM, "ExtendNode", "__init__", ["parsed_ops.op", "g:data_algebra.expr_rep.fn_names_that_imply_ordered_windowed_situation", "order_by"], None),
    ("join with missing left keys", VRM, "NaturalJoinNode", "__init__", ["on_a", "a.column_names"], ("on_a", "a.column_names")),
    ("join with missing right keys", VRM, "NaturalJoinNode", "__init__", ["on_b", "b.column_names"], ("on_b", "b.column_names")),
    ("non-key common columns when the check is requested", VRM, "NaturalJoinNode", "__init__",
     ["check_all_common_keys_in_equi_spec", "a.column_names", "b.column_names", "on_a", "on_b"], None),
    ("cross join with keys", VRM, "NaturalJoinNode", "__init__", ["jointype", "on_a"], None),
    ("concatenating tables with different columns", VRM, "ConcatRowsNode", "__init__", ["a.column_names", "b.column_names"], None),
    ("concat id column already present", VRM, "ConcatRowsNode", "__init__", ["id_column", "a.column_names"], None),
    ("unsupported join type", "expr_rep", None, "standardize_join_type", ["join_str"], None),
]

NONLEAF_UNKNOWN_ROW = {"ExtendNode", "ProjectNode", "SelectRowsNode", "SelectColumnsNode", "DropColumnsNode",
                       "OrderRowsNode", "MapColumnsNode", "RenameColumnsNode", "ConvertRecordsNode", "NaturalJoinNode",
                       "ConcatRowsNode"}


def _get_func(program, module, cls, fn) -> FuncInfo:
    if cls is None:
        return program.func(module, fn)
    return program.method(module, cls, fn, inherited=False)


def _diff_ok(g, d, guard, want: Tuple[str, str]) -> Optional[bool]:
    """the set tested in `guard` is defined as <depends on want[0]> minus <depends on want[1]>.
    None if no difference feeds the guard."""
    names = {n.id for n in ast.walk(guard.cond) if isinstance(n, ast.Name)}
    found = None
    cands = []
    for n in g.stmt_nodes(("stmt",)):
        st = n.stmt
        if isinstance(st, ast.Assign) and len(st.targets) == 1 and isinstance(st.targets[0], ast.Name) \
                and st.targets[0].id in names and g.dominates(n.id, guard.id):
            cands.append(n)
    # the latest dominating definition per name
    latest = {}
    for n in cands:
        nm = n.stmt.targets[0].id
        if nm not in latest or g.dominates(latest[nm].id, n.id):
            latest[nm] = n
    exprs = [(n, n.stmt.value) for n in latest.values()] + [(guard, guard.cond)]
    for (n, e) in exprs:
        for sub in ast.walk(e):
            left = right = None
            if isinstance(sub, ast.BinOp) and isinstance(sub.op, ast.Sub):
                left, right = sub.left, sub.right
            elif isinstance(sub, ast.Call) and isinstance(sub.func, ast.Attribute) and sub.func.attr == "difference" and sub.args:
                left, right = sub.func.value, sub.args[0]
            if left is None:
                continue
            st_in = d.state_in.get(n.id, {})
            lr = d.roots(left, st_in)
            rr = d.roots(right, st_in)
            if depsmod.has_root(lr, want[0]) and depsmod.has_root(rr, want[1]):
                return True
            if depsmod.has_root(rr, want[0]) and depsmod.has_root(lr, want[1]) and not depsmod.has_root(lr, want[0]):
                found = False
    return found


# per-row refinements: rows whose guard depends on the inputs only through control flow (a flag set under
# `if len(partition_by) > 0`), and rows that must sit on the *failing* arm of an isinstance test
CONTROL_ROWS = {"non-aggregating windowed expression", "function contradicting an ordered window",
                "ordered function without order_by"}
NEG_ISINSTANCE_ROWS = {"non-aggregating project expression": "Expression",
                       "non-aggregating windowed expression": "Expression"}
# roots that must NOT control the raise (the rule is unconditional, not a sub-case of another rule)
FORBID = {"unknown column in extend expression": ["g:data_algebra.expr_rep.ColumnReference"],
          "unknown column in project expression": ["g:data_algebra.expr_rep.ColumnReference"],
          "concatenating tables with different columns": ["id_column"]}


# ProjectNode tests group_by and the expressions' columns in one difference (consumed_cols − source columns)
SHAREABLE = {"unknown group_by column"}


def _on_failing_isinstance_arm(g, r, cls_name: str) -> bool:
    """the raise executes only when isinstance(x, <cls_name>) is false"""
    for (b, label) in g.lexical_guards(r):
        e = b.cond
        neg = False
        while isinstance(e, ast.UnaryOp) and isinstance(e.op, ast.Not):
            neg = not neg
            e = e.operand
        if isinstance(e, ast.Call) and dotted_name(e.func) == "isinstance" and len(e.args) == 2 \
                and unparse(e.args[1]).endswith(cls_name):
            holds_when = (label is True) != neg  # truth of isinstance on this arm
            if holds_when is False:
                return True
    return False


def _candidates(g, d, row, raises):
    (rid, module, cls, fn, required, diff) = row
    out = []
    reasons = []
    for r in raises:
        roots = d.own_guard_roots(r)
        miss = depsmod.missing_roots(roots, required)
        if miss:
            reasons.append(f"lacks {miss}")
            continue
        if any(depsmod.has_root(roots, fr) for fr in FORBID.get(rid, [])):
            reasons.append("is a sub-case of another rule")
            continue
        if rid in NEG_ISINSTANCE_ROWS and not _on_failing_isinstance_arm(g, r, NEG_ISINSTANCE_ROWS[rid]):
            reasons.append("not on the failing arm of the isinstance test")
            continue
        if diff is not None:
            dirs = [_diff_ok(g, d, b, diff) for (b, _l) in g.lexical_guards(r)]
            if not any(x is True for x in dirs):
                reasons.append("tested set is not <%s> − <%s>" % diff if any(x is False for x in dirs)
                               else "no difference <%s> − <%s> feeds the guard" % diff)
                continue
        out.append(r)
    return out, reasons


def _match(cands):
    """maximum bipartite matching rows -> raises (Kuhn); cands: list of lists of raise ids"""
    match_r = {}

    def try_row(i, seen):
        for rid in cands[i]:
            if rid in seen:
                continue
            seen.add(rid)
            if rid not in match_r or try_row(match_r[rid], seen):
                match_r[rid] = i
                return True
        return False

    order = sorted(range(len(cands)), key=lambda i: len(cands[i]))
    matched = set()
    for i in order:
        if try_row(i, set()):
            matched.add(i)
    return {i for i in range(len(cands)) if i in set(match_r.values())}


def _s1(program, res):
    groups = {}
    for row in ROWS:
        groups.setdefault((row[1], row[2], row[3]), []).append(row)
    n = 0
    for (module, cls, fn), rows in groups.items():
        f = _get_func(program, module, cls, fn)
        res.analysed(f)
        g = cfgmod.build(f.node)
        d_plain = depsmod.Deps(g, f.params())
        d_ctl = depsmod.Deps(g, f.params(), control=True)
        raises = g.raises()
        cands = []
        why = []
        for row in rows:
            d = d_ctl if row[0] in CONTROL_ROWS else d_plain
            c, reasons = _candidates(g, d, row, raises)
            cands.append([r.id for r in c])
            why.append(reasons)
        # rows that may legitimately share their raise with another row (one test over the union of both inputs)
        shareable = [i for i, row in enumerate(rows) if row[0] in SHAREABLE]
        matched = _match([([] if i in shareable else c) for i, c in enumerate(cands)])
        matched |= {i for i in shareable if cands[i]}
        for i, row in enumerate(rows):
            n += 1
            rid = row[0]
            if i in matched:
                res.ok("C26-S1", f"{rid}: {f.qualname}", {"guard_roots_required": row[4], "candidate_raises": len(cands[i])})
            elif cands[i]:
                res.fail_at("C26-S1", f, f"rule:{rid}",
                            f"the only raise(s) in {f.qualname} that could enforce '{rid}' are needed for another documented "
                            f"rule with the same inputs: one of the two rejections is missing")
            else:
                short = sorted(set(why[i]), key=len)[:2]
                res.fail_at("C26-S1", f, f"rule:{rid}",
                            f"no raise in {f.qualname} enforces '{rid}': required guard dependencies {row[4]}"
                            + (f" with tested difference <{row[5][0]}> − <{row[5][1]}>" if row[5] else "")
                            + f" (closest candidates: {short})")
    res.expect_count("C26-S1", "obligation rows", n, 35)


def _s1_lookup_symbol(program, res):
    """string expressions: lookup_symbol raises on a name missing from data_def"""
    f = program.func("parse_by_lark", "_walk_lark_tree")
    res.analysed(f)
    inner = [n for n in ast.walk(f.node) if isinstance(n, ast.FunctionDef) and n.name == "lookup_symbol"]
    if not inner:
        raise AnalysisError("anchor vanished: parse_by_lark._walk_lark_tree.lookup_symbol")
    ls = inner[0]
    ok = False
    for t in ast.walk(ls):
        if isinstance(t, ast.Try):
            body_txt = " ".join(unparse(b) for b in t.body)
            if "data_def[" in body_txt:
                for h in t.handlers:
                    if h.type is not None and "KeyError" in unparse(h.type) and any(isinstance(x, ast.Raise) for x in ast.walk(h)):
                        ok = True
    if not ok:
        # alternative: explicit membership test
        g = cfgmod.build(ls)
        d = depsmod.Deps(g, [a.arg for a in ls.args.args] + ["data_def"])
        for r in g.raises():
            roots = d.own_guard_roots(r)
            if "data_def" in roots:
                ok = True
    if ok:
        res.ok("C26-S1", "unknown column in a string expression: lookup_symbol raises for names missing from data_def")
    else:
        res.fail_at("C26-S1", f, "rule:unknown symbol in string expression",
                    "lookup_symbol no longer raises when a name is missing from data_def: unknown columns in string "
                    "expressions are not rejected at build time")
    # NAME tokens are resolved through lookup_symbol
    calls = [c for c in ast.walk(f.node) if isinstance(c, ast.Call) and isinstance(c.func, ast.Name) and c.func.id == "lookup_symbol"]
    if calls:
        res.ok("C26-S1", "NAME tokens are resolved through lookup_symbol")
    else:
        res.fail_at("C26-S1", f, "rule:NAME tokens bypass lookup_symbol", "NAME tokens are no longer resolved through lookup_symbol")


def _s1_use_and_produce(program, res):
    """parse_assignments_in_context: the set of columns used by *other* assignments only ever grows; the
    'a column may update itself' exemption removes the produced key from that assignment's own uses only"""
    f = program.func("expr_parse", "parse_assignments_in_context")
    g = cfgmod.build(f.node)
    d = depsmod.Deps(g, f.params())
    # the accumulator is the variable intersected with the produced keys in the raising guard
    acc = None
    for r in g.raises():
        for (b, _l) in g.lexical_guards(r):
            names = {n.id for n in ast.walk(b.cond) if isinstance(n, ast.Name)}
            for n in g.stmt_nodes(("stmt",)):
                st = n.stmt
                if isinstance(st, ast.Assign) and isinstance(st.targets[0], ast.Name) and st.targets[0].id in names \
                        and any(isinstance(c, ast.Call) and isinstance(c.func, ast.Attribute) and c.func.attr == "intersection" for c in ast.walk(st.value)):
                    call = [c for c in ast.walk(st.value) if isinstance(c, ast.Call) and isinstance(c.func, ast.Attribute) and c.func.attr == "intersection"][0]
                    cands = [x.id for x in ast.walk(call) if isinstance(x, ast.Name)]
                    for c in cands:
                        if c not in f.params() and any(isinstance(a.stmt, ast.Assign) and isinstance(a.stmt.targets[0], ast.Name)
                                                       and a.stmt.targets[0].id == c for a in g.stmt_nodes(("stmt",))):
                            acc = c
    # completeness of the two operands of that intersection: "produced" is the key set of the whole step, "used" the uses of every assignment.
    # A check inside the loop over the assignments sees all uses of one assignment at a time — enough, provided the produced side is the
    # whole key set (the parameter's keys), not a container that grows with the loop (the keys parsed so far: a later producer is missed)
    loop = next((n for n in ast.walk(f.node) if isinstance(n, ast.For) and any(isinstance(x, ast.Name) and x.id in f.params() for x in ast.walk(n.iter))), None)
    if loop is not None:
        grown = set()
        for st in ast.walk(loop):
            if isinstance(st, ast.Assign):
                for t in st.targets:
                    if isinstance(t, ast.Name):
                        grown.add(t.id)
                    elif isinstance(t, ast.Subscript) and isinstance(t.value, ast.Name):
                        grown.add(t.value.id)
            elif isinstance(st, ast.Call) and isinstance(st.func, ast.Attribute) and st.func.attr in ("add", "update", "append", "extend") and isinstance(st.func.value, ast.Name):
                grown.add(st.func.value.id)
        for r in g.raises():
            in_loop = any(b.stmt is loop for b, _l in g.lexical_guards(r))
            for (b, _l) in g.lexical_guards(r):
                names = {n.id for n in ast.walk(b.cond) if isinstance(n, ast.Name)}
                for n in g.stmt_nodes(("stmt",)):
                    st = n.stmt
                    if not (isinstance(st, ast.Assign) and isinstance(st.targets[0], ast.Name) and st.targets[0].id in names):
                        continue
                    for call in [c for c in ast.walk(st.value) if isinstance(c, ast.Call) and isinstance(c.func, ast.Attribute) and c.func.attr == "intersection" and c.args]:
                        operands = [call.func.value, call.args[0]]
                        produced = [o for o in operands if ".keys()" in unparse(o) or unparse(o).startswith("set(")]
                        for o in produced:
                            onames = {x.id for x in ast.walk(o) if isinstance(x, ast.Name)} - {"set"}
                            partial = onames & grown
                            if in_loop and partial:
                                res.fail_at("C26-S1", f, "rule:use and produce in the same step (keys parsed so far)",
                                            f"inside the loop over the assignments the uses are compared with `{unparse(o)}`, the keys parsed *so far*: an assignment that reads a "
                                            f"column produced by a later assignment of the same step is accepted — extend({{'x': 'y + 1', 'y': 'a + 1'}}) builds and evaluates, while "
                                            f"{{'y': 'a + 1', 'x': 'y + 1'}} is refused", st)
                                return
                            res.ok("C26-S1", f"use-and-produce: the produced side of the comparison is `{unparse(o)}`, the key set of the whole step")
    if acc is None:
        # the raising guard itself is gone: that is reported by the obligation table (row use-and-produce); nothing to fold here
        res.abstain("C26-S1", "parse_assignments_in_context: accumulator of used columns", "no raise guarded by an intersection of used and produced columns")
        return
    updates = [n for n in g.stmt_nodes(("stmt",)) if isinstance(n.stmt, ast.Assign) and isinstance(n.stmt.targets[0], ast.Name)
               and n.stmt.targets[0].id == acc and any(isinstance(b.stmt, ast.For) for b, _l in g.lexical_guards(n))]
    # the accumulator may also be filled and emptied through calls: <acc>.update(..) / f(<acc>) grow it, <acc>.discard(..) and friends shrink it
    in_loop_calls = [(n, c) for n in g.stmt_nodes(("stmt",)) if any(isinstance(b.stmt, ast.For) for b, _l in g.lexical_guards(n))
                     for c in ast.walk(n.stmt) if isinstance(c, ast.Call)]
    shrinking = [(n, c) for (n, c) in in_loop_calls if isinstance(c.func, ast.Attribute) and isinstance(c.func.value, ast.Name) and c.func.value.id == acc
                 and c.func.attr in ("discard", "remove", "difference_update", "intersection_update", "symmetric_difference_update", "clear", "pop")]
    growing = [(n, c) for (n, c) in in_loop_calls if (isinstance(c.func, ast.Attribute) and isinstance(c.func.value, ast.Name) and c.func.value.id == acc
                                                       and c.func.attr in ("add", "update"))
               or any(isinstance(a_, ast.Name) and a_.id == acc for a_ in c.args)]
    if shrinking:
        n_, c_ = shrinking[0]
        res.fail_at("C26-S1", f, "rule:use and produce in the same step (accumulator shrinks)",
                    f"`{unparse(c_)[:60]}` removes an element from the set of columns used by the assignments seen so far: a column read by an earlier assignment and produced by "
                    f"a later one of the same step is forgotten — extend({{'y': 'x + 1', 'x': 'v'}}) is accepted while {{'x': 'v', 'y': 'x + 1'}} is refused", c_)
        return
    if not updates and growing:
        res.ok("C26-S1", f"use-and-produce: `{acc}` is only filled inside the loop over the assignments (no removal)")
        return
    if not updates:
        raise AnalysisError(f"parse_assignments_in_context: `{acc}` is never updated inside the loop over the assignments")
    for n in updates:
        bad = None
        for sub in ast.walk(n.stmt.value):
            left = None
            if isinstance(sub, ast.BinOp) and isinstance(sub.op, ast.Sub):
                left = sub.left
            elif isinstance(sub, ast.Call) and isinstance(sub.func, ast.Attribute) and sub.func.attr in ("difference", "intersection"):
                left = sub.func.value
            elif isinstance(sub, ast.BinOp) and isinstance(sub.op, ast.BitAnd):
                left = sub.left
            if left is not None and any(isinstance(x, ast.Name) and x.id == acc for x in ast.walk(left)):
                bad = sub
        uses_acc = any(isinstance(x, ast.Name) and x.id == acc for x in ast.walk(n.stmt.value))
        if bad is not None:
            res.fail_at("C26-S1", f, "rule:use and produce in the same step (accumulator shrinks)",
                        f"`{unparse(n.stmt)[:90]}` removes elements from the accumulated set of used columns (`{unparse(bad)[:60]}`): "
                        f"a column used by an earlier assignment and produced by a later one of the same step is forgotten and the "
                        f"step is accepted", n.stmt)
        elif not uses_acc:
            res.fail_at("C26-S1", f, "rule:use and produce in the same step (accumulator reset)",
                        f"`{unparse(n.stmt)[:90]}` overwrites the accumulated set of used columns instead of extending it", n.stmt)
        else:
            res.ok("C26-S1", f"use-and-produce: `{acc}` only grows across the assignments of a step (own key removed from the own uses only)")


def _s2(program, model, res):
    covered = {cls for (_r, m, cls, fn, _req, _d) in ROWS if fn == "__init__"}
    for k in model.kinds.values():
        if k.name in ("TableDescription", "SQLNode"):
            continue
        if k.name not in covered:
            res.fail_at("C26-S2", k.init, f"no-validation-row:{k.name}",
                        f"node kind {k.name} has no build-time validation row in the C26 obligation table (new node kind?)")
        else:
            res.ok("C26-S2", f"{k.name} has build-time validation rows", nontrivial=False)


def _unraised_exceptions(program, res):
    """exception constructed as a statement or asserted (always true) instead of raised"""
    EXC = ("Error", "Exception")
    n = 0
    triage = {
        ("view_representations:_work_col_group_arg", "assert"): "fall-through for an argument that is neither None, str, iterable nor 1; "
                                                               "every builder then fails on the None result (len(None)) — still a build-time rejection",
        ("polars_model:PolarsExpressionActor.act_on_expression", "expr"): "executor lookup path, not a builder rule",
    }
    for f in program.all_functions():
        for st in ast.walk(f.node):
            call = None
            kind = None
            if isinstance(st, ast.Expr) and isinstance(st.value, ast.Call):
                call, kind = st.value, "expr"
            elif isinstance(st, ast.Assert) and isinstance(st.test, ast.Call):
                call, kind = st.test, "assert"
            if call is None:
                continue
            dn = dotted_name(call.func) or ""
            if dn.endswith(EXC) and dn[0].isupper():
                n += 1
                if (f.where(), kind) in triage:
                    res.ok("C26-L1", f"triaged: {f.where()} builds {dn} without raising — {triage[(f.where(), kind)]}", nontrivial=False)
                elif f.module.name in ("view_representations", "expr_parse", "expr_rep", "parse_by_lark", "data_ops_utils"):
                    res.fail_at("C26-L1", f, f"unraised:{dn}", f"`{unparse(st)[:70]}` constructs an exception without raising it: the rejection never happens", st)
    res.extra["unraised_exception_sites"] = n


def _s1_allow_lists(program, res):
    """'a non-aggregating window or project expression is rejected when the step is added': a deny-list of operator names cannot do that
    (any other element-wise method, abs / exp / unary minus, passes); the constructor needs a raise guarded by a *positive* vocabulary test,
    `<expr>.op not in <aggregators / window functions>`"""
    for (cname, what, example) in (("ProjectNode", "aggregators", "project({'z': 'x.abs()'}, group_by=['g'])"),
                                   ("ExtendNode", "window functions", "extend({'z': 'x.abs()'}, partition_by=['g'])")):
        init = program.cls("view_representations", cname).methods.get("__init__")
        if init is None:
            raise AnalysisError(f"anchor vanished: {cname}.__init__")
        res.analysed(init)
        g = cfgmod.build(init.node)
        positive = []
        negative = []
        for r in g.raises():
            for (b, lab) in g.lexical_guards(r):
                for c in ast.walk(b.cond):
                    if isinstance(c, ast.Compare) and len(c.ops) == 1 and isinstance(c.left, ast.Attribute) and c.left.attr == "op":
                        # raise when (op not in SET) is true, or when (op in SET) is false
                        if (isinstance(c.ops[0], ast.NotIn) and lab is True) or (isinstance(c.ops[0], ast.In) and lab is False):
                            positive.append(unparse(c))
                        elif isinstance(c.ops[0], (ast.In, ast.NotIn)):
                            negative.append(unparse(c))
        if positive:
            res.ok("C26-S1", f"{cname}: operator names are checked against a vocabulary of {what} (`{positive[0][:60]}`)")
        else:
            res.fail_at("C26-S1", init, f"no-positive-vocabulary:{cname}",
                        f"{cname}.__init__ rejects operators only through deny-lists ({len(negative)} tests such as `{(negative or ['-'])[0][:70]}`): an element-wise "
                        f"method that is not one of the {what} is accepted when the step is added and fails only at evaluation "
                        f"({example} builds; Pandas then raises AttributeError / 'not a valid function name for transform')")


def row_wise_generators_rule(program, res, rule="C26-S1"):
    """the catalogue's zero-argument row-wise functions (class 'u': one value per row, `_uniform`) are neither operators nor Term methods, so the
    vocabulary tests of project and windowed extend do not see them: they have to be on both deny lists"""
    from .. import sqlexpr
    er = program.module("expr_rep")
    rows = sqlexpr.catalog(program)
    names = sorted({r["op"] for r in rows if r.get("op_class") == "u"})
    if not names:
        raise AnalysisError("op catalogue: no row of class 'u' found")

    def members(cname):
        node = er.consts.get(cname)
        if node is None:
            raise AnalysisError(f"anchor vanished: expr_rep.{cname}")
        return {c.value for c in ast.walk(node) if isinstance(c, ast.Constant) and isinstance(c.value, str)}
    proj, win = members("fn_names_not_allowed_in_project"), members("fn_names_that_contradict_windowed_situation")
    for nme in names:
        for (what, st, example) in (("project", proj, f"project({{'z': '{nme}()'}})"), ("a windowed extend", win, f"extend({{'z': '{nme}()'}}, partition_by=['g'])")):
            if nme in st:
                res.ok(rule, f"`{nme}` (one value per row) is refused in {what}")
            else:
                res.fail(rule, "expr_rep:fn_names", f"row-wise-generator-accepted:{nme}:{what.split()[-1]}",
                         f"`{nme}` draws one value per row and is not on the deny list of {what}: {example} is accepted when the step is added — SQL returns one row per "
                         f"input row for the project, Pandas raises at evaluation", "data_algebra/expr_rep.py", 0)


def partition_one_is_windowed_rule(program, res, rule="C26-S1"):
    """`partition_by=1` (the whole table as one partition) makes an extend windowed whatever its functions are; ExtendNode.__init__ normalises the 1 to `[]`,
    so the fact has to be recorded where the number is still visible — in the branch that normalises it, or by a test evaluated before that rebinding.  A
    windowed-ness computed from the normalised list skips every window rule for `extend({'z': 'x + 1'}, partition_by=1)`"""
    ini = program.cls("view_representations", "ExtendNode").methods.get("__init__")
    if ini is None:
        raise AnalysisError("anchor vanished: ExtendNode.__init__")
    res.analysed(ini)
    branch = [t for t in ast.walk(ini.node) if isinstance(t, ast.If) and "partition_by" in unparse(t.test) and ("Number" in unparse(t.test) or "== 1" in unparse(t.test))
              and any(isinstance(a_, ast.Assign) and unparse(a_.targets[0]) == "partition_by" for a_ in ast.walk(t))]
    if not branch:
        res.abstain(rule, "ExtendNode.__init__", "no branch that normalises a numeric partition_by")
        return
    b0 = branch[0]
    flagged = [a_ for a_ in ast.walk(b0) if isinstance(a_, ast.Assign) and isinstance(a_.targets[0], ast.Name) and "window" in a_.targets[0].id
               and isinstance(a_.value, ast.Constant) and a_.value.value is True]
    early = [a_ for a_ in ast.walk(ini.node) if isinstance(a_, ast.Assign) and isinstance(a_.targets[0], ast.Name) and "window" in a_.targets[0].id
             and a_.lineno < b0.lineno and any(isinstance(x, ast.Name) and x.id == "partition_by" for x in ast.walk(a_.value))]
    if flagged or early:
        res.ok(rule, "ExtendNode.__init__ records partition_by=1 as a windowed situation before the 1 is normalised away")
    else:
        res.fail_at(rule, ini, "partition-by-1-not-windowed",
                    "ExtendNode.__init__ turns partition_by=1 into [] and decides the windowed situation afterwards, from the list: extend({'z': 'x + 1'}, partition_by=1) and "
                    "{'z': 'x.abs()'} are no longer windowed, so none of the window rules (aggregating function required, simple arguments, no contradicting function) is applied "
                    "and the printed step loses its partition_by=1", b0)


def windowed_classification_rules(program, res, rule="C26-S1"):
    """what decides that an extend is 'windowed' (and therefore subject to the window rules, and emitted with OVER in SQL)"""
    partition_one_is_windowed_rule(program, res, rule=rule)
    er = program.module("expr_rep")
    iw = er.functions.get("implies_windowed")
    if iw is None:
        raise AnalysisError("anchor vanished: expr_rep.implies_windowed")
    res.analysed(iw)
    # (a) the test looks at every operator of each expression, not only at its root
    def _calls(tree, name, skip_defs=False):
        out = []
        stack = list(ast.iter_child_nodes(tree))
        while stack:
            n = stack.pop()
            if skip_defs and isinstance(n, (ast.FunctionDef, ast.Lambda)):
                continue
            if isinstance(n, ast.Call) and isinstance(n.func, ast.Name) and n.func.id == name:
                out.append(n)
            stack.extend(ast.iter_child_nodes(n))
        return out

    walkers = [f for f in ast.walk(iw.node) if isinstance(f, ast.FunctionDef)
               and any(isinstance(n, ast.Attribute) and n.attr == "args" for n in ast.walk(f))
               and any(isinstance(n, ast.Attribute) and n.attr == "op" for n in ast.walk(f))
               and _calls(f, f.name)]
    # the walker is what the top-level loop consults (a walker that exists but is not called decides nothing)
    looks_inside = bool(walkers)
    recursive = any(w is iw.node or _calls(iw.node, w.name, skip_defs=True) for w in walkers)
    if looks_inside and recursive:
        res.ok(rule, "implies_windowed walks the whole expression tree (an aggregate nested in an expression makes the step windowed)")
    else:
        res.fail_at(rule, iw, "windowed-test-looks-at-root-only",
                    "implies_windowed tests only the top-level operator of each expression: extend({'s': 'x / x.sum()'}) is classified as row-wise, the "
                    "'only simple operators' rule is skipped and SQL emits a bare SUM(...) without OVER — one row instead of N")
    # (b) every name the executors realise as a window / aggregate function is in the vocabulary that makes a step windowed
    vs = er.consts.get("fn_names_that_imply_windowed_situation")
    if not isinstance(vs, ast.Set):
        raise AnalysisError("anchor vanished: expr_rep.fn_names_that_imply_windowed_situation (set literal)")
    vocab = {e.value for e in vs.elts if isinstance(e, ast.Constant)}
    pe = program.method("pandas_base", "PandasModelBase", "_extend_step", inherited=False)
    zero_vars = {st.targets[0].id for st in ast.walk(pe.node) if isinstance(st, ast.Assign) and len(st.targets) == 1 and isinstance(st.targets[0], ast.Name)
                 and unparse(st.value).endswith(".op[1:]")} or {"zero_op"}
    zero = set()
    for c in ast.walk(pe.node):
        if isinstance(c, ast.Compare) and isinstance(c.left, ast.Name) and c.left.id in zero_vars and len(c.ops) == 1:
            if isinstance(c.ops[0], ast.In) and isinstance(c.comparators[0], (ast.Set, ast.List, ast.Tuple)):
                zero |= {e.value for e in c.comparators[0].elts if isinstance(e, ast.Constant)}
            elif isinstance(c.ops[0], ast.Eq) and isinstance(c.comparators[0], ast.Constant):
                zero.add(c.comparators[0].value)
    if not zero:
        raise AnalysisError("Pandas _extend_step: zero-argument window operators not found")
    from .. import facts as _facts
    cat = program.module("op_catalog")
    catalogued = {c.value for c in ast.walk(cat.tree) if isinstance(c, ast.Constant) and isinstance(c.value, str)}
    need = {"_" + z for z in zero} | {a for a in _facts.WHOLE_PARTITION_AGGREGATORS if a in catalogued}
    for nm in sorted(need):
        if nm in vocab or nm.lstrip("_") in vocab and not nm.startswith("_"):
            res.ok(rule, f"`{nm}` makes an extend windowed")
        else:
            res.fail(rule, "expr_rep:fn_names_that_imply_windowed_situation", f"window-function-not-in-vocabulary:{nm}",
                     f"`{nm}` is realised as a window / aggregate function by the executors but is not in fn_names_that_imply_windowed_situation: "
                     f"extend({{'s': '{nm}()' if nm.startswith('_') else 'x.' + nm + '()'}}) without partition_by is treated as row-wise — SQL returns one row, Pandas raises",
                     "data_algebra/expr_rep.py", getattr(vs, "lineno", 0))


def common_keys_rule(program, res, rule="C26-S1"):
    """check_all_common_keys_in_equi_spec: a common column counts as a key only when it is equated with itself (pairwise over zip(on_a, on_b))"""
    init = program.cls("view_representations", "NaturalJoinNode").methods["__init__"]
    res.analysed(init)
    guards = [n for n in ast.walk(init.node) if isinstance(n, ast.If) and "check_all_common_keys_in_equi_spec" in unparse(n.test)]
    if not guards:
        res.fail_at(rule, init, "common-keys-flag-unused",
                    "no branch of NaturalJoinNode.__init__ tests check_all_common_keys_in_equi_spec: the requested check is never made", init.node)
        return
    body = guards[0]

    def _pairwise(c) -> bool:
        # a comprehension whose target is a pair (a, b) and whose filter compares exactly those two names for equality
        g = c.generators[0]
        if not (isinstance(g.target, ast.Tuple) and len(g.target.elts) == 2 and all(isinstance(e, ast.Name) for e in g.target.elts)):
            return False
        pair = {e.id for e in g.target.elts}
        return any(isinstance(i, ast.Compare) and len(i.ops) == 1 and isinstance(i.ops[0], ast.Eq)
                   and {x.id for x in [i.left, i.comparators[0]] if isinstance(x, ast.Name)} == pair for i in g.ifs)

    pairwise = any(isinstance(c, (ast.ListComp, ast.SetComp, ast.GeneratorExp)) and _pairwise(c) for c in ast.walk(body))
    if pairwise:
        res.ok(rule, "check_all_common_keys_in_equi_spec: keys are the pairs (a, b) of zip(on_a, on_b) with a == b")
    else:
        res.fail_at(rule, init, "common-keys-not-pairwise",
                    "the common-keys check subtracts a set built from on_a and on_b independently: on=[('k','v'),('v','k')] passes although neither k nor v "
                    "is equated with itself, and b's values of both columns are silently coalesced away", body)


def run(program, res, tier):
    res.rule("C26-S1", "each documented construction rule has a raise whose own guard depends on the rule's inputs")
    res.rule("C26-S2", "every non-leaf node kind has build-time validation rows")
    res.rule("C26-S3", "validation survives simplification (delegations forward every parameter, collapses validate first)")
    res.rule("C26-L1", "no exception object is constructed without being raised in builder modules")
    model = NodeModel(program)
    _s1(program, res)
    _s1_lookup_symbol(program, res)
    _s1_use_and_produce(program, res)
    _s1_allow_lists(program, res)
    row_wise_generators_rule(program, res)
    windowed_classification_rules(program, res)
    common_keys_rule(program, res)
    _s2(program, model, res)
    c06._s3_s4(program, model, res, s3="C26-S3", s4="C26-S3")
    _unraised_exceptions(program, res)
