"""C13 expression text is parsed with Python's precedence and meaning — structural clauses."""
from __future__ import annotations

import ast
from typing import Dict, List, Set

from .. import cfg as cfgmod
from .. import pat
from ..index import AnalysisError, dotted_name, unparse

EXPLANATION = (
    "S1 token→method table: parse_by_lark.op_remap maps every Python operator token the grammar can produce at "
    "the arithmetic/comparison levels to the special method Python calls for it (frozen table of the language "
    "reference), custom tokens (%+%, %?%, %/%) to existing Term methods, factor_remap likewise for unary "
    "operators. S2 round trip through the tables: the Term method named by op_remap[T] builds Expression(op=T') "
    "with op_remap[T'] == op_remap[T]; reflected methods (__radd__…) build the same op through the reversed "
    "helper that swaps the operands. S3 precedence: the grammar constant of python3_lark.py is loaded with lark "
    "(grammar text is data; nothing of the repository runs); the chain of single-nonterminal fall-through rules "
    "from `test` to `atom` and the operator set of every level equal Python's, including "
    "`power: await_expr (\"**\" factor)?` (right associative, binds tighter than a unary operator on its left). "
    "S4 fold direction of the tree walker: +,-,*,/ chains are folded left with the accumulator as receiver (or "
    "n-ary for one repeated + or *), and/or are n-ary, `not x` is x == False, a comparison chain with more than "
    "one operator never reaches the left fold (it becomes the conjunction of adjacent comparisons), unary "
    "operators apply to the right operand. Not decided: value equality with Python on operands."
)

PY_BINOP = {"+": "__add__", "-": "__sub__", "*": "__mul__", "/": "__truediv__", "//": "__floordiv__", "%": "__mod__",
            "**": "__pow__", "==": "__eq__", "!=": "__ne__", "<>": "__ne__", "<": "__lt__", "<=": "__le__", ">": "__gt__",
            ">=": "__ge__", "&": "__and__", "^": "__xor__", "|": "__or__"}
PY_UNARY = {"-": "__neg__", "+": "__pos__"}
CUSTOM = {"%+%": "concat", "%?%": "coalesce", "%/%": "float_divide"}

# Python's expression precedence chain, lowest first: (rule, operators introduced at that level)
CHAIN = [("test", None), ("or_test", {"or"}), ("and_test", {"and"}), ("not_test", {"not"}),
         ("comparison", {"<", ">", "==", ">=", "<=", "<>", "!=", "in", "not", "is"}),
         ("expr", {"|"}), ("xor_expr", {"^"}), ("and_expr", {"&"}), ("shift_expr", {"<<", ">>"}),
         ("arith_expr", {"+", "-"}), ("term", {"*", "/", "%", "//", "%+%", "%?%", "%/%"}),
         ("factor", {"+", "-", "~"}), ("power", {"**"}), ("await_expr", {"await"}), ("atom_expr", None), ("atom", None)]


def _dict_const(program, module, name) -> Dict[str, str]:
    node = program.const(module, name)
    if not isinstance(node, ast.Dict):
        raise AnalysisError(f"{module}.{name} is not a dict literal")
    out = {}
    for k, v in zip(node.keys, node.values):
        if not (isinstance(k, ast.Constant) and isinstance(v, ast.Constant)):
            raise AnalysisError(f"{module}.{name}: non-constant entry")
        out[k.value] = v.value
    return out


def _term_builders(program):
    """method name -> (helper, op) for Term methods of the form `return self.__op_expr__("op", other...)`"""
    out = {}
    cls = program.cls("expr_rep", "Term")
    for m in cls.methods.values():
        rets = [n for n in ast.walk(m.node) if isinstance(n, ast.Return)]
        for r in rets:
            c = r.value
            if isinstance(c, ast.Call) and isinstance(c.func, ast.Attribute) and isinstance(c.func.value, ast.Name) and c.func.value.id == "self" \
                    and c.func.attr in ("__op_expr__", "__rop_expr__", "__uop_expr__", "__triop_expr__") and c.args and isinstance(c.args[0], ast.Constant):
                out[m.name] = (c.func.attr, c.args[0].value, m, c)
    return out


def _s1_s2(program, res):
    op_remap = _dict_const(program, "parse_by_lark", "op_remap")
    factor_remap = _dict_const(program, "parse_by_lark", "factor_remap")
    builders = _term_builders(program)
    term_cls = program.cls("expr_rep", "Term")
    pl_mod = program.module("parse_by_lark")
    line = 0
    for tok, dunder in PY_BINOP.items():
        got = op_remap.get(tok)
        if got is None:
            if tok in ("&", "^", "|", "**"):
                # handled by rule name in the walker (power / expr / and_expr / xor_expr), checked in S4
                res.ok("C13-S1", f"op_remap has no entry for {tok}: the walker maps the grammar rule itself", nontrivial=False)
                continue
            res.fail("C13-S1", "parse_by_lark:op_remap", f"token:{tok}:missing", f"op_remap lacks `{tok}`: the walker would call getattr(term, '{tok}')",
                     pl_mod.relpath, line)
        elif got != dunder:
            res.fail("C13-S1", "parse_by_lark:op_remap", f"token:{tok}", f"op_remap['{tok}'] = {got!r}; Python evaluates `a {tok} b` with {dunder}",
                     pl_mod.relpath, line)
        else:
            res.ok("C13-S1", f"op_remap['{tok}'] = {dunder} (Python's special method)")
    for tok, meth in CUSTOM.items():
        got = op_remap.get(tok)
        if got != meth:
            res.fail("C13-S1", "parse_by_lark:op_remap", f"token:{tok}", f"op_remap['{tok}'] = {got!r}, documented meaning is Term.{meth}", pl_mod.relpath, line)
        elif term_cls.find_method(meth) is None:
            res.fail("C13-S1", "parse_by_lark:op_remap", f"token:{tok}:method", f"op_remap['{tok}'] names Term.{meth}, which does not exist", pl_mod.relpath, line)
        else:
            res.ok("C13-S1", f"custom token {tok} -> Term.{meth}")
    for tok, dunder in PY_UNARY.items():
        got = factor_remap.get(tok)
        if got != dunder:
            res.fail("C13-S1", "parse_by_lark:factor_remap", f"unary:{tok}", f"factor_remap['{tok}'] = {got!r}; Python's unary {tok} is {dunder}", pl_mod.relpath, line)
        elif term_cls.find_method(dunder) is None:
            res.fail("C13-S1", "parse_by_lark:factor_remap", f"unary:{tok}:method", f"Term has no {dunder}", pl_mod.relpath, line)
        else:
            res.ok("C13-S1", f"factor_remap['{tok}'] = {dunder}")
    # every op_remap target exists on Term
    for tok, meth in op_remap.items():
        if term_cls.find_method(meth) is None:
            res.fail("C13-S1", "parse_by_lark:op_remap", f"target:{tok}", f"op_remap['{tok}'] names Term.{meth}, which does not exist", pl_mod.relpath, line)
    # ---- S2 round trip
    for tok, meth in sorted(op_remap.items()):
        if meth not in builders:
            if meth in ("concat", "coalesce", "float_divide") and term_cls.find_method(meth) is not None:
                b = builders.get(meth)
            else:
                res.abstain("C13-S2", f"{tok} -> Term.{meth}", "method does not build an expression through __op_expr__")
                continue
        helper, op2, m, call = builders[meth]
        res.analysed(m)
        back = op_remap.get(op2, CUSTOM.get(op2))
        if back is None and term_cls.find_method(op2) is not None:
            back = op2  # printed in method form x.<op2>(y); parsing a method call invokes Term.<op2> again
        if tok in ("<>",):
            want = "__ne__"
        else:
            want = meth
        if helper != "__op_expr__":
            res.fail_at("C13-S2", m, f"roundtrip:{tok}:helper", f"Term.{meth} builds its expression with {helper}, the non-reflected binary helper is __op_expr__", call)
        elif back != want and not (op2 == tok):
            res.fail_at("C13-S2", m, f"roundtrip:{tok}",
                        f"`a {tok} b` calls Term.{meth}, which builds Expression(op={op2!r}); printing that and parsing it again "
                        f"calls {back}: the round trip changes the operator", call)
        else:
            res.ok("C13-S2", f"{tok} -> Term.{meth} -> Expression(op={op2!r}) -> {back or meth}")
    # reflected methods
    for name, (helper, op2, m, call) in sorted(builders.items()):
        if name.startswith("__r") and name.endswith("__") and name not in ("__round__", "__rshift__", "__rrshift__") and len(name) > 5:
            base = "__" + name[3:]
            if base in builders:
                bop = builders[base][1]
                if helper != "__rop_expr__":
                    res.fail_at("C13-S2", m, f"reflected:{name}:helper", f"Term.{name} uses {helper}; a reflected operator must build the expression with swapped operands (__rop_expr__)", call)
                elif op2 != bop:
                    res.fail_at("C13-S2", m, f"reflected:{name}", f"Term.{name} builds op {op2!r} but Term.{base} builds {bop!r}", call)
                else:
                    res.ok("C13-S2", f"Term.{name}: same op as {base} through the operand-swapping helper")
    # __rop_expr__ swaps, __op_expr__ does not
    t = program.cls("expr_rep", "Term")
    for hname, want in (("__op_expr__", "(self, other)"), ("__rop_expr__", "(other, self)")):
        h = t.methods.get(hname)
        if h is None:
            raise AnalysisError(f"anchor vanished: Term.{hname}")
        calls = [c for c in ast.walk(h.node) if isinstance(c, ast.Call) and dotted_name(c.func) == "Expression"]
        if calls and len(calls[0].args) >= 2 and unparse(calls[0].args[1]) == want:
            res.ok("C13-S2", f"Term.{hname} builds Expression(op, {want})")
        else:
            res.fail_at("C13-S2", h, f"operand-order:{hname}", f"Term.{hname} builds `{unparse(calls[0]) if calls else None}`, expected operands {want}")


def _s3(program, res):
    gnode = program.const("python3_lark", "grammar")
    if not (isinstance(gnode, ast.Constant) and isinstance(gnode.value, str)):
        raise AnalysisError("python3_lark.grammar is not a string constant")
    try:
        import lark
    except ImportError:
        raise AnalysisError("lark is not importable in the analyser's interpreter")
    try:
        parser = lark.Lark(gnode.value, parser="lalr", start="test")
    except Exception as e:
        raise AnalysisError(f"grammar does not load: {type(e).__name__}: {e}")
    term_pat = {t.name: (t.pattern.value if hasattr(t.pattern, "value") else str(t.pattern)) for t in parser.terminals}
    rules: Dict[str, List[List]] = {}
    for r in parser.rules:
        rules.setdefault(r.origin.name if hasattr(r.origin, "name") else str(r.origin), []).append(r.expansion)

    def symname(s):
        return s.name

    def ops_of(rule, seen=None, depth=0) -> Set[str]:
        """operator terminals reachable in the alternatives of a rule (through helper/op rules only)"""
        seen = seen or set()
        out = set()
        if rule in seen or depth > 3:
            return out
        seen.add(rule)
        for exp in rules.get(rule, []):
            for s in exp:
                nm = symname(s)
                if s.is_term:
                    pat = term_pat.get(nm, nm)
                    out.add(pat)
                elif nm.startswith("_") or nm.startswith("__"):
                    out |= ops_of(nm, seen, depth + 1)
        return out

    names = [c[0] for c in CHAIN]
    for i, (rname, want_ops) in enumerate(CHAIN[:-1]):
        nxt = names[i + 1]
        alts = rules.get(rname)
        if not alts:
            res.fail("C13-S3", "python3_lark:grammar", f"rule:{rname}:missing", f"grammar has no rule `{rname}` of Python's precedence chain",
                     "data_algebra/python3_lark.py", 0)
            continue
        falls = any(len([s for s in exp if not s.is_term]) >= 1 and symname([s for s in exp if not s.is_term][0]) == nxt
                    and len(exp) == 1 for exp in alts)
        if not falls and rname == "atom_expr":
            falls = any(len(exp) == 1 and symname(exp[0]) == "atom" for exp in alts)
        if falls:
            res.ok("C13-S3", f"{rname} falls through to {nxt}")
        else:
            res.fail("C13-S3", "python3_lark:grammar", f"chain:{rname}->{nxt}",
                     f"rule `{rname}` has no alternative that is just `{nxt}`: the precedence level order differs from Python's "
                     f"(alternatives: {[[symname(s) for s in e] for e in alts][:4]})", "data_algebra/python3_lark.py", 0)
        if want_ops is not None:
            got = {o for o in ops_of(rname) if o not in ("(", ")", "[", "]", ".", ",")}
            # keep only operator-like tokens
            got = {o for o in got if not o.isidentifier() or o in ("or", "and", "not", "in", "is", "await")}
            if rname == "comparison":
                got = {o for o in got}
            if got == want_ops:
                res.ok("C13-S3", f"operators at level {rname}: {sorted(got)}")
            else:
                res.fail("C13-S3", "python3_lark:grammar", f"operators:{rname}",
                         f"level `{rname}` introduces operators {sorted(got)}, Python's level has {sorted(want_ops)} "
                         f"(+ documented custom tokens at the multiplicative level)", "data_algebra/python3_lark.py", 0)
    # power: right operand is `factor`, at most one ** per power node (right associativity by recursion through factor)
    palts = rules.get("power", [])
    shapes = [[symname(s) for s in e] for e in palts]
    if any(len(sh) == 3 and sh[0] == "await_expr" and sh[2] == "factor" for sh in shapes):
        res.ok("C13-S3", "power: await_expr ** factor (right associative; -x ** 2 parses as -(x ** 2))")
    else:
        res.fail("C13-S3", "python3_lark:grammar", "power-shape", f"rule `power` alternatives {shapes}: expected await_expr \"**\" factor",
                 "data_algebra/python3_lark.py", 0)
    falts = [[symname(s) for s in e] for e in rules.get("factor", [])]
    if any(len(sh) == 2 and sh[1] == "factor" for sh in falts):
        res.ok("C13-S3", "factor: unary operator applies to a factor (binds looser than **)")
    else:
        res.fail("C13-S3", "python3_lark:grammar", "factor-shape", f"rule `factor` alternatives {falts}", "data_algebra/python3_lark.py", 0)
    # the parser entry point
    pnode = program.const("parse_by_lark", "parser")
    kws = {kw.arg: unparse(kw.value) for kw in pnode.keywords} if isinstance(pnode, ast.Call) else {}
    if kws.get("start") == "'test'":
        res.ok("C13-S3", "parser starts at `test`, the top of the expression chain")
    else:
        res.fail("C13-S3", "parse_by_lark:parser", "start-rule", f"parser start is {kws.get('start')}", "data_algebra/parse_by_lark.py", 0)


def _s4(program, res):
    w = program.func("parse_by_lark", "_walk_lark_tree")
    res.analysed(w)
    inner = [n for n in ast.walk(w.node) if isinstance(n, ast.FunctionDef) and n.name == "_r_walk_lark_tree"]
    if not inner:
        raise AnalysisError("anchor vanished: _walk_lark_tree._r_walk_lark_tree")
    fn = inner[0]
    g = cfgmod.build(fn)
    # the branch for arith_expr / term / comparison
    branch = None
    for n in ast.walk(fn):
        if isinstance(n, ast.If) and "arith_expr" in unparse(n.test) and "term" in unparse(n.test):
            branch = n
            break
    if branch is None:
        raise AnalysisError("_r_walk_lark_tree: branch for arith_expr/term not found")
    # left fold: res = getattr(res, op_name)(walk(child))
    fold = None
    for st in ast.walk(branch):
        if isinstance(st, ast.Assign) and isinstance(st.targets[0], ast.Name) and isinstance(st.value, ast.Call) \
                and isinstance(st.value.func, ast.Call) and dotted_name(st.value.func.func) == "getattr":
            ga = st.value.func
            if isinstance(ga.args[0], ast.Name) and ga.args[0].id == st.targets[0].id:
                fold = st
    if fold is not None:
        arg = unparse(fold.value.args[0]) if fold.value.args else ""
        if "2 * i + 2" in arg or "i + 1" in arg or "children" in arg:
            res.ok("C13-S4", "binary chains are folded left: accumulator is the receiver, next operand the argument")
        else:
            res.fail_at("C13-S4", w, "fold-argument", f"left fold applies `{unparse(fold)[:80]}`", fold)
    else:
        res.fail_at("C13-S4", w, "fold-direction", "the arithmetic chain is not folded as acc = getattr(acc, op)(next): associativity of - and / is lost")
    # the op looked up for position i is the token between operand i and i+1
    tok = [st for st in ast.walk(branch) if isinstance(st, ast.Assign) and "r_op.children[2 * i + 1]" in unparse(st.value)]
    if tok:
        res.ok("C13-S4", "operator i is the token between operands i and i+1")
    # comparison chains with more than one operator never reach the fold
    comp_branch = "comparison" in unparse(branch.test)
    if comp_branch:
        fold_node = g.node_of(fold) if fold is not None and g.has_node(fold) else None
        guarded = False
        for n in g.stmt_nodes(("test",)):
            t = unparse(n.cond)
            if "comparison" in t and "r_op.data" in t and any(isinstance(c_, ast.Compare) and isinstance(c_.left, ast.Name) and isinstance(c_.ops[0], ast.Gt)
                                                              and isinstance(c_.comparators[0], ast.Constant) and c_.comparators[0].value == 3
                                                              for c_ in ast.walk(n.cond)):
                exits = all(kind in ("return", "raise") for kind in
                            {g.nodes[x].kind for x in g.reachable_from([s for s, l in n.succ if l is True][0], avoid={n.id})
                             if g.nodes[x].kind in ("return", "raise", "falloff")})
                if exits and (fold_node is None or g.dominates(n.id, fold_node.id)):
                    guarded = True
                    body = unparse(n.stmt)
                    if "kop_expr" in body and "'and'" in body:
                        res.ok("C13-S4", "a chained comparison becomes the conjunction of its adjacent comparisons before the left fold is reached")
                        # adjacent pairs: operands[i] op operands[i + 1]
                        if any(e1["_OPS"] == e2["_OPS"] and e1["_I"] == e2["_I"] for (_a, e1) in pat.find("_OPS[_I]", n.stmt)
                               for (_b, e2) in pat.find("_OPS[_I + 1]", n.stmt)):
                            res.ok("C13-S4", "conjunction pairs operand i with operand i+1")
                        else:
                            res.fail_at("C13-S4", w, "chain-pairs", "the conjunction does not pair adjacent operands", n.stmt)
                    else:
                        res.ok("C13-S4", "a chained comparison is rejected before the left fold is reached")
        if not guarded:
            res.fail_at("C13-S4", w, "chained-comparison-left-folded",
                        "comparisons share the left fold of arithmetic chains and nothing stops a chain with two operators: "
                        "`a < x < y` parses as `(a < x) < y`, Python means `(a < x) and (x < y)`")
    # and/or n-ary, not -> == False
    txt = unparse(fn)
    kops = [e for (_n, e) in pat.find("data_algebra.expr_rep.kop_expr(_OPN, _CH, inline=True, method=False)", fn)]
    if kops and any(pat.find(f"{e['_OPN']} = 'or'", fn) and pat.find(f"{e['_OPN']} = 'and'", fn) for e in kops):
        res.ok("C13-S4", "and/or chains become one n-ary expression in source order")
    else:
        res.fail_at("C13-S4", w, "boolean-connectives", "and/or test chains are no longer built as n-ary kop_expr('and'|'or', children)")
    nots = [n for n in ast.walk(fn) if isinstance(n, ast.If) and unparse(n.test) == "r_op.data == 'not'"]
    if nots and "'__eq__'" in unparse(nots[0]) and "Value(False)" in unparse(nots[0]):
        res.ok("C13-S4", "`not x` is built as x == False")
    else:
        res.fail_at("C13-S4", w, "not-meaning", "`not x` is no longer built as x == False")
    # factor: unary applied to the right operand
    fac = [n for n in ast.walk(fn) if isinstance(n, ast.If) and unparse(n.test) == "r_op.data == 'factor'"]
    if fac:
        body = unparse(fac[0])
        rights = [e for (_n, e) in pat.find("_R = _r_walk_lark_tree(r_op.children[1])", fac[0])]
        applied = [e for (_n, e) in pat.find("getattr(_R, _OPN)()", fac[0])]
        if rights and any(a["_R"] == rights[0]["_R"] for a in applied) and "str(r_op.children[0])" in body:
            res.ok("C13-S4", "unary operators: token is child 0, applied to operand child 1")
        else:
            res.fail_at("C13-S4", w, "unary-shape", "the factor branch no longer applies the operator token (child 0) to the operand (child 1)", fac[0])
    # power / bitwise branch: __pow__ for power, bitwise rules rejected
    pw = [n for n in ast.walk(fn) if isinstance(n, ast.Dict) and any(isinstance(k, ast.Constant) and k.value == "power" for k in n.keys)]
    if pw:
        mp = {k.value: v.value for k, v in zip(pw[0].keys, pw[0].values) if isinstance(k, ast.Constant) and isinstance(v, ast.Constant)}
        want = {"power": "__pow__", "expr": "__or__", "and_expr": "__and__", "xor_expr": "__xor__"}
        if mp == want:
            res.ok("C13-S4", "rule→method map for power and the bitwise levels equals Python's")
        else:
            res.fail_at("C13-S4", w, "rule-method-map", f"rule→method map is {mp}, Python's is {want}", pw[0])
    else:
        raise AnalysisError("_r_walk_lark_tree: rule→method dict for power/bitwise levels not found")
    # n-ary + and * only when all operators are the same
    same = [n for n in ast.walk(branch) if isinstance(n, ast.If) and "len(set(ops_seen)) == 1" in unparse(n.test)]
    if same and "arith_expr" in unparse(same[0].test):
        inner_if = [n for n in ast.walk(same[0]) if isinstance(n, ast.If) and isinstance(n.test, ast.Compare) and len(n.test.ops) == 1
                    and isinstance(n.test.ops[0], ast.In) and isinstance(n.test.left, ast.Name)
                    and isinstance(n.test.comparators[0], (ast.List, ast.Set, ast.Tuple))]
        if inner_if and set(ast.literal_eval(inner_if[0].test.comparators[0])) <= {"+", "*"}:
            res.ok("C13-S4", "only repeated + or * (associative) are collected into one n-ary expression")
        else:
            res.fail_at("C13-S4", w, "nary-nonassociative", "a non-associative operator is collected into an n-ary expression", same[0])


def _s8_kary_collapse(program, res):
    """a chain `a op b op c …` of one precedence level is left-associative.  The walker may fold operands into one k-ary node only when the operators
    between them are all the same associative one: under a test that the set of the chain's operators has one element, or for a *contiguous* run found
    by a scan that stops at the first other operator.  Counting the occurrences of the leading operator anywhere in the chain folds `a + b - c + e`
    into (a + b + c) + e"""
    w = program.func("parse_by_lark", "_walk_lark_tree")
    inner = [n for n in ast.walk(w.node) if isinstance(n, ast.FunctionDef) and n.name == "_r_walk_lark_tree"]
    fn = inner[0]
    g = cfgmod.build(fn)
    n = 0
    for node in g.stmt_nodes(("stmt", "return")):
        for c in ast.walk(node.stmt):
            if not (isinstance(c, ast.Call) and (dotted_name(c.func) or "").endswith("kop_expr") and c.args):
                continue
            if isinstance(c.args[0], ast.Constant) and c.args[0].value in ("and", "or"):
                continue  # the conjunction of a comparison chain / boolean chains: every operator of those chains is the same by construction
            guards = [unparse(b.cond) for b, lab in g.lexical_guards(node) if lab is True]
            if not any("arith_expr" in t_ or "'term'" in t_ or '"term"' in t_ for t_ in guards):
                continue  # or_test / and_test nodes: the grammar joins all their children by the one operator of the node
            n += 1
            all_same = any(("len(set(" in t_ and "== 1" in t_) or ("all(" in t_ and "==" in t_) for t_ in guards)
            contiguous = False
            # the number of folded operands comes from a scan with an early exit
            names = {x.id for a_ in c.args[1:2] for x in ast.walk(a_) if isinstance(x, ast.Name)}
            for lp in ast.walk(fn):
                if isinstance(lp, (ast.For, ast.While)) and any(isinstance(b_, ast.Break) for b_ in ast.walk(lp)) \
                        and any(isinstance(t_, ast.Name) and t_.id in names for st in ast.walk(lp) if isinstance(st, (ast.Assign, ast.AugAssign)) for t_ in ast.walk(st.targets[0] if isinstance(st, ast.Assign) else st.target)):
                    contiguous = True
            if any(isinstance(x, ast.Call) and (dotted_name(x.func) or "").endswith("takewhile") for x in ast.walk(fn)):
                contiguous = True
            if all_same or contiguous:
                res.ok("C13-S8", f"k-ary `{unparse(c.args[0])}` node is built only for operands joined by one and the same operator")
            else:
                res.fail_at("C13-S8", w, "kary-collapse-across-other-operators",
                            f"`{unparse(c)[:70]}` folds operands into one k-ary node without a test that the operators between them are all the same (guards: {guards[-2:]}): "
                            f"`a + b - c + e` is read as (a + b + c) + e — 19 where Python gives 9 — and `a * b / c * e` as (a * b * c) * e", c)
    if n < 1:
        raise AnalysisError("_r_walk_lark_tree: the k-ary fold of arithmetic chains (kop_expr) was not found")


def _s9_kary_arguments_as_given(program, res):
    """the k-ary node builder carries the arguments the walker hands it: each is one operand of the run the text wrote.  Splicing the arguments of a nested node of
    the same operator into the outer node (an "associative flattening") regroups `a + (b + c)` as `(a + b) + c` — another value for floats (`-1e308 + (1e308 + 1e308)`)"""
    mod = program.module("expr_rep")
    f = mod.functions.get("kop_expr")
    if f is None:
        raise AnalysisError("anchor vanished: expr_rep.kop_expr")
    res.analysed(f)
    scope = [f.node] + [mod.functions[c.func.id].node for c in ast.walk(f.node) if isinstance(c, ast.Call) and isinstance(c.func, ast.Name) and c.func.id in mod.functions
                        and c.func.id not in ("enc_value",)]
    splices = [x for s_ in scope for x in ast.walk(s_) if isinstance(x, ast.Attribute) and x.attr == "args" and isinstance(x.value, ast.Name)
               and x.value.id not in ("self",)]
    if splices:
        res.fail_at("C13-S8", f, "kary-splices-nested-arguments",
                    f"the k-ary node builder reads `{unparse(splices[0])}` of an operand: the arguments of a nested node are taken into the outer node, so a parenthesised "
                    f"`a + (b + c)` is carried, printed and evaluated as `a + b + c` = (a + b) + c — for floats another value than Python computes for the text", splices[0])
    else:
        res.ok("C13-S8", "the k-ary node builder keeps each argument as one operand (no splicing of nested nodes)")


def _s7_call_forms(program, res):
    """f(x, …) with f the name of a Term method has to go through that method (which checks how many and which arguments it takes): building the
    expression directly lets round(a, 1) or shift(a, 0) through, and SQL drops the extra argument.  The argument list of the grammar ends in an
    optional item (a trailing comma is legal Python): its empty place is None and must not be walked"""
    w = program.func("parse_by_lark", "_walk_lark_tree")
    inner = [n for n in ast.walk(w.node) if isinstance(n, ast.FunctionDef) and n.name == "_r_walk_lark_tree"]
    if not inner:
        raise AnalysisError("anchor vanished: _walk_lark_tree._r_walk_lark_tree")
    fn = inner[0]
    direct = [c for c in ast.walk(fn) if isinstance(c, ast.Call) and (dotted_name(c.func) or "").endswith("Expression")
              and any(kw.arg == "op" and isinstance(kw.value, ast.Name) for kw in c.keywords) and any(kw.arg == "args" for kw in c.keywords)]
    if not direct:
        raise AnalysisError("_r_walk_lark_tree: the construction Expression(op=<name>, args=<args>) of the function-call form was not found")
    parents = {}
    for n in ast.walk(fn):
        for ch in ast.iter_child_nodes(n):
            parents[ch] = n
    for c in direct:
        # an enclosing block that first tries the method of that name
        blk = parents.get(c)
        while blk is not None and not isinstance(blk, (ast.If, ast.FunctionDef)):
            blk = parents.get(blk)
        scope = blk.orelse if isinstance(blk, ast.If) and any(c in list(ast.walk(x)) for x in blk.orelse) else (blk.body if blk is not None else [])
        def _method_call(e):
            return isinstance(e, ast.Call) and isinstance(e.func, ast.Call) and dotted_name(e.func.func) == "getattr"
        via_local = {t_.id for st in scope for a_ in ast.walk(st) if isinstance(a_, ast.Assign) and _method_call(a_.value) for t_ in a_.targets if isinstance(t_, ast.Name)}
        dispatches = any(isinstance(x, ast.Call) and dotted_name(x.func) == "getattr" and len(x.args) >= 2 and "Term" in unparse(x.args[0]) for st in scope for x in ast.walk(st)) \
            and any(isinstance(x, ast.Return) and (_method_call(x.value) or (isinstance(x.value, ast.Name) and x.value.id in via_local))
                    for st in scope for x in ast.walk(st))
        if dispatches:
            res.ok("C13-S6", "the function form f(x, …) of a Term method is handed to the method x.f(…)")
        else:
            res.fail_at("C13-S6", w, "function-form-bypasses-method",
                        f"`{unparse(c)[:70]}` builds the expression of f(x, …) directly, past the argument checks of the Term method f: round(a, 1) is accepted and SQLite computes "
                        f"ROUND(a) (1.0, -2.0, 1.0, 4.0 where Python and Pandas give 1.3, -2.3, 0.6, 4.4); a.round(1) is refused", c)
    # the method's refusal (an assert on its arguments) is the check the function form is handed over for: a handler that swallows it without a
    # condition lets around(x, y), trimstr(s, x, y), mapv(x, y) through to the plain form again
    for t_ in [t_ for t_ in ast.walk(fn) if isinstance(t_, ast.Try) and any(isinstance(x, ast.Call) and isinstance(x.func, ast.Call) and dotted_name(x.func.func) == "getattr"
                                                                            for st in t_.body for x in ast.walk(st))]:
        for hd in t_.handlers:
            names = {n_.id for n_ in ast.walk(hd.type) if isinstance(n_, ast.Name)} if hd.type is not None else {"*"}
            if not ({"AssertionError", "Exception", "*"} & names):
                continue
            # the wrong number of arguments (TypeError of the call itself) is excused for the n-ary names only: a None among the arguments is a reason to keep
            # the plain form when the method *asserts* on it, not a licence for round(x, 2, None) or log(x, None)
            if "TypeError" in names and any(isinstance(x, ast.Raise) for st in hd.body for x in ast.walk(st)) \
                    and any(isinstance(t_if, ast.If) and any(isinstance(c_, ast.Compare) and isinstance(c_.ops[0], ast.Is) and isinstance(c_.comparators[0], ast.Constant)
                                                             and c_.comparators[0].value is None for c_ in ast.walk(t_if.test)) for st in hd.body for t_if in ast.walk(st)):
                res.fail_at("C13-S6", w, "function-form-arity-rescued-by-none",
                            f"`except {unparse(hd.type)}:` lets a None argument excuse the TypeError of a call with the wrong number of arguments: round(x, 2, None), log(x, None), "
                            f"mean(x, None) are accepted as plain function calls and the executors disagree silently (Pandas log(x), SQLite NULL)", hd)
            elif any(isinstance(x, ast.Raise) for st in hd.body for x in ast.walk(st)):
                res.ok("C13-S6", "a refusal of the Term method is passed on unless the form is one the plain function form is kept for")
            else:
                res.fail_at("C13-S6", w, "function-form-swallows-method-refusal",
                            f"`except {unparse(hd.type) if hd.type is not None else ''}:` around the method call of the function form never raises again: every argument check of "
                            f"a Term method (around(x, y) with a column as digits, trimstr(s, x, y), mapv(x, y)) is skipped and the plain form goes to the executors, "
                            f"where Pandas raises and SQLite computes something", hd)
    comps = [c for c in ast.walk(fn) if isinstance(c, ast.ListComp) and isinstance(c.generators[0].iter, ast.Name) and c.generators[0].iter.id == "raw_args"]
    if not comps:
        raise AnalysisError("_r_walk_lark_tree: the walk over the call's arguments (raw_args) was not found")
    for c in comps:
        if any(isinstance(i, ast.Compare) and isinstance(i.ops[0], ast.IsNot) and isinstance(i.comparators[0], ast.Constant) and i.comparators[0].value is None for i in c.generators[0].ifs):
            res.ok("C13-S6", "the empty place a trailing comma leaves in an argument list is skipped")
        else:
            res.fail_at("C13-S6", w, "argument-placeholder-walked",
                        "every child of the argument list is walked, the None that the grammar's optional last item leaves included: `abs(a,)`, `a.if_else(1, 2,)` — legal Python — "
                        "raise ValueError('unexpected lark parse type: NoneType')", c)


def _s6(program, res):
    """Tree-shape agreement between grammar and walker: lark replaces a `?rule` node that has a single child by that child, so
    a walker branch may unpack `<child>.children` only where the grammar puts a rule that always keeps its own node, or after
    testing the child's kind."""
    gnode = program.const("python3_lark", "grammar")
    try:
        import lark
        parser = lark.Lark(gnode.value, parser="lalr", start="test")
    except Exception as e:
        raise AnalysisError(f"grammar does not load: {type(e).__name__}: {e}")
    inlinable = {str(r.origin.name) for r in parser.rules if r.options.expand1} | {str(r.origin.name) for r in parser.rules if str(r.origin.name).startswith("_")}
    kinds = {str(r.alias or r.origin.name) for r in parser.rules}
    by_kind: Dict[str, List[List[str]]] = {}
    for r in parser.rules:
        by_kind.setdefault(str(r.alias or r.origin.name), []).append([str(s.name) for s in r.expansion if not s.is_term])
    w = program.func("parse_by_lark", "_walk_lark_tree")
    inner = [n for n in ast.walk(w.node) if isinstance(n, ast.FunctionDef) and n.name == "_r_walk_lark_tree"]
    if not inner:
        raise AnalysisError("anchor vanished: _walk_lark_tree._r_walk_lark_tree")
    fn = inner[0]
    tree_param = fn.args.args[0].arg
    n_sites = 0
    for br in ast.walk(fn):
        if not (isinstance(br, ast.If) and isinstance(br.test, ast.Compare) and unparse(br.test.left) == f"{tree_param}.data"):
            continue
        try:
            handled = ast.literal_eval(br.test.comparators[0])
        except Exception:
            continue
        handled = [handled] if isinstance(handled, str) else list(handled)
        # a kind whose content is optional in the grammar (`"[" [testlist_comp] "]" -> list`): lark keeps the node and puts None where the content
        # is absent, so the branch has to test the child for None before it reads it (`[]`, `{}` are what an empty is_in list / mapv table print as)
        optional_kinds = [k for k in handled if any(len(e) == 0 for e in by_kind.get(k, [])) and any(len(e) == 1 for e in by_kind.get(k, []))]
        if optional_kinds:
            child0 = f"{tree_param}.children[0]"
            child_names = {child0} | {st.targets[0].id for b_ in br.body for st in ast.walk(b_) if isinstance(st, ast.Assign) and len(st.targets) == 1
                                      and isinstance(st.targets[0], ast.Name) and unparse(st.value) == child0}
            tests_none = any(isinstance(c, ast.Compare) and isinstance(c.ops[0], (ast.Is, ast.IsNot)) and isinstance(c.comparators[0], ast.Constant) and c.comparators[0].value is None
                             and unparse(c.left) in child_names for st in br.body for c in ast.walk(st))
            if tests_none:
                res.ok("C13-S6", f"walker branch {handled}: an absent (optional) content is tested for before it is read")
            else:
                res.fail_at("C13-S6", w, f"optional-content-read-unchecked:{optional_kinds[0]}",
                            f"the grammar makes the content of {optional_kinds} optional, the walker branch for {handled} reads `children[0]` as if it were there: "
                            f"x.is_in([]) prints 'x.is_in([])' and x.mapv({{}}, 0.0) prints 'x.mapv({{}}, 0.0)', and neither text can be read back (lark hands None for the absent content)", br)
        # names bound to a child of the node in this branch
        child_of: Dict[str, int] = {}
        for st in ast.walk(br):
            if isinstance(st, ast.Assign) and len(st.targets) == 1 and isinstance(st.targets[0], ast.Name):
                m = pat.match(f"{tree_param}.children[__I]", st.value)
                if m is not None and m["__I"].isdigit():
                    child_of[st.targets[0].id] = int(m["__I"])
        parents = {c: p_ for p_ in ast.walk(br) for c in ast.iter_child_nodes(p_)}
        for a in ast.walk(br):
            if not (isinstance(a, ast.Attribute) and a.attr == "children"):
                continue
            pos = None
            m = pat.match(f"{tree_param}.children[__I]", a.value)
            if m is not None and m["__I"].isdigit():
                pos = int(m["__I"])
            elif isinstance(a.value, ast.Name) and a.value.id in child_of:
                pos = child_of[a.value.id]
            if pos is None:
                continue
            n_sites += 1
            child_txt = unparse(a.value)
            # is the unpacking under a test of this child's kind?
            guarded = None
            x = a
            while x in parents and x is not br:
                px = parents[x]
                # (the else side of a kind test counts only where the child's first grandchild is read as a *name* via str(...): the
                # function-call form reads the callee there, and a callee that is not a bare name gives an operator name no
                # implementation table holds, so the text is refused; walking grandchildren as elements there is not covered)
                as_name = isinstance(parents.get(a), ast.Subscript) and isinstance(parents.get(parents.get(a)), ast.Call) \
                    and dotted_name(parents[parents[a]].func) == "str"
                if isinstance(px, ast.If) and (x in px.body or (x in px.orelse and as_name)) or isinstance(px, ast.IfExp) and x is px.body:
                    if f"{child_txt}.data" in unparse(px.test):
                        guarded = px.test
                        break
                x = px
            risky = []
            for k in handled:
                for nts in by_kind.get(k, []):
                    if pos < len(nts) and nts[pos] in inlinable:
                        risky.append((k, nts[pos]))
            if not risky:
                res.ok("C13-S6", f"{'/'.join(handled)}: child {pos} is always a node of its own rule; unpacking its children is safe")
                continue
            if guarded is not None:
                tested = {c.value for c in ast.walk(guarded) if isinstance(c, ast.Constant) and isinstance(c.value, str)}
                bad = sorted(t for t in tested if t not in kinds or t in inlinable and t not in {str(r.alias) for r in parser.rules if r.alias})
                if bad:
                    res.fail_at("C13-S6", w, f"tests-kind-the-grammar-never-produces:{bad[0]}",
                                f"the {'/'.join(handled)} branch unpacks child {pos} after testing for kind(s) {bad}, which the grammar never leaves as a node", a)
                else:
                    res.ok("C13-S6", f"{'/'.join(handled)}: child {pos} is unpacked only after its kind is tested ({sorted(tested)})")
                continue
            k, nt = risky[0]
            res.fail_at("C13-S6", w, f"unpacks-inlined-child:{k}",
                        f"the branch for {handled} unpacks `{child_txt}.children` as the elements, but for `{k}` the grammar puts `?{nt}` there, which lark replaces by its only "
                        f"child: for a one-element {k} the child IS the element, and the element's own sub-tree is unpacked instead — x.is_in([2 ** 3]) becomes is_in([2, 3]), "
                        f"[True] becomes [], [1 if 2 else 3] becomes [1, 2, 3]", a)
    if n_sites == 0:
        raise AnalysisError("_r_walk_lark_tree: no branch unpacks a child's children (collection branches not found)")


def printable_ops_rule(program, res, rule="C13-S7"):
    """every operator a Term method can put into an expression tree prints as text the walker accepts again"""
    w = program.func("parse_by_lark", "_walk_lark_tree")
    refused: Dict[str, str] = {}
    for d in ast.walk(w.node):
        if isinstance(d, ast.Assign) and len(d.targets) == 1 and isinstance(d.targets[0], ast.Name) and isinstance(d.value, ast.Dict):
            # the dictionary consulted by the branch that raises "bitwise operation ..., not currently supported"
            uses = [r for r in ast.walk(w.node) if isinstance(r, ast.Raise) and d.targets[0].id in unparse(r)]
            if uses:
                for k, v in zip(d.value.keys, d.value.values):
                    if isinstance(k, ast.Constant) and isinstance(v, ast.Constant) and isinstance(v.value, str):
                        refused[k.value] = v.value.split(" ")[0]
    if not refused:
        res.ok(rule, "the walker refuses no operator level of the grammar")
        return
    tokens = set(refused.values())
    term = program.cls("expr_rep", "Term")
    builders: Dict[str, List[str]] = {}
    for mname, m in sorted(term.methods.items()):
        for c in ast.walk(m.node):
            if isinstance(c, ast.Call) and isinstance(c.func, ast.Attribute) and c.func.attr in ("__op_expr__", "__rop_expr__") and c.args \
                    and isinstance(c.args[0], ast.Constant) and c.args[0].value in tokens:
                builders.setdefault(c.args[0].value, []).append(mname)
    for tok in sorted(tokens):
        if tok in builders:
            ms = builders[tok]
            m0 = term.methods[ms[0]]
            res.fail(rule, "expr_rep:Term", f"builds-operator-the-parser-refuses:{tok}",
                     f"Term.{'/'.join(ms)} build the inline operator `{tok}`, which prints as `a {tok} b`; the walker refuses that text "
                     f"(\"bitwise operation ... not currently supported\"): a pipeline built with the Python operator — or from the text "
                     f"a.{ms[0]}(b), which the parser does accept — prints text that can not be parsed back", m0.file, m0.node.lineno)
        else:
            res.ok(rule, f"no Term method builds `{tok}`, which the walker refuses")


def printable_literals_rule(program, res, rule="C13-S7", column_names=False):
    """what Value / ColumnReference print must be text the parser reads back as the same thing"""
    vi = program.method("expr_rep", "Value", "__init__", inherited=False)
    vp = program.method("expr_rep", "Value", "to_python", inherited=False)
    both = unparse(vi.node) + unparse(vp.node)
    if any(k in both for k in ("isfinite", "isnan", "isinf")):
        res.ok(rule, "non-finite float constants are tested for where constants are admitted or printed")
    else:
        res.fail_at(rule, vp, "non-finite-float-printed-as-bare-name",
                    "Value admits every float and prints it with repr: inf / -inf / nan print as the bare names `inf`, `nan`, which the parser reads as column "
                    "references (NameError: unknown symbol, or — with a column of that name — a different tree). `a < 1e400` parses, prints `a < inf` and does not parse again")
    if not column_names:
        return  # a *parsed* expression holds only names the NAME token matched; free-form names concern built pipelines (C12)
    cr = program.cls("expr_rep", "ColumnReference")
    ci, cp = cr.methods["__init__"], cr.methods["to_python"]
    bare = any(isinstance(c, ast.Call) and dotted_name(c.func) == "PythonText" and c.args and unparse(c.args[0]) == "self.column_name" for c in ast.walk(cp.node))
    checked = "isidentifier" in unparse(ci.node) or "isidentifier" in unparse(cp.node)
    if bare and not checked:
        res.fail_at(rule, cp, "column-name-printed-bare-without-identifier-check",
                    "ColumnReference prints its name bare into expression text and no constructor requires the name to be an identifier: with a column called "
                    "'x-y' the expression col('x-y') + 1 prints `x-y + 1`, which reads back as x minus y plus 1 (other values, silently); 'my col' prints text that does not parse")
    else:
        res.ok(rule, "column names are printed bare only after an identifier check")


def run(program, res, tier):
    res.rule("C13-S1", "token→method tables equal Python's operator→special-method table")
    res.rule("C13-S2", "token → Term method → Expression op → token round trip; reflected methods swap operands")
    res.rule("C13-S3", "grammar precedence chain and operator sets per level equal Python's")
    res.rule("C13-S4", "tree walker fold direction per grammar rule")
    res.assumptions.append("Python language reference: operator precedence table and operator→special method mapping")
    _s1_s2(program, res)
    _s3(program, res)
    _s4(program, res)
    res.rule("C13-S6", "the walker unpacks a child's children only where the grammar guarantees the child keeps its own node (or after testing its kind)")
    _s6(program, res)
    _s7_call_forms(program, res)
    _s9_kary_arguments_as_given(program, res)
    res.rule("C13-S8", "k-ary arithmetic nodes hold operands joined by one and the same operator")
    _s8_kary_collapse(program, res)
    res.rule("C13-S7", "every operator a Term method can build prints as text the walker accepts")
    printable_ops_rule(program, res)
    printable_literals_rule(program, res)
    # S5: printing keeps the grouping the parser needs (shared with C12)
    from ..report import Relabel
    from . import c12
    res.rule("C13-S5", "printed expressions keep grouping: inline forms honour want_inline_parens, is_in_parens is claimed honestly")
    c12._s2(program, Relabel(res, {"*": "C13-S5"}))
    c12._s2b(program, Relabel(res, {"*": "C13-S5"}), rule="C13-S5")
