"""C03 the Polars executor agrees with Pandas whenever it returns a result — structural clauses."""
from __future__ import annotations

import ast
import itertools
from typing import Dict, List, Optional, Set, Tuple

from .. import cfg as cfgmod
from .. import facts
from ..index import AnalysisError, dotted_name, unparse
from ..nodes import NodeModel
from ..report import Relabel
from . import c05, c08, c09, c16, c18

EXPLANATION = (
    "S1 dispatch: each of the 13 operator node kinds has a Polars step, and every step refuses a node of another "
    "kind. S2 found-or-raise: on every path of PolarsExpressionActor.act_on_expression the callable that is applied "
    "comes from one of the implementation tables, and a failed lookup reaches the raise (no default callable, no "
    "path that applies an unbound name). S3 expression table agreement: every entry of the Polars implementation "
    "tables is compared with the operator it is filed under — a method entry `x.m(...)` must call the Polars method "
    "of that meaning (identity, or a frozen alias table with the keyword that fixes the direction, e.g. fill_null "
    "strategy), an operator entry must apply the Python operator of its key to its parameters in order, lambda "
    "arity equals the table's arity for every operator the expression language can build, and the when/then/"
    "otherwise templates of if_else and where are evaluated over {null, true, false} x values against the documented "
    "truth tables; maximum/minimum/fmax/fmin are checked against the null behaviour of the primitive they call. "
    "S4 ordering: per-column descending flags follow membership in `reverse` for order_rows and windows; project "
    "groups by the declared keys. S5 joins: every join type reaches the Polars join of that meaning (constant "
    "propagation of `how` over the six join types), swapped inputs come with swapped key lists, the coalesce of "
    "shared columns prefers the left input for every join type, key columns of a full join are coalesced. "
    "S6 every step projects to the declared columns. Not decided: numerical agreement of each Polars primitive "
    "with numpy/pandas, dtype differences, row order."
)

# data_algebra operator -> admissible Polars Expr method(s) when the entry is a single method call on its first parameter.
# default (not listed): the method named like the operator.  Keyword constraints fix direction-like arguments.
METHOD_ALIASES: Dict[str, Set[str]] = {
    "nunique": {"n_unique"}, "any_value": {"min", "max", "first"}, "bfill": {"fill_null", "backward_fill"}, "ffill": {"fill_null", "forward_fill"},
    "as_int64": {"cast"}, "as_str": {"cast"}, "is_inf": {"is_infinite"}, "around": {"round"}, "cumsum": {"cumsum", "cum_sum"},
    "cummax": {"cummax", "cum_max"}, "cummin": {"cummin", "cum_min"}, "cumprod": {"cumprod", "cum_prod"},
    "arccos": {"arccos"}, "arcsin": {"arcsin"}, "arctan": {"arctan"}, "size": {"sum", "count", "len"},
    "count": {"sum"}, "cumcount": {"cumsum", "cum_sum"},
}
# Polars primitives that are *not* the Pandas meaning of the operator although the name suggests it (API facts, polars docs)
POLARS_CAVEATS = {
    ("count", "count"): "Expr.count() counts every non-null value, NaN included; Pandas' count treats NaN as missing — with a NaN produced inside the "
                        "pipeline (0/0, log of a negative) Polars returns a larger count without raising",
    ("size", "count"): "Expr.count() skips nulls; size counts rows",
}
POLARS_CAVEATS[("nunique", "n_unique")] = ("Expr.n_unique() counts null as one more distinct value; Pandas' nunique and SQL's COUNT(DISTINCT) "
                                           "skip missing values (an all-null group gives 1 instead of 0)")
POLARS_CAVEATS[("first", "first")] = ("Expr.first() is the value of the first row, null included; Pandas' groupby first (project and transform) is the first "
                                      "non-missing value (g: x=[None, 1] gives null on Polars, 1 on Pandas)")
POLARS_CAVEATS[("last", "last")] = ("Expr.last() is the value of the last row, null included; Pandas' groupby last is the last non-missing value")
POLARS_CAVEATS[("as_str", "cast")] = ("Expr.cast(String) spells a Boolean 'true' / 'false' and a float in its shortest form with a bare exponent ('1e-7'); Pandas' astype(str) "
                                      "gives 'True' / 'False' and '1e-07' — b.as_str() == 'True' keeps 2 rows on Pandas and none on Polars, and text built from numbers differs as a "
                                      "group or join key")
POLARS_UNSIGNED_RESULTS = {"n_unique"}
# predicates that answer a truth value for a missing argument on Pandas (numpy.isinf / numpy.isnan over NaN) and in the SQL templates
POLARS_NULL_PREDICATES = {"is_inf": False}  # is_nan of a missing value stays null on purpose (tests/test_polars.py::test_is_inf_polars: "Polars can tell the difference")
CAVEAT_LIFTED_BY = {("nunique", "n_unique"): "drop_nulls", ("first", "first"): "drop_nulls", ("last", "last"): "drop_nulls"}
KEYWORD_CONSTRAINTS = {("bfill", "fill_null"): ("strategy", "backward"), ("ffill", "fill_null"): ("strategy", "forward")}
BINOPS = {"-": ast.Sub, "+": ast.Add, "*": ast.Mult, "/": ast.Div, "//": ast.FloorDiv, "%": ast.Mod, "**": ast.Pow, "%/%": ast.Div,
          "mod": ast.Mod, "remainder": ast.Mod}
CMPOPS = {"==": ast.Eq, "!=": ast.NotEq, "<": ast.Lt, "<=": ast.LtE, ">": ast.Gt, ">=": ast.GtE}
EXPECTED_JOIN = {"inner": {("inner", False)}, "left": {("left", False)}, "right": {("left", True), ("right", False)},
                 "outer": {("outer", False), ("full", False)}, "full": {("outer", False), ("full", False)}, "cross": {("cross", False)}}


def propagates_nulls(entry) -> bool:
    """pl.when(<any operand is null>).then(None).otherwise(<primitive>) turns a null-ignoring primitive into a null-propagating one"""
    body_ = entry.body if isinstance(entry, ast.Lambda) else entry
    if isinstance(body_, ast.Call) and isinstance(body_.func, ast.Attribute) and body_.func.attr == "otherwise":
        then_ = body_.func.value
        if isinstance(then_, ast.Call) and isinstance(then_.func, ast.Attribute) and then_.func.attr == "then" and len(then_.args) == 1 \
                and isinstance(then_.args[0], ast.Constant) and then_.args[0].value is None:
            when_ = then_.func.value
            if isinstance(when_, ast.Call) and dotted_name(when_.func) == "pl.when" and "is_null" in unparse(when_) \
                    and ("any_horizontal" in unparse(when_) or "|" in unparse(when_)):
                return True
    return False


# ------------------------------------------------------------------------------------------------ S1 / S2
def _s1(program, res):
    model = NodeModel(program)
    n = 0
    for k in model.kinds.values():
        n += 1
        m = k.evaluators.get("polars")
        if m is None:
            res.fail("C03-S1", f"view_representations:{k.name}", "dispatch:polars",
                     f"node kind {k.name} has no Polars step: evaluation raises KeyError", "data_algebra/polars_model.py", 0)
            continue
        res.analysed(m)
        guards = [i for i in ast.walk(m.node) if isinstance(i, ast.If) and "node_name" in unparse(i.test) and any(isinstance(b, ast.Raise) for b in i.body)]
        names = [c.value for g in guards for c in ast.walk(g.test) if isinstance(c, ast.Constant) and isinstance(c.value, str)]
        if guards and k.node_name in names:
            res.ok("C03-S1", f"{k.name}: Polars dispatch -> {m.qualname}, which refuses any other node kind")
        elif guards:
            res.fail_at("C03-S1", m, f"step-accepts-wrong-node:{k.name}", f"{m.qualname} is the Polars step of {k.name} but checks node_name against {names}")
        else:
            res.ok("C03-S1", f"{k.name}: Polars dispatch -> {m.qualname}", nontrivial=False)
    res.expect_count("C03-S1", "node kinds", n, 13)


def _s2(program, res):
    m = program.method("polars_model", "PolarsExpressionActor", "act_on_expression", inherited=False)
    res.analysed(m)
    g = cfgmod.build(m.node)
    # the applied callable
    applies = []
    for n in g.stmt_nodes(("stmt", "return")):
        for c in ast.walk(n.stmt):
            if isinstance(c, ast.Call) and isinstance(c.func, ast.Name) and any(isinstance(a, ast.Starred) for a in c.args):
                applies.append((n, c))
    if len(applies) != 1:
        raise AnalysisError(f"PolarsExpressionActor.act_on_expression: expected one application `f(*args)`, found {len(applies)}")
    an, call = applies[0]
    fname = call.func.id
    # definitions of f: None, or a subscript of one of the implementation tables
    tables = set()
    bad_defs = []
    for n in g.stmt_nodes(("stmt",)):
        st = n.stmt
        if isinstance(st, ast.Assign) and len(st.targets) == 1 and isinstance(st.targets[0], ast.Name) and st.targets[0].id == fname:
            v = st.value
            if isinstance(v, ast.Constant) and v.value is None:
                continue
            if isinstance(v, ast.Subscript) and "impl_map" in unparse(v.value):
                tables.add(unparse(v.value).split("[")[0])
                if "op.op" not in unparse(v.slice):
                    bad_defs.append((st, "is not looked up under the expression's operator"))
                continue
            bad_defs.append((st, "is not a lookup in an implementation table"))
    for st, why in bad_defs:
        res.fail_at("C03-S2", m, f"default-callable:{unparse(st.value)[:40]}",
                    f"`{unparse(st)[:80]}` {why}: an unsupported operator would be evaluated by a default instead of raising", st)
    # a raise guarded by `f is None` dominates the application
    raise_guard = None
    for n in g.stmt_nodes(("test",)):
        if unparse(n.cond).replace(" ", "") in (f"{fname}isNone", f"({fname}isNone)") and isinstance(n.stmt, ast.If) and any(isinstance(b, ast.Raise) for b in n.stmt.body):
            raise_guard = n
    if raise_guard is None:
        res.fail_at("C03-S2", m, "no-raise-on-failed-lookup", f"no `if {fname} is None: raise` precedes `{unparse(call)}`: a failed lookup applies None or falls through")
    elif not g.dominates(raise_guard.id, an.id):
        res.fail_at("C03-S2", m, "raise-does-not-dominate-application", f"the application `{unparse(call)}` can be reached without passing `if {fname} is None: raise`")
    else:
        # between the guard and the application nothing re-binds f
        rebinds = [n for n in g.stmt_nodes(("stmt",)) if isinstance(n.stmt, ast.Assign) and isinstance(n.stmt.targets[0], ast.Name)
                   and n.stmt.targets[0].id == fname and n.id in g.reachable_from(raise_guard.id)]
        if rebinds:
            res.fail_at("C03-S2", m, "rebound-after-guard", f"`{unparse(rebinds[0].stmt)[:60]}` re-binds {fname} after the failed-lookup guard", rebinds[0].stmt)
        else:
            res.ok("C03-S2", f"every path to `{unparse(call)}` passes `if {fname} is None: raise`; {fname} comes only from {sorted(tables)}")
    # lookups swallow only KeyError
    for h in [x for x in ast.walk(m.node) if isinstance(x, ast.ExceptHandler)]:
        t = unparse(h.type) if h.type is not None else "<bare>"
        if t != "KeyError":
            res.fail_at("C03-S2", m, f"broad-except:{t}", f"a lookup is wrapped in `except {t}`: errors other than a missing entry are silenced", h)
    if len(tables) < 2:
        raise AnalysisError("PolarsExpressionActor.act_on_expression: implementation table lookups not found")


# ------------------------------------------------------------------------------------------------ S3
def _impl_tables(program) -> Dict[str, Tuple[Optional[int], str, Dict[str, ast.AST]]]:
    """name -> (arity or None, context, {op: entry node})"""
    mod = program.module("polars_model")
    f = mod.functions.get("_populate_expr_impl_map")
    if f is None:
        raise AnalysisError("anchor vanished: polars_model._populate_expr_impl_map")
    out: Dict[str, Tuple[Optional[int], str, Dict[str, ast.AST]]] = {}

    def grab(dnode: ast.Dict):
        return {k.value: v for k, v in zip(dnode.keys, dnode.values) if isinstance(k, ast.Constant) and isinstance(k.value, str)}

    def visit(stmts, ctx):
        for st in stmts:
            if isinstance(st, ast.Assign) and len(st.targets) == 1 and isinstance(st.targets[0], ast.Name) and isinstance(st.value, ast.Dict) \
                    and st.targets[0].id.startswith("impl_map_"):
                ar = st.targets[0].id.rsplit("_", 1)[1]
                if ar.isdigit():
                    out[f"{st.targets[0].id}[{ctx}]"] = (int(ar), ctx, grab(st.value))
            elif isinstance(st, ast.If):
                visit(st.body, "extend" if "extend_context" in unparse(st.test) else ctx)
                visit(st.orelse, "project" if "extend_context" in unparse(st.test) else ctx)
    visit(f.node.body, "both")
    init = program.method("polars_model", "PolarsModel", "__init__", inherited=False)
    for st in ast.walk(init.node):
        if isinstance(st, ast.Assign) and unparse(st.targets[0]) == "self.impl_map_arbitrary_arity" and isinstance(st.value, ast.Dict):
            out["impl_map_arbitrary_arity"] = (None, "both", grab(st.value))
    if len(out) < 4:
        raise AnalysisError(f"only {len(out)} Polars implementation tables found")
    return out


def _constructible_arities(program) -> Dict[str, Set[int]]:
    """operator -> arities at which a Term method / operator overload builds it"""
    out: Dict[str, Set[int]] = {}
    term = program.cls("expr_rep", "Term")
    for m in term.methods.values():
        for c in ast.walk(m.node):
            if isinstance(c, ast.Call) and isinstance(c.func, ast.Attribute) and c.func.attr in ("__op_expr__", "__rop_expr__", "__uop_expr__", "__triop_expr__") \
                    and c.args and isinstance(c.args[0], ast.Constant):
                ar = {"__op_expr__": 2, "__rop_expr__": 2, "__uop_expr__": 1, "__triop_expr__": 3}[c.func.attr]
                out.setdefault(c.args[0].value, set()).add(ar)
    return out


def _when_eval(e: ast.AST, env: Dict[str, object]):
    """evaluate a Polars when/then/otherwise template over {None, True, False, values}"""
    if isinstance(e, ast.Name):
        if e.id in env:
            return env[e.id]
        raise KeyError(e.id)
    if isinstance(e, ast.Constant):
        return e.value
    if isinstance(e, ast.Call):
        fn = e.func
        name = dotted_name(fn) or ""
        if name in ("pl.lit", "_build_lit") and e.args:
            return _when_eval(e.args[0], env)
        if isinstance(fn, ast.Attribute):
            if fn.attr == "is_null" and not e.args:
                return _when_eval(fn.value, env) is None
            if fn.attr == "is_not_null" and not e.args:
                return _when_eval(fn.value, env) is not None
            if fn.attr == "otherwise" and isinstance(fn.value, ast.Call) and isinstance(fn.value.func, ast.Attribute) and fn.value.func.attr == "then":
                then_call = fn.value
                when_call = then_call.func.value
                if isinstance(when_call, ast.Call) and (dotted_name(when_call.func) or "") == "pl.when":
                    c = _when_eval(when_call.args[0], env)
                    # polars: the `then` branch is taken only where the predicate is true (null predicate -> otherwise)
                    return _when_eval(then_call.args[0], env) if c is True else _when_eval(e.args[0], env)
    if isinstance(e, ast.UnaryOp) and isinstance(e.op, ast.Invert):
        v = _when_eval(e.operand, env)
        return None if v is None else (not v)
    raise KeyError(unparse(e)[:40])


def _s3(program, res):
    tables = _impl_tables(program)
    buildable = _constructible_arities(program)
    n_entries = 0
    n_decided = 0
    for tname, (arity, ctx, entries) in sorted(tables.items()):
        for op, node in sorted(entries.items()):
            n_entries += 1
            if not isinstance(node, ast.Lambda):
                if isinstance(node, ast.Name):
                    want = {"mapv": "_mapv", "+": "_reduce_plus", "*": "_reduce_times", "and": "_reduce_and", "&": "_reduce_and", "&&": "_reduce_and",
                            "or": "_reduce_or", "|": "_reduce_or", "||": "_reduce_or"}.get(op)
                    if want is None:
                        res.abstain("C03-S3", f"{tname}[{op!r}] = {node.id}", "named helper without a table entry")
                    elif node.id == want:
                        n_decided += 1
                        res.ok("C03-S3", f"{tname}[{op!r}] -> helper {node.id}")
                    else:
                        res.fail("C03-S3", f"polars_model:{tname}", f"entry:{op}", f"Polars files operator {op!r} under helper {node.id}; the helper of that meaning is {want}",
                                 "data_algebra/polars_model.py", node.lineno)
                continue
            params = [a.arg for a in node.args.args]
            # arity
            if arity is not None and len(params) != arity and not node.args.vararg:
                if arity in buildable.get(op, set()) or op not in buildable:
                    if op in buildable:
                        res.fail("C03-S3", f"polars_model:{tname}", f"arity:{op}", f"{tname}[{op!r}] takes {len(params)} parameters but is looked up for {arity} arguments, "
                                 f"and the expression language builds {op!r} with {arity}: the call raises TypeError or binds the wrong operands",
                                 "data_algebra/polars_model.py", node.lineno)
                    else:
                        res.ok("C03-S3", f"{tname}[{op!r}]: filed under arity {arity} with {len(params)} parameter(s); no Term method builds {op!r} at that arity", nontrivial=False)
                else:
                    res.ok("C03-S3", f"{tname}[{op!r}]: filed under arity {arity} with {len(params)} parameter(s); not constructible at that arity", nontrivial=False)
                continue
            body = node.body
            # operator entries
            if op in BINOPS and len(params) == 2:
                n_decided += 1
                if isinstance(body, ast.BinOp) and isinstance(body.op, BINOPS[op]) and unparse(body.left) == params[0] and unparse(body.right) == params[1]:
                    res.ok("C03-S3", f"{tname}[{op!r}]: `{unparse(body)}` applies the operator to (a, b) in order")
                else:
                    res.fail("C03-S3", f"polars_model:{tname}", f"entry:{op}", f"{tname}[{op!r}] is `{unparse(body)[:60]}`: not `{params[0]} {op if op in '+-*/%' or op in ('//', '**') else BINOPS[op].__name__} {params[1]}`",
                             "data_algebra/polars_model.py", node.lineno)
                continue
            if op in CMPOPS and len(params) == 2:
                n_decided += 1
                if isinstance(body, ast.Compare) and len(body.ops) == 1 and isinstance(body.ops[0], CMPOPS[op]) and unparse(body.left) == params[0] \
                        and unparse(body.comparators[0]) == params[1]:
                    res.ok("C03-S3", f"{tname}[{op!r}]: `{unparse(body)}`")
                else:
                    res.fail("C03-S3", f"polars_model:{tname}", f"entry:{op}", f"{tname}[{op!r}] is `{unparse(body)[:60]}`: not the comparison {op} of (a, b) in order",
                             "data_algebra/polars_model.py", node.lineno)
                continue
            if op == "-" and len(params) == 1:
                n_decided += 1
                ok = (isinstance(body, ast.UnaryOp) and isinstance(body.op, ast.USub) and unparse(body.operand) == params[0]) or \
                     (isinstance(body, ast.BinOp) and isinstance(body.op, ast.Sub) and unparse(body.left) == "0" and unparse(body.right) == params[0])
                (res.ok("C03-S3", f"{tname}['-'] negates") if ok else
                 res.fail("C03-S3", f"polars_model:{tname}", "entry:-", f"unary minus is `{unparse(body)}`", "data_algebra/polars_model.py", node.lineno))
                continue
            # truth-table entries
            if op in ("if_else", "where") and len(params) == 3:
                n_decided += 1
                bad = []
                try:
                    for vals in itertools.product((None, True, False), (None, 1.0), (None, 2.0)):
                        got = _when_eval(body, dict(zip(params, vals)))
                        want = c05._contract(op, vals)
                        if got != want or (got is None) != (want is None):
                            bad.append((vals, got, want))
                except KeyError as e:
                    res.abstain("C03-S3", f"{tname}[{op!r}]", f"template not interpretable: {e}")
                    continue
                if bad:
                    vals, got, want = bad[0]
                    res.fail("C03-S3", f"polars_model:{tname}", f"truth-table:{op}",
                             f"Polars {op}: `{unparse(body)[:90]}` gives {got!r} for (cond, x, y) = {vals}; documented (and Pandas): {want!r} "
                             f"({len(bad)} of 12 rows differ)", "data_algebra/polars_model.py", node.lineno)
                else:
                    res.ok("C03-S3", f"{tname}[{op!r}]: when/then/otherwise template equals the documented truth table on all 12 rows")
                continue
            # single method call on the first parameter (a trailing .cast(…) only changes the dtype; a leading .drop_nulls() removes missing values first)
            had_cast = False
            while isinstance(body, ast.Call) and isinstance(body.func, ast.Attribute) and body.func.attr == "cast" and isinstance(body.func.value, ast.Call):
                body = body.func.value
                had_cast = True
            # Polars counts (n_unique) are UInt32: without a cast to a signed type, -n and m - n wrap around in later arithmetic
            if isinstance(body, ast.Call) and isinstance(body.func, ast.Attribute) and body.func.attr in POLARS_UNSIGNED_RESULTS and not had_cast:
                res.fail("C03-S3", f"polars_model:{tname}", f"entry:{op}:unsigned-result",
                         f"{tname}[{op!r}] returns Polars' `{body.func.attr}()` as it is (UInt32): project({{'n': 'x.nunique()'}}).extend({{'d': '-n'}}) gives 4294967294 "
                         f"where Pandas gives -2 — cast the count to Int64", "data_algebra/polars_model.py", node.lineno)
                continue
            # a trailing .fill_null(<constant>): the answer for a missing value
            null_answer = "absent"
            if isinstance(body, ast.Call) and isinstance(body.func, ast.Attribute) and body.func.attr == "fill_null" and len(body.args) == 1 \
                    and isinstance(body.args[0], ast.Constant) and isinstance(body.func.value, ast.Call):
                null_answer = body.args[0].value
                body = body.func.value
            if op in POLARS_NULL_PREDICATES:
                want_answer = POLARS_NULL_PREDICATES[op]
                if null_answer != want_answer:
                    n_decided += 1
                    res.fail("C03-S3", f"polars_model:{tname}", f"entry:{op}:null-answer",
                             f"{tname}[{op!r}] is `{unparse(node.body if isinstance(node, ast.Lambda) else node)[:60]}`: for a missing value Polars answers null, Pandas (numpy) and SQL answer "
                             f"{want_answer} — select_rows('not x.{op}()') keeps the row with the missing x on Pandas and SQLite and drops it on Polars",
                             "data_algebra/polars_model.py", node.lineno)
                    continue
            prefixes = set()
            if isinstance(body, ast.Call) and isinstance(body.func, ast.Attribute) and isinstance(body.func.value, ast.Call) \
                    and isinstance(body.func.value.func, ast.Attribute) and body.func.value.func.attr in ("drop_nulls", "drop_nans") \
                    and isinstance(body.func.value.func.value, ast.Name) and params and body.func.value.func.value.id == params[0]:
                prefixes.add(body.func.value.func.attr)
                import copy as _copy
                body = _copy.copy(body)
                body.func = _copy.copy(body.func)
                body.func.value = body.func.value.func.value
            if isinstance(body, ast.Call) and isinstance(body.func, ast.Attribute) and isinstance(body.func.value, ast.Name) and params and body.func.value.id == params[0]:
                meth = body.func.attr
                allowed = METHOD_ALIASES.get(op, {op})
                n_decided += 1
                cav = POLARS_CAVEATS.get((op, meth))
                if cav is not None and (op, meth) in CAVEAT_LIFTED_BY and CAVEAT_LIFTED_BY[(op, meth)] in prefixes:
                    cav = None
                if cav is not None:
                    res.fail("C03-S3", f"polars_model:{tname}", f"entry:{op}:{meth}",
                             f"{tname}[{op!r}] calls `{params[0]}.{meth}(…)`: {cav}", "data_algebra/polars_model.py", node.lineno)
                    continue
                if meth not in allowed:
                    res.fail("C03-S3", f"polars_model:{tname}", f"entry:{op}",
                             f"{tname}[{op!r}] calls `{params[0]}.{meth}(…)`; the operator `{op}` means {sorted(allowed)} — Polars silently computes something else than Pandas",
                             "data_algebra/polars_model.py", node.lineno)
                    continue
                kc = KEYWORD_CONSTRAINTS.get((op, meth))
                if kc is not None:
                    kws = {k.arg: k.value for k in body.keywords}
                    v = kws.get(kc[0])
                    if not (isinstance(v, ast.Constant) and v.value == kc[1]):
                        res.fail("C03-S3", f"polars_model:{tname}", f"entry:{op}:{kc[0]}", f"{tname}[{op!r}] calls {meth}({kc[0]}={unparse(v) if v is not None else None}); "
                                 f"`{op}` needs {kc[0]}={kc[1]!r}", "data_algebra/polars_model.py", node.lineno)
                        continue
                # later parameters must be passed in order
                rest = [unparse(a) for a in body.args if isinstance(a, ast.Name) and a.id in params]
                if rest and rest != params[1:1 + len(rest)]:
                    res.fail("C03-S3", f"polars_model:{tname}", f"entry:{op}:argument-order", f"{tname}[{op!r}] passes {rest} where the operands are {params[1:]}",
                             "data_algebra/polars_model.py", node.lineno)
                    continue
                res.ok("C03-S3", f"{tname}[{op!r}]: {params[0]}.{meth}(…)")
                continue
            # counting family: <ones column>.<sum | cumsum>
            fam = op.lstrip("_")
            if fam in ("count", "cumcount", "row_number", "size") and isinstance(body, ast.Call) and isinstance(body.func, ast.Attribute) \
                    and isinstance(body.func.value, ast.Call) and (dotted_name(body.func.value.func) or "") == "pl.col":
                n_decided += 1
                col = unparse(body.func.value.args[0]) if body.func.value.args else ""
                want_m = {"cumsum", "cum_sum"} if (ctx == "extend" and fam != "size") else {"sum"}
                if col != "_da_temp_one_column_name":
                    res.fail("C03-S3", f"polars_model:{tname}", f"entry:{op}:column", f"{tname}[{op!r}] counts over `{col}`, not the column of ones",
                             "data_algebra/polars_model.py", node.lineno)
                elif body.func.attr not in want_m:
                    res.fail("C03-S3", f"polars_model:{tname}", f"entry:{op}", f"{tname}[{op!r}] is `{unparse(body)[:60]}`; in the {ctx} context `{op}` is the "
                             f"{'running' if 'cumsum' in want_m else 'total'} count: {sorted(want_m)} of the ones column", "data_algebra/polars_model.py", node.lineno)
                else:
                    res.ok("C03-S3", f"{tname}[{op!r}]: {body.func.attr} of the ones column ({ctx} context)")
                continue
            # pl.<function>(args)
            PL_FUNCS = {"coalesce": "pl.coalesce", "concat": "pl.concat_str", "fmax": "pl.max_horizontal", "fmin": "pl.min_horizontal",
                        "maximum": "pl.max_horizontal", "minimum": "pl.min_horizontal", "coalesce0": "pl.coalesce"}
            if op in PL_FUNCS and isinstance(body, ast.Call) and (dotted_name(body.func) or "").startswith("pl."):
                n_decided += 1
                got = dotted_name(body.func)
                if got != PL_FUNCS[op]:
                    res.fail("C03-S3", f"polars_model:{tname}", f"entry:{op}", f"{tname}[{op!r}] calls {got}(…); the operator `{op}` is {PL_FUNCS[op]}",
                             "data_algebra/polars_model.py", node.lineno)
                elif op == "coalesce0" and not (len(body.args) == 2 and unparse(body.args[0]) == params[0] and unparse(body.args[1]) in ("_build_lit(0)", "pl.lit(0)")):
                    res.fail("C03-S3", f"polars_model:{tname}", f"entry:{op}", f"{tname}[{op!r}] is `{unparse(body)}`: not coalesce(x, 0)", "data_algebra/polars_model.py", node.lineno)
                else:
                    res.ok("C03-S3", f"{tname}[{op!r}]: {got}(…)")
                continue
            if op == "+" and len(params) == 1 and unparse(body) == params[0]:
                n_decided += 1
                res.ok("C03-S3", f"{tname}['+']: unary plus is the identity")
                continue
            if op == "is_bad" and isinstance(body, ast.BinOp):
                n_decided += 1
                parts = set()
                stack = [body]
                while stack:
                    x = stack.pop()
                    if isinstance(x, ast.BinOp) and isinstance(x.op, ast.BitOr):
                        stack += [x.left, x.right]
                    else:
                        parts.add(unparse(x))
                want_p = {f"{params[0]}.is_null()", f"{params[0]}.is_infinite()", f"{params[0]}.is_nan()"}
                if parts == want_p:
                    res.ok("C03-S3", f"{tname}['is_bad']: null | infinite | nan")
                else:
                    res.fail("C03-S3", f"polars_model:{tname}", "entry:is_bad", f"is_bad is `{unparse(body)}`: expected the disjunction of {sorted(want_p)}",
                             "data_algebra/polars_model.py", node.lineno)
                continue
            res.abstain("C03-S3", f"{tname}[{op!r}] = `{unparse(body)[:50]}`", "composite expression: meaning not decided")
    res.expect_count("C03-S3", "Polars implementation entries", n_entries, 120)
    res.expect_count("C03-S3", "entries decided against the operator they are filed under", n_decided, 110)
    # primitives with a null contract
    pol = tables["impl_map_arbitrary_arity"][2]
    for op, want in facts.NULL_CONTRACT.items():
        if op not in pol:
            continue
        txt = unparse(pol[op])
        prim = [k for k in facts.NULL_SEMANTICS if k.startswith("pl.") and k in txt]
        wrapped = propagates_nulls(pol[op])
        if prim and wrapped and want == "propagate":
            res.ok("C03-S3", f"Polars {op}: null when any operand is null, else {prim[0]} (Pandas' null behaviour)")
            continue
        if prim and facts.NULL_SEMANTICS[prim[0]] != want:
            res.fail("C03-S3", "polars_model:PolarsModel.__init__", f"polars:{op}",
                     f"Polars binds `{op}` to `{txt}`; {prim[0]} {facts.NULL_SEMANTICS[prim[0]]}s nulls, Pandas (numpy.{op}) {want}s them: "
                     f"x.{op}(y) with a null operand returns the other operand on Polars and null on Pandas",
                     "data_algebra/polars_model.py", getattr(pol[op], "lineno", 0))
        else:
            res.ok("C03-S3", f"Polars {op}: `{txt[:50]}` has Pandas' null behaviour")
    res.assumptions.append("Polars Expr method names mean what the Polars API documents (frozen alias table METHOD_ALIASES); null behaviour of "
                           "max_horizontal/min_horizontal (sa/facts.py)")


# ------------------------------------------------------------------------------------------------ S5 join types
def _join_reach(fnode, jointype: str):
    """constant propagation of `how`: which join(...) calls are reached for this join type, with what `how`, swapped or not"""
    found = []

    def ev_test(t, env):
        if isinstance(t, ast.Compare) and len(t.ops) == 1 and isinstance(t.left, ast.Name) and t.left.id in env and isinstance(t.comparators[0], ast.Constant):
            v = env[t.left.id]
            if v is None:
                return None
            if isinstance(t.ops[0], ast.Eq):
                return v == t.comparators[0].value
            if isinstance(t.ops[0], ast.NotEq):
                return v != t.comparators[0].value
            if isinstance(t.ops[0], ast.In) :
                return None
        if isinstance(t, ast.Compare) and len(t.ops) == 1 and isinstance(t.left, ast.Name) and t.left.id in env and isinstance(t.ops[0], (ast.In, ast.NotIn)) \
                and isinstance(t.comparators[0], (ast.List, ast.Tuple, ast.Set)) and all(isinstance(x, ast.Constant) for x in t.comparators[0].elts):
            v = env[t.left.id]
            if v is None:
                return None
            r = v in [x.value for x in t.comparators[0].elts]
            return r if isinstance(t.ops[0], ast.In) else not r
        return None

    def run(stmts, env):
        for st in stmts:
            if isinstance(st, ast.Assign) and len(st.targets) == 1 and isinstance(st.targets[0], ast.Name):
                nm = st.targets[0].id
                v = st.value
                if isinstance(v, ast.Constant) and isinstance(v.value, str):
                    env[nm] = v.value
                elif "op.jointype" in unparse(v):
                    t = unparse(v)
                    env[nm] = jointype.lower() if ".lower()" in t else (jointype.upper() if ".upper()" in t else jointype)
                elif nm in env:
                    env[nm] = None
            for c in ast.walk(st) if not isinstance(st, (ast.If, ast.For, ast.While)) else []:
                if isinstance(c, ast.Call) and isinstance(c.func, ast.Attribute) and c.func.attr == "join" and any(k.arg == "how" for k in c.keywords):
                    kws = {k.arg: k.value for k in c.keywords}
                    h = kws["how"]
                    hv = h.value if isinstance(h, ast.Constant) else (env.get(h.id) if isinstance(h, ast.Name) else None)
                    recv = unparse(c.func.value)
                    found.append((hv, recv, unparse(kws.get("left_on")) if kws.get("left_on") is not None else None,
                                  unparse(kws.get("right_on")) if kws.get("right_on") is not None else None, c))
            if isinstance(st, ast.If):
                r = ev_test(st.test, env)
                if r is True:
                    run(st.body, env)
                elif r is False:
                    run(st.orelse, env)
                else:
                    e1, e2 = dict(env), dict(env)
                    run(st.body, e1)
                    run(st.orelse, e2)
                    for k in set(e1) | set(e2):
                        env[k] = e1.get(k) if e1.get(k) == e2.get(k) else None
            elif isinstance(st, (ast.For, ast.While)):
                run(st.body, env)
    run(fnode.body, {})
    return found


def _s5_jointypes(program, res):
    sj = program.func("expr_rep", "standardize_join_type")
    allowed = None
    for st in ast.walk(sj.node):
        if isinstance(st, ast.Assign) and isinstance(st.value, ast.Set):
            allowed = {e.value for e in st.value.elts if isinstance(e, ast.Constant)}
    if not allowed:
        raise AnalysisError("standardize_join_type: allowed set literal not found")
    pj = program.method("polars_model", "PolarsModel", "_natural_join_step", inherited=False)
    res.analysed(pj)
    for jt in sorted(allowed):
        reach = _join_reach(pj.node, jt)
        if len(reach) != 1:
            res.fail_at("C03-S5", pj, f"join-reach:{jt}", f"for join type {jt} the Polars step reaches {len(reach)} join calls (expected exactly one)")
            continue
        how, recv, lo, ro, call = reach[0]
        swapped = recv.endswith("[1]")
        want = EXPECTED_JOIN[jt.lower()]
        if (how, swapped) not in want:
            res.fail_at("C03-S5", pj, f"polars-join-type:{jt}",
                        f"join type {jt} reaches `{recv}.join(how={how!r})`{' on swapped inputs' if swapped else ''}; the join of that meaning is "
                        f"{sorted(want)} — Polars returns a different table than Pandas without raising", call)
            continue
        exp_lo, exp_ro = ("op.on_b", "op.on_a") if swapped else ("op.on_a", "op.on_b")
        if (lo, ro) != (exp_lo, exp_ro):
            res.fail_at("C03-S5", pj, f"polars-join-keys:{jt}", f"join type {jt}: `{recv}.join(left_on={lo}, right_on={ro})`; with "
                        f"{'swapped' if swapped else 'unswapped'} inputs the key lists must be left_on={exp_lo}, right_on={exp_ro}", call)
            continue
        res.ok("C03-S5", f"Polars: {jt} -> {recv}.join(how={how!r}, left_on={lo}, right_on={ro})")


def _s7_sibling_returns(program, res):
    """PandasModelBase and PolarsModel implement one interface.  Where the Pandas method hands back a value on every path, a Polars sibling
    that can run off its end hands back None for those inputs (cross-check of siblings; the reference is the other implementation)."""
    from .. import cfg as cfgmod
    pd_cls = program.cls("pandas_base", "PandasModelBase")
    pl_cls = program.cls("polars_model", "PolarsModel")

    def falls_off(m) -> bool:
        g = cfgmod.build(m.node)
        live = g.live_nodes()
        fall = [n for n in g.nodes if n.kind == "falloff"]
        preds_live = any(n.id in live for n in fall)
        # an explicit bare `return` counts as well
        bare = any(n.kind == "return" and n.stmt.value is None and n.id in live for n in g.nodes)
        return preds_live or bare

    def returns_values(m) -> bool:
        return any(isinstance(r, ast.Return) and r.value is not None for r in ast.walk(m.node))

    n = 0
    for name, pm in sorted(pd_cls.methods.items()):
        lm = pl_cls.methods.get(name)
        if lm is None or name.startswith("__"):
            continue
        if not returns_values(pm) or falls_off(pm):
            continue  # the Pandas method is itself a procedure (or partial): no reference
        n += 1
        res.analysed(lm)
        if falls_off(lm):
            res.fail_at("C03-S7", lm, f"sibling-falls-off:{name}",
                        f"PandasModelBase.{name} returns a value on every path; PolarsModel.{name} can run off its end and return None "
                        f"(an expression statement where a `return` was meant): callers written against the Pandas model get None on Polars")
        else:
            res.ok("C03-S7", f"{name}: both data models return a value on every path")
    if n < 10:
        raise AnalysisError(f"C03-S7: only {n} sibling methods with a value-returning Pandas reference found")


def nan_is_missing_rule(program, res, rule="C03-S3"):
    """Pandas has one missing marker for numbers (NaN): a NaN computed inside a pipeline (0/0, inf - inf) *is* missing for every later step, and SQLite
    stores it as NULL.  Polars keeps NaN and null apart, and only its `count` / `cumcount` / `is_bad` entries test both.  The executors agree on later steps
    only if the Polars executor turns a computed NaN into null (fill_nan(None)) where it computes columns"""
    mod = program.module("polars_model")
    src_calls = [c for c in ast.walk(mod.tree) if isinstance(c, ast.Call) and isinstance(c.func, ast.Attribute) and c.func.attr == "fill_nan"]
    tests_nan = [c for c in ast.walk(mod.tree) if isinstance(c, ast.Call) and isinstance(c.func, ast.Attribute) and c.func.attr == "is_nan"]
    if src_calls:
        res.ok(rule, f"Polars: computed NaN is normalised ({len(src_calls)} fill_nan call(s))")
    elif tests_nan:
        res.fail(rule, "polars_model:PolarsModel._extend_step", "polars-nan-is-not-missing",
                 f"the Polars executor never turns a computed NaN into null (no fill_nan), although {len(tests_nan)} of its entries (count, cumcount, is_bad) already treat NaN as "
                 f"missing: q = x / y with 0/0 is missing on Pandas and SQLite for every later step — q.is_null() False, q.coalesce(0) keeps NaN, q > 0 keeps the row, "
                 f"q.sum() by group is NaN, order_rows(q, reverse, limit) ranks it first on Polars", "data_algebra/polars_model.py", 0)
    else:
        res.ok(rule, "Polars: no entry treats NaN as missing (NaN and null are kept apart throughout)")


def empty_frame_types_rule(program, res, rule="C03-S8", methods=None):
    """a zero-row result built as DataFrame({name: [] for name in ...}) has no column types: Pandas makes every column float64, Polars Null.
    The next step that meets a populated table (join keys, concat, fill of shared columns) then raises on the mismatch although no row is
    involved.  A zero-row result has to be built from typed columns (the input's own, or typed empty series)"""
    n = 0
    for (mod, cls) in (("pandas_base", "PandasModelBase"), ("polars_model", "PolarsModel")):
        c = program.cls(mod, cls)
        for m in c.methods.values():
            if methods is not None and m.name not in methods:
                continue
            n += 1
            res.analysed(m)
            bad = []
            for call in ast.walk(m.node):
                if isinstance(call, ast.Call) and (dotted_name(call.func) or "").endswith("DataFrame") and call.args and isinstance(call.args[0], ast.DictComp) \
                        and isinstance(call.args[0].value, ast.List) and not call.args[0].value.elts \
                        and not any(kw.arg in ("schema", "dtype", "schema_overrides") for kw in call.keywords):
                    bad.append(call)
                # ... or DataFrame(<local>) where the local is such a comprehension
                if isinstance(call, ast.Call) and (dotted_name(call.func) or "").endswith("DataFrame") and call.args and isinstance(call.args[0], ast.Name):
                    for a_ in ast.walk(m.node):
                        if isinstance(a_, ast.Assign) and len(a_.targets) == 1 and isinstance(a_.targets[0], ast.Name) and a_.targets[0].id == call.args[0].id \
                                and isinstance(a_.value, ast.DictComp) and isinstance(a_.value.value, ast.List) and not a_.value.value.elts:
                            bad.append(a_)
            for st in ast.walk(m.node):
                # frame[name] = []  (a column added to a zero-row frame)
                if isinstance(st, ast.Assign) and len(st.targets) == 1 and isinstance(st.targets[0], ast.Subscript) and isinstance(st.value, ast.List) and not st.value.elts \
                        and isinstance(st.targets[0].value, ast.Name) and st.targets[0].value.id in ("res", "data", "left", "right"):
                    bad.append(st)
            if bad:
                res.fail_at(rule, m, f"zero-row-frame-without-types:{m.name}",
                            f"`{unparse(bad[0])[:80]}` in {cls}.{m.name}: every column of the zero-row result is float64 (Pandas) / Null (Polars) whatever the input's types — "
                            f"two filters that select nothing, joined, then outer-joined to a populated table raise TypeError on Pandas; an empty table sent through "
                            f"convert_records and concat_rows raises SchemaError on Polars; SQL returns the other table's rows", bad[0])
            else:
                res.ok(rule, f"{cls}.{m.name}: no zero-row frame is built from bare empty lists", nontrivial=False)
    res.expect_count(rule, "data-model methods examined", n, 2 if methods else 60)


def run(program, res, tier):
    nan_is_missing_rule(program, res)
    res.rule("C03-S8", "zero-row results keep the column types of their inputs")
    empty_frame_types_rule(program, res)
    res.rule("C03-S1", "every node kind has a Polars step that refuses other kinds")
    res.rule("C03-S2", "expression lookup: found in an implementation table or raise")
    res.rule("C03-S3", "implementation table entries mean the operator they are filed under")
    res.rule("C03-S4", "sort / window direction and grouping keys follow the declared ones")
    res.rule("C03-S5", "joins: type mapping, key pairing, left-preferring coalesce for every type, key coalescing")
    res.rule("C03-S6", "every step projects to the declared columns")
    _s1(program, res)
    _s2(program, res)
    _s3(program, res)
    c18.polarity_rule(program, Relabel(res, {"*": "C03-S4"}), rule="C03-S4", windows=False, backends=("polars",))
    c18.polarity_rule(program, Relabel(res, {"*": "C03-S4"}), rule="C03-S4", windows=True, backends=("polars",))
    c09._s3(program, Relabel(res, {"*": "C03-S4"}))
    c18.null_position_rule(program, res, ["polars"], rule="C03-S4")
    _s5_jointypes(program, res)
    c16.polars_coalesce_rule(program, Relabel(res, {"*": "C03-S5"}), rule="C03-S5")
    c16.coalesce_exemption_rule(program, Relabel(res, {"*": "C03-S5"}), rule="C03-S5")
    c16.polars_orphan_key_rule(program, Relabel(res, {"*": "C03-S5"}), rule="C03-S5")
    c16.polars_join_guard_rule(program, Relabel(res, {"*": "C03-S5"}), rule="C03-S5")
    c16.polars_full_join_keys_rule(program, Relabel(res, {"*": "C03-S5"}), rule="C03-S5")
    c08._s2(program, Relabel(res, {"*": "C03-S6"}))
    c08._s7_record_transform_columns(program, Relabel(res, {"*": "C03-S6"}))
    from . import c17 as _c17
    _c17.record_sort_null_position(program, Relabel(res, {"*": "C03-S4"}), rule="C03-S4")
    _c17._s6_polars_stacking(program, Relabel(res, {"*": "C03-S3"}))
    _c17.polars_spec_order_rule(program, Relabel(res, {"*": "C03-S6"}), rule="C03-S6")
    res.rule("C03-S7", "sibling methods of the two data models agree on returning a value")
    _s7_sibling_returns(program, res)
    from . import c05
    c05._s6_concat_missing(program, Relabel(res, {"*": "C03-S3"}))
    c05._s4b_polars_slice_contract(program, Relabel(res, {"*": "C03-S3"}))
