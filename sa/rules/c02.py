"""C02 PostgreSQL SQL computes the same table as the Pandas executor — structural clauses."""
from __future__ import annotations

import ast

from .. import facts, sqlexpr
from ..index import AnalysisError, dotted_name, unparse
from ..nodes import NodeModel
from ..report import Relabel
from . import c04, c05, c09, c10, c16

EXPLANATION = (
    "No PostgreSQL server exists in the sandbox and none is needed for what is decided. S1 vocabulary: every "
    "catalogue row marked 'y' for PostgreSQLModel is resolved through the modelled lookup order of expr_to_sql "
    "with PostgreSQL's own formatter table and op replacements (read from PostgreSQL.py) into a formatter, an "
    "inline operator, or a function of the frozen PostgreSQL 16 vocabulary with the admissible spelling for its "
    "meaning (log→LN, std→STDDEV_SAMP, var→VAR_SAMP, mean→AVG); the null truth tables of the comparison / "
    "selection templates are evaluated three-valued; join keywords built as jointype + ' JOIN' must be "
    "PostgreSQL join syntax for every accepted join type. S2 the paths SQLite never takes: PostgreSQL keeps "
    "supports_cte_elim (constant-folded from the dialect constructor), so the CTE cache-key coherence and WITH "
    "re-wrap rules of C04 are obligations of this property; native RIGHT/FULL joins go through the shared join "
    "generator whose coalesce direction and ON pairing are checked. S3 pruning/aggregation rules shared with C01. "
    "Not decided: everything value-level."
)


def run(program, res, tier):
    res.rule("C02-S1", "PostgreSQL vocabulary: functions, spellings, null truth tables, join keywords")
    res.rule("C02-S2", "CTE elimination (enabled for PostgreSQL) and WITH re-wrap are coherent")
    res.rule("C02-S3", "pruning and aggregation rules of the shared SQL generator")
    f = sqlexpr.confirm_lookup_model(program)
    res.analysed(f)
    d = sqlexpr.Dialect(program, "PostgreSQL", "PostgreSQLModel")
    rows = sqlexpr.catalog(program)
    tmeth = c05.term_methods(program)
    r1 = Relabel(res, {"*": "C02-S1"})
    c05._sql_s1(program, r1, d, rows, {}, tmeth)
    c05._s2(program, r1, [d])
    c05._s4_slice_contract(program, Relabel(res, {"*": "C02-S1"}))
    c05.sql_division_rule(program, res, d, "C02-S1")
    c05.sql_modulo_tables(program, res, rule="C02-S1", dialects={"PostgreSQLModel"})
    c05.sql_template_grouping_rule(program, res, rule="C02-S1", dialects={"PostgreSQLModel"})
    c05._require_decided(res)
    # configuration constants of the dialect
    cte = d.const_kwarg("supports_cte_elim")
    if cte is True:
        res.ok("C02-S2", "PostgreSQLModel keeps supports_cte_elim=True (default): the CTE-elimination path is live")
    else:
        res.ok("C02-S2", f"PostgreSQLModel sets supports_cte_elim={cte}", nontrivial=False)
    if d.const_kwarg("identifier_quote") == '"' and d.const_kwarg("string_quote") == "'":
        res.ok("C02-S1", "PostgreSQL quoting configuration: identifiers \"..\", strings '..'")
    else:
        res.fail("C02-S1", "PostgreSQL:PostgreSQLModel.__init__", "quoting-config",
                 f"identifier_quote={d.const_kwarg('identifier_quote')!r}, string_quote={d.const_kwarg('string_quote')!r} are not PostgreSQL's",
                 "data_algebra/PostgreSQL.py", 0)
    # join keywords
    from . import c16 as _c16
    _accepted, allowed = _c16.join_type_image(program)   # the join types that reach the SQL generator
    nj = program.method("sql_model", "SQLModel", "natural_join_to_near_sql", inherited=False)
    if "natural_join_to_near_sql" in d.cls.methods:
        res.abstain("C02-S1", "PostgreSQL join keywords", "PostgreSQLModel overrides natural_join_to_near_sql")
    else:
        for jt in sorted(allowed):
            kw = jt + " JOIN"
            if kw in facts.POSTGRESQL_JOIN_KEYWORDS:
                res.ok("C02-S1", f"join type {jt} -> `{kw}`")
            else:
                res.fail_at("C02-S1", nj, f"join-keyword:{jt}", f"join type {jt} is emitted as `{kw}`, which is not PostgreSQL join syntax")
    r2 = Relabel(res, {"*": "C02-S2"})
    c04._s1a(program, r2)
    c04.clause_pushdown_rule(program, r2)
    c04._s1b(program, r2)
    c04._s1d(program, r2)
    c04._s1c(program, r2)
    c04._s2(program, r2)
    c16._s3(program, Relabel(res, {"*": "C02-S2"}))
    c16._s3c(program, Relabel(res, {"*": "C02-S2"}))
    model = NodeModel(program)
    r3 = Relabel(res, {"*": "C02-S3"})
    c10._s3(program, model, r3)
    c09._s1(program, r3)
    c09.sql_counts_rule(program, r3, rule="C02-S3", dialects=(("PostgreSQL", "PostgreSQLModel"),))
    res.rule("C02-S4", "comparison operators agree with Pandas on missing operands")
    from . import c01
    c01.comparison_null_rule(program, res, "PostgreSQL", "PostgreSQLModel", rule="C02-S4")
    res.rule("C02-S5", "missing values are ordered where Pandas puts them")
    from . import c18
    c18.null_position_rule(program, res, ["PostgreSQLModel"], rule="C02-S5")
    res.assumptions.append("PostgreSQL 16 built-in function list, meaning vocabulary and join keywords (sa/facts.py)")
