"""C04 SQL formatting and optimisation options never change query results — structural clauses."""
from __future__ import annotations

import ast
from typing import Dict, List, Set

from .. import cfg as cfgmod
from .. import deps as depsmod
from ..index import AnalysisError, dotted_name, unparse

EXPLANATION = (
    "S1 cache-key coherence: NearSQL.ops_key (+ the container's columns) is the CTE-elimination cache key. "
    "(a) every store into a field the emitters read (terms, suffix, sub_sql, prefix, joiner) of an *existing* "
    "NearSQL object is classified by def-use as restriction (a sub-dict of the object's own values) or "
    "redefinition (values drawn from elsewhere — the extend merge); a redefinition must be post-dominated by a "
    "store to that object's ops_key depending on the new terms. (b) the key used with the cache is built from "
    "the step's ops_key and the container's columns, and a step without ops_key (None) is never cached: a "
    "value-kind dataflow proves the `is not None` guard is not vacuous. (c) the dependencies declared for a "
    "windowed term (read by the merge contention test) include partition_by and order_by. S2 re-wrap "
    "completeness: every field the emitter of a NearSQL kind reads is forwarded by that kind's to_with_form, and "
    "the container rebuilt by to_with_form_stub forwards columns/force_sql/public names. S3 option "
    "non-interference: every read of sql_format_options.<option> sits in a layout-only context (indent operand "
    "at the start of a line, comment text after `--`, choice of comma layout, choice between WITH and nested "
    "form, warnings); sql_indent is asserted whitespace-only. Not decided: that WITH form and nested form are "
    "equivalent SQL (a property of SQL semantics)."
)

EMITTER_OF = {"NearSQLUnaryStep": "nearsqlunary_to_sql_str_list_", "NearSQLBinaryStep": "nearsqlbinary_to_sql_str_list_",
              "NearSQLRawQStep": "nearsqlrawq_to_sql_str_list_"}
CONTENT_FIELDS = {"terms", "suffix", "sub_sql", "sub_sql1", "sub_sql2", "prefix", "joiner"}


def _add_operands(e):
    if isinstance(e, ast.BinOp) and isinstance(e.op, ast.Add):
        return _add_operands(e.left) + _add_operands(e.right)
    return [e]


def parent_map(tree):
    pm = {}
    for n in ast.walk(tree):
        for ch in ast.iter_child_nodes(n):
            pm[id(ch)] = n
    return pm


# ---------------------------------------------------------------------------------------------- value kinds
def value_kinds(g: cfgmod.CFG, params):
    """forward dataflow: variable -> subset of {'str','none','other'} at node entry"""
    state_in = {g.entry: {p: frozenset({"other"}) for p in params}}
    out = {}
    work = [g.entry]

    def kind(e, st):
        if isinstance(e, ast.JoinedStr):
            return frozenset({"str"})
        if isinstance(e, ast.Constant):
            if e.value is None:
                return frozenset({"none"})
            if isinstance(e.value, str):
                return frozenset({"str"})
            return frozenset({"other"})
        if isinstance(e, ast.Name):
            return st.get(e.id, frozenset({"other"}))
        if isinstance(e, ast.Call) and dotted_name(e.func) == "str":
            return frozenset({"str"})
        if isinstance(e, ast.BinOp) and isinstance(e.op, ast.Add):
            a, b = kind(e.left, st), kind(e.right, st)
            if a == frozenset({"str"}) or b == frozenset({"str"}):
                return frozenset({"str"})
        return frozenset({"other", "none"})  # unknown expressions may be None

    n_iter = 0
    while work:
        n_iter += 1
        if n_iter > 20000:
            break
        nid = work.pop()
        node = g.nodes[nid]
        st = dict(state_in.get(nid, {}))
        s = node.stmt
        if node.kind == "stmt" and isinstance(s, ast.Assign) and len(s.targets) == 1 and isinstance(s.targets[0], ast.Name):
            st[s.targets[0].id] = kind(s.value, st)
        if out.get(nid) == st:
            continue
        out[nid] = st
        for (sx, _l) in node.succ:
            cur = state_in.get(sx)
            if cur is None:
                state_in[sx] = dict(st)
                work.append(sx)
            else:
                ch = False
                for k, v in st.items():
                    if k not in cur:
                        cur[k] = v
                        ch = True
                    elif not v <= cur[k]:
                        cur[k] = cur[k] | v
                        ch = True
                if ch:
                    work.append(sx)
    return state_in


# ---------------------------------------------------------------------------------------------- S1
def _s1a(program, res):
    """stores into content fields of existing NearSQL objects inside the SQL generator"""
    classes = [program.cls("sql_model", "SQLModel")] + program.subclasses(program.cls("sql_model", "SQLModel"))
    n_stores = 0
    for cls in classes:
        for m in cls.methods.values():
            if not (m.name.endswith("_to_near_sql") or m.name.startswith("_emit") or m.name.startswith("_natural_join")):
                continue
            g = cfgmod.build(m.node)
            # local variables that hold an existing NearSQL (result of to_near_sql_implementation_ / *_to_near_sql)
            existing: Set[str] = set()
            for n in g.stmt_nodes(("stmt",)):
                st = n.stmt
                if isinstance(st, ast.Assign) and isinstance(st.value, ast.Call) and isinstance(st.value.func, ast.Attribute) \
                        and (st.value.func.attr == "to_near_sql_implementation_" or st.value.func.attr.endswith("_to_near_sql")):
                    for t in st.targets:
                        if isinstance(t, ast.Name):
                            existing.add(t.id)
            d = depsmod.Deps(g, m.params(), named_locals=set(existing) | {"near_sql", "sql_left", "sql_right"})
            if not existing:
                continue
            res.analysed(m)
            redefs: Dict[str, List] = {}
            for n in g.stmt_nodes(("stmt",)):
                st = n.stmt
                targets = []
                val = None
                if isinstance(st, ast.Assign):
                    targets, val = st.targets, st.value
                elif isinstance(st, ast.Delete):
                    targets = st.targets
                for t in targets:
                    base = t
                    sub = False
                    if isinstance(base, ast.Subscript):
                        base, sub = base.value, True
                    if not (isinstance(base, ast.Attribute) and isinstance(base.value, ast.Name) and base.value.id in existing):
                        continue
                    obj, field = base.value.id, base.attr
                    if field not in CONTENT_FIELDS:
                        continue
                    n_stores += 1
                    if val is None:
                        res.ok("C04-S1", f"{m.qualname}: `{unparse(st)[:60]}` removes entries of {obj}.{field} (restriction)", nontrivial=False)
                        continue
                    # restriction: every value placed comes from the object's own field
                    own = _is_restriction(val, obj, field)
                    if not own and isinstance(val, ast.Name):
                        # a local built once by such a restriction
                        defs_ = [a for a in ast.walk(m.node) if isinstance(a, ast.Assign) and len(a.targets) == 1 and unparse(a.targets[0]) == val.id]
                        own = len(defs_) == 1 and _is_restriction(defs_[0].value, obj, field)
                    if own:
                        res.ok("C04-S1", f"{m.qualname}: `{unparse(t)} = ...` re-selects {obj}.{field}'s own entries (restriction; the key set is part of the container key)")
                    elif isinstance(val, (ast.List, ast.Dict)) and not (val.elts if isinstance(val, ast.List) else val.keys):
                        res.ok("C04-S1", f"{m.qualname}: `{unparse(st)[:60]}` empties {obj}.{field}", nontrivial=False)
                    else:
                        redefs.setdefault(obj, []).append((n, st, field))
            for obj, lst in redefs.items():
                # a store to obj.ops_key that post-dominates every redefinition and depends on the new terms
                key_stores = [n for n in g.stmt_nodes(("stmt",)) if isinstance(n.stmt, ast.Assign)
                              and any(unparse(t) == f"{obj}.ops_key" for t in n.stmt.targets)]
                for (n, st, field) in lst:
                    ok = False
                    for ks in key_stores:
                        # the update may sit under `if <obj>.ops_key is not None:` — a step without a key ("never share") has no key to go stale
                        own = [(b, lab) for (b, lab) in g.lexical_guards(ks) if (b, lab) not in g.lexical_guards(n)]
                        only_key_guard = bool(own) and all(lab is True and unparse(b.cond).replace(" ", "") in (f"{obj}.ops_keyisnotNone", f"({obj}.ops_keyisnotNone)") for b, lab in own)
                        guarded_follow = only_key_guard and all(g.postdominates(b.id, n.id) for b, _lab in own)
                        if g.postdominates(ks.id, n.id) or (g.dominates(n.id, ks.id) and _same_block(g, n, ks)) or guarded_follow:
                            roots = d.roots_at(ks, ks.stmt.value)
                            # the new key has to reflect the new content: the step's terms, or the step being merged in (not only the old key)
                            # (syntactically: the def-use roots of `<obj>.ops_key` already contain everything that was stored into <obj> before)
                            mentions = set()
                            for x in ast.walk(ks.stmt.value):
                                if isinstance(x, ast.Attribute) and isinstance(x.value, ast.Name) and x.value.id == obj:
                                    mentions.add(f"{obj}.{x.attr}")
                                elif isinstance(x, ast.Name) and x.id != obj and x.id not in ("list", "str", "set", "sorted", "tuple", "repr"):
                                    mentions.add(x.id)
                            if (mentions - {f"{obj}.ops_key"}) and (depsmod.has_root(roots, f"{obj}.terms") or depsmod.has_root(roots, obj)) \
                                    and _carries_content(ks.stmt.value, obj, m, set()):
                                ok = True
                    if ok:
                        res.ok("C04-S1", f"{m.qualname}: redefinition `{unparse(st)[:60]}` is followed by a matching {obj}.ops_key update")
                    else:
                        res.fail_at("C04-S1", m, f"stale-ops_key:{obj}.{field}",
                                    f"`{unparse(st)[:70]}` puts new content into the existing step `{obj}` but its ops_key (the CTE "
                                    f"cache key) is not recomputed from that content afterwards (column names and declared dependencies do not say which expressions): with use_cte_elim two different merged steps over "
                                    f"the same sub-pipeline would share one CTE", st)
    res.expect_count("C04-S1", "stores into existing NearSQL objects", n_stores, 4)


def _carries_content(expr, obj, m, seen) -> bool:
    """does the new key say *what* the step now computes?  The names of its columns (`<obj>.terms.keys()`) and book-keeping fields (declared
    dependencies) do not: two steps that assign the same columns from the same columns with different expressions share them.  Content is a content
    field of the step read whole or by value, or something derived from a parameter of the function (the node being merged in, its printed form)"""
    parents = {}
    for n in ast.walk(expr):
        for ch in ast.iter_child_nodes(n):
            parents[ch] = n
    comp_vars = {t.id for c in ast.walk(expr) if isinstance(c, (ast.ListComp, ast.SetComp, ast.DictComp, ast.GeneratorExp)) for g_ in c.generators
                 for t in ast.walk(g_.target) if isinstance(t, ast.Name)}
    params = set(m.params()) - {"self", "temp_id_source", "sql_format_options"}
    for n in ast.walk(expr):
        if isinstance(n, ast.Attribute) and isinstance(n.value, ast.Name) and n.value.id == obj and n.attr in CONTENT_FIELDS:
            p_ = parents.get(n)
            names_only = isinstance(p_, ast.Attribute) and p_.attr == "keys"
            if not names_only and not (isinstance(p_, ast.Call) and dotted_name(p_.func) in ("len",)):
                return True
        elif isinstance(n, ast.Name) and n.id != obj and n.id not in comp_vars and n.id not in ("list", "str", "set", "sorted", "tuple", "repr", "len", "dict"):
            if n.id in params:
                return True
            if n.id in seen:
                continue
            defs_ = [a.value for a in ast.walk(m.node) if isinstance(a, ast.Assign) and len(a.targets) == 1 and isinstance(a.targets[0], ast.Name) and a.targets[0].id == n.id]
            if defs_ and any(_carries_content(dv, obj, m, seen | {n.id}) for dv in defs_):
                return True
    return False


def _same_block(g, a, b):
    """b follows a within the same lexical guards"""
    return [x[0].id for x in g.lexical_guards(a)] == [x[0].id for x in g.lexical_guards(b)][: len(g.lexical_guards(a))]


def _is_restriction(val, obj, field):
    if isinstance(val, ast.DictComp):
        v = val.value
        return isinstance(v, ast.Subscript) and unparse(v.value) == f"{obj}.{field}"
    return False


def _s1b(program, res):
    stub = program.method("near_sql", "NearSQLContainer", "to_with_form_stub", inherited=False)
    res.analysed(stub)
    g = cfgmod.build(stub.node)
    d = depsmod.Deps(g, stub.params())
    kinds = value_kinds(g, stub.params())
    # cache accesses
    accesses = []
    for n in g.stmt_nodes(("stmt",)):
        for sub in ast.walk(n.stmt):
            if isinstance(sub, ast.Subscript) and unparse(sub.value) == "cte_cache":
                accesses.append((n, sub))
    if len(accesses) < 2:
        raise AnalysisError("to_with_form_stub: CTE cache lookup/store not found")
    # the container's columns enter the key in their order: a cached step is read positionally (`SELECT * FROM <cte>` as a UNION ALL operand)
    parents = {}
    for n_ in ast.walk(stub.node):
        for ch in ast.iter_child_nodes(n_):
            parents[ch] = n_
    for n_ in ast.walk(stub.node):
        if isinstance(n_, ast.Attribute) and unparse(n_) == "self.columns":
            p_ = parents.get(n_)
            if isinstance(p_, ast.Call) and dotted_name(p_.func) in ("sorted", "set", "frozenset") and any(
                    isinstance(a_, ast.Assign) and any(x is p_ for x in ast.walk(a_.value)) and "key" in unparse(a_.targets[0]) for a_ in ast.walk(stub.node)):
                res.fail_at("C04-S1", stub, "cache-key-column-order-lost",
                            f"the CTE cache key is built from `{unparse(p_)}`: the same step requested as (hi, lo) and as (lo, hi) shares one CTE, and a UNION ALL operand "
                            f"reads it as `SELECT * FROM <cte>` by position — with use_cte_elim the two columns are swapped in the second operand", p_)
    for (n, sub) in accesses:
        keyexpr = sub.slice
        roots = d.roots_at(n, keyexpr)
        what = "store" if isinstance(sub.ctx, ast.Store) else "lookup"
        miss = depsmod.missing_roots(roots, ["self.near_sql.ops_key", "self.columns"])
        if miss:
            res.fail_at("C04-S1", stub, f"cache-key-lacks:{','.join(miss)}:{what}",
                        f"the CTE cache {what} key `{unparse(keyexpr)}` does not depend on {miss}: steps that differ in it would share a CTE", sub)
        else:
            res.ok("C04-S1", f"CTE cache {what} key depends on the step's ops_key and the container's columns")
        # the None guard on the key must be able to fail
        if isinstance(keyexpr, ast.Name):
            guarded = False
            for (b, lab) in g.guards(n.id):
                for c in ast.walk(b.cond):
                    if isinstance(c, ast.Compare) and isinstance(c.left, ast.Name) and c.left.id == keyexpr.id \
                            and isinstance(c.ops[0], (ast.IsNot, ast.Is)) and isinstance(c.comparators[0], ast.Constant) and c.comparators[0].value is None:
                        guarded = True
                        k = kinds.get(b.id, {}).get(keyexpr.id, frozenset({"other"}))
                        if "none" in k:
                            res.ok("C04-S1", f"CTE cache {what}: `{keyexpr.id} is not None` can fail (a step without ops_key is never shared)")
                        else:
                            res.fail_at("C04-S1", stub, f"vacuous-none-guard:{what}",
                                        f"`{unparse(c)}` guards the CTE cache {what}, but every definition of `{keyexpr.id}` reaching it is "
                                        f"a string (kinds {sorted(k)}): steps whose ops_key is None are keyed by the text 'None' and two "
                                        f"different such steps with equal columns share one CTE", c)
            if not guarded:
                res.fail_at("C04-S1", stub, f"unguarded-cache-{what}", f"the CTE cache {what} is not guarded by a None test of its key", sub)
    # lookup and store use the same key variable
    keys = {unparse(sub.slice) for (_n, sub) in accesses}
    if len(keys) == 1:
        res.ok("C04-S1", "CTE cache lookup and store use the same key")
    else:
        res.fail_at("C04-S1", stub, "cache-key-mismatch", f"CTE cache is read and written with different keys {sorted(keys)}")


def _s1d(program, res):
    """a step's ops_key may be None ("no reliable identity: never share").  Wherever another step's key is turned into text (to build a
    parent's key, a cache key, …) that must happen under a test that the key is not None: otherwise the marker becomes the string
    'None' and two different such sub-steps give their parents the same key"""
    mods = [program.module(n) for n in ("sql_model", "near_sql", "view_representations", "SQLite", "PostgreSQL", "MySQL", "BigQuery", "SparkSQL", "db_model")
            if n in program.modules]
    n_sites = 0
    for f in program.all_functions():
        if f.module not in mods or f.parent is not None:
            continue
        # locals bound to some <x>.ops_key
        key_vars = {st.targets[0].id for st in ast.walk(f.node) if isinstance(st, ast.Assign) and len(st.targets) == 1 and isinstance(st.targets[0], ast.Name)
                    and isinstance(st.value, ast.Attribute) and st.value.attr == "ops_key"}
        parents = {}
        for n_ in ast.walk(f.node):
            for ch in ast.iter_child_nodes(n_):
                parents[id(ch)] = n_

        def textualised(node):
            """is this expression converted to text here?  (f-string value, str(), '+' with a string constant)"""
            p_ = parents.get(id(node))
            while p_ is not None and isinstance(p_, (ast.Attribute,)):
                p_ = parents.get(id(p_))
            if isinstance(p_, ast.FormattedValue):
                return p_
            if isinstance(p_, ast.Call) and dotted_name(p_.func) in ("str", "repr") and node in p_.args:
                return p_
            if isinstance(p_, ast.BinOp) and isinstance(p_.op, ast.Add) and any(isinstance(x, ast.Constant) and isinstance(x.value, str) for x in (p_.left, p_.right)):
                return p_
            return None

        def none_guarded(node, what_txt):
            x = node
            while id(x) in parents:
                p_ = parents[id(x)]
                if isinstance(p_, (ast.If, ast.IfExp)) and x is not p_.test and f"{what_txt} is not None" in unparse(p_.test) and (
                        (isinstance(p_, ast.If) and any(x is b or _contains(b, x) for b in p_.body)) or (isinstance(p_, ast.IfExp) and x is p_.body)):
                    return True
                if isinstance(p_, ast.comprehension) or isinstance(p_, (ast.ListComp, ast.GeneratorExp, ast.SetComp)):
                    comp = p_ if not isinstance(p_, ast.comprehension) else parents.get(id(p_))
                    gens = getattr(comp, "generators", [])
                    if any(f"{what_txt} is not None" in unparse(i) for g_ in gens for i in g_.ifs):
                        return True
                x = p_
            return False

        for node in ast.walk(f.node):
            is_attr = isinstance(node, ast.Attribute) and node.attr == "ops_key" and isinstance(node.ctx, ast.Load)
            is_var = isinstance(node, ast.Name) and node.id in key_vars and isinstance(node.ctx, ast.Load)
            if not (is_attr or is_var):
                continue
            tx = textualised(node)
            if tx is None:
                continue
            n_sites += 1
            what_txt = unparse(node)
            if none_guarded(node, what_txt):
                res.ok("C04-S1", f"{f.qualname}: `{what_txt}` is turned into text only under `{what_txt} is not None`")
            else:
                res.fail_at("C04-S1", f, f"missing-key-textualised:{what_txt}",
                            f"{f.qualname} turns `{what_txt}` into text (`{unparse(tx)[:60]}`) without testing it for None: a sub-step without a key "
                            f"(convert_records, SQL nodes: 'never share') contributes the text 'None', so two identical steps over two *different* such "
                            f"sub-steps get equal keys and CTE elimination reads the first one twice", tx)
    res.expect_count("C04-S1", "places where a step key is turned into text", n_sites, 1)


def _contains(root, x):
    return any(n_ is x for n_ in ast.walk(root))


def _s1c(program, res):
    f = program.method("sql_model", "SQLModel", "extend_to_near_sql", inherited=False)
    res.analysed(f)
    g = cfgmod.build(f.node)
    # the sub-step: the local bound to <source>.to_near_sql_implementation_(...)
    subs = [st.targets[0].id for st in ast.walk(f.node) if isinstance(st, ast.Assign) and len(st.targets) == 1 and isinstance(st.targets[0], ast.Name)
            and isinstance(st.value, ast.Call) and isinstance(st.value.func, ast.Attribute) and st.value.func.attr == "to_near_sql_implementation_"]
    if not subs:
        raise AnalysisError("extend_to_near_sql: the sub-step (… = <source>.to_near_sql_implementation_(…)) was not found")
    subsql = subs[0]
    d = depsmod.Deps(g, f.params(), named_locals={subsql})
    node_p = [p for p in f.params() if p != "self"][0]
    # store declared_term_dependencies[ci] = X in the loop over computed ops
    # the dependency dict, by role: the value handed to NearSQLUnaryStep(declared_term_dependencies=…)
    dtd = {unparse(kw.value) for c in ast.walk(f.node) if isinstance(c, ast.Call) for kw in c.keywords
           if kw.arg == "declared_term_dependencies" and isinstance(kw.value, ast.Name)} or {"declared_term_dependencies"}
    stores = [n for n in g.stmt_nodes(("stmt",)) if isinstance(n.stmt, ast.Assign) and isinstance(n.stmt.targets[0], ast.Subscript)
              and unparse(n.stmt.targets[0].value) in dtd]
    op_stores = [n for n in stores if any(isinstance(b.stmt, ast.For) and "subops" in unparse(b.cond) for b, _l in g.lexical_guards(n))]
    if not op_stores:
        raise AnalysisError("extend_to_near_sql: declared_term_dependencies store for computed terms not found")
    for n in op_stores:
        roots = d.roots_at(n, n.stmt.value)
        miss = depsmod.missing_roots(roots, [f"{node_p}.partition_by", f"{node_p}.order_by", "call:get_column_names"])
        if miss:
            res.fail_at("C04-S1", f, f"term-dependencies-lack:{','.join(miss)}",
                        f"the dependencies declared for a computed (windowed) term do not include {miss}; the extend-merge "
                        f"contention test reads them, so an extend ordered/partitioned by a column the previous extend rewrites "
                        f"would be merged into one SELECT and see the old value", n.stmt)
        else:
            res.ok("C04-S1", "declared dependencies of a windowed term include its own columns, partition_by and order_by")
    # the contention test reads the sub-step's terms through the keys of its declared dependencies; select / drop_columns trim the terms in
    # place without trimming the dependencies, so the lookup must tolerate a missing key
    for fn_ in [n_ for n_ in ast.walk(f.node) if isinstance(n_, ast.FunctionDef) and n_ is not f.node]:
        ps = [a.arg for a in fn_.args.kwonlyargs + fn_.args.args]
        if len(ps) != 2:
            continue
        for c in ast.walk(fn_):
            if isinstance(c, (ast.ListComp, ast.GeneratorExp)) and isinstance(c.generators[0].iter, ast.Call) and isinstance(c.generators[0].iter.func, ast.Attribute) \
                    and c.generators[0].iter.func.attr == "items" and isinstance(c.generators[0].iter.func.value, ast.Name) and c.generators[0].iter.func.value.id in ps:
                dep = c.generators[0].iter.func.value.id
                other = [p_ for p_ in ps if p_ != dep][0]
                hard = [x for x in ast.walk(c) if isinstance(x, ast.Subscript) and isinstance(x.value, ast.Name) and x.value.id == other and isinstance(x.ctx, ast.Load)]
                if hard:
                    res.fail_at("C04-S1", f, f"terms-indexed-by-dependency-keys:{fn_.name}",
                                f"{fn_.name} indexes `{other}` with every key of `{dep}` (`{unparse(hard[0])}`): after select_columns / drop_columns trimmed the "
                                f"sub-step's terms, extend(..., partition_by=['g']).drop_columns(['g']).extend(...) raises KeyError with allow_extend_merges and "
                                f"works without it", hard[0])
                else:
                    res.ok("C04-S1", f"{fn_.name} reads `{other}` with .get(): terms trimmed by select / drop_columns are tolerated")
    # merge guard depends on all contention sets
    merged_ret = None
    for r in g.returns():
        if isinstance(r.stmt.value, ast.Name) and r.stmt.value.id == subsql:
            merged_ret = r
    if merged_ret is None:
        raise AnalysisError("extend_to_near_sql: merged return (the mutated sub-step is returned) not found")
    roots = set()
    for (b, _l) in g.lexical_guards(merged_ret):
        roots |= d.cond_roots(b)
    required = ["self.allow_extend_merges", f"{subsql}.mergeable", f"{subsql}.suffix", f"{subsql}.declared_term_dependencies",
                f"{subsql}.terms", "call:expr_to_sql", f"{node_p}.ops", "call:get_column_names"]
    miss = depsmod.missing_roots(roots, required)
    if miss:
        res.fail_at("C04-S1", f, f"merge-guard-lacks:{','.join(miss)}",
                    f"the extend-merge branch is entered under a condition that does not depend on {miss}", merged_ret.stmt)
    else:
        res.ok("C04-S1", "extend-merge guard depends on both steps' terms and needs, the sub-step's suffix/mergeable flag and the dialect switch")
    # column order of the merged step: the un-merged step is built with terms=<this node's terms> (the emission order of a top-level step);
    # storing into the sub-step's dict keeps the *sub-step's* positions, so the merged path has to re-establish this node's order
    terms_name = next((unparse(kw.value) for c in ast.walk(f.node) if isinstance(c, ast.Call) and (dotted_name(c.func) or "").endswith("NearSQLUnaryStep")
                       for kw in c.keywords if kw.arg == "terms" and isinstance(kw.value, ast.Name)), None)
    if terms_name is None:
        raise AnalysisError("extend_to_near_sql: NearSQLUnaryStep(terms=<name>) of the un-merged path not found")
    branch = [b for (b, l) in g.lexical_guards(merged_ret) if l is True]
    inner = branch[-1].stmt if branch else f.node
    reorders = []
    for st in ast.walk(inner):
        if isinstance(st, ast.Assign) and len(st.targets) == 1 and unparse(st.targets[0]) == f"{subsql}.terms":
            try:
                rts = d.roots_at(g.containing_node(st), st.value)
            except Exception:
                rts = set()
            mentioned = {n_.id for n_ in ast.walk(st.value) if isinstance(n_, ast.Name)}
            if isinstance(st.value, ast.Name):
                # the new dict is a local filled in a loop: the loop's iteration order is what orders it
                for lp in ast.walk(inner):
                    if isinstance(lp, (ast.For, ast.ListComp, ast.DictComp)) and any(
                            isinstance(x, (ast.Subscript, ast.Name)) and unparse(x).split("[")[0] == st.value.id and isinstance(getattr(x, "ctx", None), ast.Store)
                            for x in ast.walk(lp)):
                        it = lp.iter if isinstance(lp, ast.For) else lp.generators[0].iter
                        # order is decided by what comes first in the iteration
                        first = it
                        while isinstance(first, ast.BinOp) and isinstance(first.op, ast.Add):
                            first = first.left
                        mentioned |= {n_.id for n_ in ast.walk(first) if isinstance(n_, ast.Name)}
            if any(r.split(".")[0] == terms_name for r in rts) or terms_name in mentioned:
                reorders.append(st)
    if reorders:
        res.ok("C04-S1", f"the merged step's terms are rebuilt in the order of this node's `{terms_name}` before it is returned")
    else:
        res.fail_at("C04-S1", f, "merged-step-keeps-sub-step-column-order",
                    f"the merged path stores this node's terms into `{subsql}.terms` key by key and returns it: a column the sub-step re-assigned keeps the sub-step's position, "
                    f"so a top-level merged extend lists its columns in another order than the un-merged one (descr(d).extend({{'k': 'u * 1'}}).extend({{'c': 'u.min()'}}, "
                    f"partition_by=['g']): g,k,u,c without merging, g,u,k,c with)", merged_ret.stmt)
    # three contention intersections: ours∩theirs, ours∩their needs, theirs∩our needs
    cont = [n for n in g.stmt_nodes(("stmt",)) if isinstance(n.stmt, ast.Assign) and unparse(n.stmt.targets[0]) == "contention"]
    if cont:
        inters = [c for c in ast.walk(cont[0].stmt.value) if isinstance(c, ast.Call) and isinstance(c.func, ast.Attribute) and c.func.attr == "intersection"]
        pairs = set()
        for c in inters:
            a = unparse(c.func.value).replace("set(", "").replace(")", "")
            b = unparse(c.args[0]) if c.args else ""
            pairs.add(frozenset((a, b)))
        want = {frozenset(("our_non_trivial_terms", "sub_non_trivial_terms")), frozenset(("our_non_trivial_terms", "sub_needs")),
                frozenset(("sub_non_trivial_terms", "our_needs"))}
        missing = want - pairs
        if missing:
            res.fail_at("C04-S1", f, "contention-incomplete",
                        f"the merge contention set lacks {[sorted(x) for x in missing]}: a dependency between the two extends goes unnoticed", cont[0].stmt)
        else:
            res.ok("C04-S1", "contention covers produced∩produced, ours∩their needs, theirs∩our needs")


# ---------------------------------------------------------------------------------------------- S2
def _s2(program, res):
    sqlm = program.cls("sql_model", "SQLModel")
    for cname, ename in EMITTER_OF.items():
        cls = program.cls("near_sql", cname)
        em = sqlm.methods.get(ename)
        twf = cls.methods.get("to_with_form")
        if em is None or twf is None:
            raise AnalysisError(f"anchor vanished: {ename} / {cname}.to_with_form")
        res.analysed(em, twf)
        p = [x for x in em.params() if x != "self"][0]
        reads = {n.attr for n in ast.walk(em.node) if isinstance(n, ast.Attribute) and isinstance(n.value, ast.Name) and n.value.id == p}
        init = cls.methods["__init__"]
        init_params = set(init.params()) - {"self"}
        reads &= init_params | {"sub_sql", "sub_sql1", "sub_sql2"}
        # fields the class's own to_sql_str_list passes along (e.g. add_select)
        tss = cls.methods.get("to_sql_str_list")
        if tss is not None:
            reads |= {n.attr for n in ast.walk(tss.node) if isinstance(n, ast.Attribute) and isinstance(n.value, ast.Name)
                      and n.value.id == "self" and n.attr in init_params}
        calls = [c for c in ast.walk(twf.node) if isinstance(c, ast.Call) and dotted_name(c.func) == cname]
        if not calls:
            raise AnalysisError(f"{cname}.to_with_form does not rebuild a {cname}")
        for c in calls:
            kws = {kw.arg: unparse(kw.value) for kw in c.keywords}
            for f in sorted(reads):
                if f in ("sub_sql", "sub_sql1", "sub_sql2"):
                    if f in kws and kws[f].startswith("stub"):
                        res.ok("C04-S2", f"{cname}.to_with_form: {f} replaced by its WITH stub")
                    else:
                        res.fail_at("C04-S2", twf, f"rewrap:{f}", f"{cname}.to_with_form passes {f}={kws.get(f)} instead of the stubbed sub-query", c)
                elif kws.get(f) == f"self.{f}":
                    res.ok("C04-S2", f"{cname}.to_with_form forwards {f}")
                else:
                    res.fail_at("C04-S2", twf, f"rewrap:{f}",
                                f"{cname}.to_with_form rebuilds the step with {f}={kws.get(f)}; the emitter {ename} reads {f}, so the "
                                f"WITH form of a query would differ from its nested form", c)
            if kws.get("ops_key") != "self.ops_key":
                res.fail_at("C04-S2", twf, "rewrap:ops_key", f"{cname}.to_with_form does not forward ops_key", c)
    # binary: left sequence before right, de-duplicated by name
    b = program.cls("near_sql", "NearSQLBinaryStep").methods["to_with_form"]
    g = cfgmod.build(b.node)
    loops = [n for n in g.stmt_nodes(("iter",))]
    order = [unparse(n.cond) for n in loops]
    # the two sequences, by role: (_, seq1) = self.sub_sql1.to_with_form_stub(...); (_, seq2) = self.sub_sql2.to_with_form_stub(...)
    from .. import pat
    s1 = [e["_Q"] for (_n, e) in pat.find("_S, _Q = self.sub_sql1.to_with_form_stub()", b.node)]
    s2 = [e["_Q"] for (_n, e) in pat.find("_S, _Q = self.sub_sql2.to_with_form_stub()", b.node)]
    if not s1 or not s2:
        raise AnalysisError("NearSQLBinaryStep.to_with_form: the two stub sequences were not found")
    if order[:2] == [s1[0], s2[0]]:
        res.ok("C04-S2", "NearSQLBinaryStep.to_with_form concatenates the left sequence, then the right one")
    else:
        res.fail_at("C04-S2", b, "sequence-order", f"sequences merged in order {order}")
    # container rebuilt by to_with_form_stub
    stub = program.method("near_sql", "NearSQLContainer", "to_with_form_stub", inherited=False)
    ret_vars = set()
    for r in ast.walk(stub.node):
        if isinstance(r, ast.Return) and isinstance(r.value, ast.Tuple) and isinstance(r.value.elts[0], ast.Name):
            ret_vars.add(r.value.elts[0].id)
    n_c = 0
    for st in ast.walk(stub.node):
        if isinstance(st, ast.Assign) and isinstance(st.targets[0], ast.Name) and st.targets[0].id in ret_vars \
                and isinstance(st.value, ast.Call) and dotted_name(st.value.func) == "NearSQLContainer":
            n_c += 1
            kws = {kw.arg: unparse(kw.value) for kw in st.value.keywords}
            for f in ("columns", "public_name", "public_name_quoted"):
                if kws.get(f) == f"self.{f}":
                    res.ok("C04-S2", f"to_with_form_stub: rebuilt container forwards {f}")
                else:
                    res.fail_at("C04-S2", stub, f"container:{f}", f"a rebuilt container gets {f}={kws.get(f)}: selected columns / join aliases "
                                f"would change between WITH and nested form", st)
            if kws.get("force_sql") not in ("self.force_sql", "True"):
                res.fail_at("C04-S2", stub, "container:force_sql", f"a rebuilt container gets force_sql={kws.get('force_sql')}", st)
    if n_c < 3:
        raise AnalysisError("to_with_form_stub: rebuilt containers not found")
    # every container built here stands for `self` (as the reference, or as the definition of the CTE): convert_subsql hands
    # `columns` to the emitter, where it fixes the select list *and its order* (a positional UNION ALL depends on it)
    n_all = 0
    for c in ast.walk(stub.node):
        if isinstance(c, ast.Call) and dotted_name(c.func) == "NearSQLContainer":
            n_all += 1
            kws = {kw.arg: unparse(kw.value) for kw in c.keywords}
            if kws.get("columns") == "self.columns":
                res.ok("C04-S2", f"to_with_form_stub: container over `{kws.get('near_sql')}` carries columns=self.columns")
            else:
                res.fail_at("C04-S2", stub, f"container-definition:columns:{kws.get('near_sql')}",
                            f"the container built over `{kws.get('near_sql')}` gets columns={kws.get('columns')}: the WITH definition would list the step's own "
                            f"terms in their own order instead of the requested columns, while the nested form keeps the requested order "
                            f"(a UNION ALL of two such references pairs columns by position)", c)
            if kws.get("force_sql") not in ("self.force_sql", "True"):
                res.fail_at("C04-S2", stub, f"container-definition:force_sql:{kws.get('near_sql')}", f"container over `{kws.get('near_sql')}` gets force_sql={kws.get('force_sql')}", c)
    if n_all < 4:
        raise AnalysisError("to_with_form_stub: container constructions not found")
    # own step appended after the recursive sequence
    seq_vars = {st.targets[0].id for st in ast.walk(stub.node) if isinstance(st, ast.Assign) and len(st.targets) == 1
                and isinstance(st.targets[0], ast.Name) and unparse(st.value).endswith(".previous_steps")}
    appended = any(isinstance(c, ast.Call) and isinstance(c.func, ast.Attribute) and c.func.attr == "append" and isinstance(c.func.value, ast.Name)
                   and c.func.value.id in seq_vars for c in ast.walk(stub.node))
    if seq_vars and appended:
        res.ok("C04-S2", "to_with_form_stub appends its own step after the sub-pipeline's sequence")
    else:
        res.fail_at("C04-S2", stub, "sequence-append", "own step is not appended after the recursive sequence")


# ---------------------------------------------------------------------------------------------- S3
LAYOUT_TEST_OPTIONS = {"use_with", "use_cte_elim", "warn_on_novel_methods", "warn_on_method_support", "initial_commas", "annotate"}


def _s3(program, res):
    n_reads = 0
    mods = ["sql_model", "near_sql", "SQLite", "PostgreSQL", "MySQL", "BigQuery", "SparkSQL", "PolarsSQL", "db_model"]
    for mn in mods:
        if mn not in program.modules:
            continue
        mod = program.modules[mn]
        pm = parent_map(mod.tree)
        funcs = {}
        for f in program.all_functions():
            if f.module is mod:
                for n in ast.walk(f.node):
                    funcs.setdefault(id(n), f)
        for n in ast.walk(mod.tree):
            if not (isinstance(n, ast.Attribute) and isinstance(n.value, ast.Name) and n.value.id == "sql_format_options" and isinstance(n.ctx, ast.Load)):
                continue
            opt = n.attr
            f = funcs.get(id(n))
            if f is None:
                continue
            n_reads += 1
            par = pm.get(id(n))
            where = f"{f.qualname}"
            if opt == "sql_indent":
                # must be a leading operand of a '+' chain (only other sql_indent reads before it), or lead an f-string
                top = n
                while isinstance(pm.get(id(top)), ast.BinOp) and isinstance(pm[id(top)].op, ast.Add):
                    top = pm[id(top)]
                ok = True
                if isinstance(top, ast.BinOp):
                    ops = _add_operands(top)
                    idx = [i for i, o in enumerate(ops) if o is n][0]
                    ok = all(unparse(o) == "sql_format_options.sql_indent" for o in ops[:idx])
                p = pm.get(id(n))
                if isinstance(p, ast.FormattedValue):
                    js = pm.get(id(p))
                    idx = js.values.index(p)
                    ok = all(isinstance(b, ast.FormattedValue) and unparse(b.value) == "sql_format_options.sql_indent" for b in js.values[:idx])
                if ok:
                    res.ok("C04-S3", f"{where}: sql_indent is a leading operand (whitespace before the text)", nontrivial=False)
                else:
                    res.fail_at("C04-S3", f, "indent-inside-text", f"sql_indent is concatenated inside SQL text (`{unparse(pm.get(id(n)))[:60]}`), not as leading whitespace", n)
                continue
            if opt not in LAYOUT_TEST_OPTIONS:
                res.fail_at("C04-S3", f, f"unknown-option:{opt}", f"option `{opt}` is read in the SQL generator; it is not in the layout-only table", n)
                continue
            # must sit in the test of an if
            top = n
            test_owner = None
            while id(top) in pm:
                p = pm[id(top)]
                if isinstance(p, ast.If) and p.test is top:
                    test_owner = p
                    break
                if isinstance(p, (ast.BoolOp, ast.UnaryOp, ast.Compare)):
                    top = p
                    continue
                break
            if test_owner is None:
                res.fail_at("C04-S3", f, f"option-value-used:{opt}", f"`{opt}` is used as a value (`{unparse(pm.get(id(n)))[:60]}`), not as a layout switch", n)
                continue
            body_txt = " ".join(unparse(b) for b in test_owner.body)
            if opt == "annotate":
                # everything assigned in the body must be comment text
                assigns = [s for b in test_owner.body for s in ast.walk(b) if isinstance(s, ast.Assign)]
                def _is_comment(v):
                    t = unparse(v)
                    if "--" in t or "_clean_annotation" in t or t.startswith("re.sub"):
                        return True
                    # a block comment: some constant opens it and a later constant closes it (what goes between is C14's business)
                    consts = [c.value for c in ast.walk(v) if isinstance(c, ast.Constant) and isinstance(c.value, str)]
                    return any("/*" in c for c in consts) and any("*/" in c for c in consts)
                bad = [s for s in assigns if not _is_comment(s.value)]
                if bad:
                    res.fail_at("C04-S3", f, "annotate-changes-sql", f"under `annotate`, `{unparse(bad[0])[:70]}` is not comment text", bad[0])
                else:
                    res.ok("C04-S3", f"{where}: annotate only adds `--` comment text")
            elif opt == "initial_commas":
                if f.name == "_indent_and_sep_terms":
                    res.ok("C04-S3", "initial_commas selects between the two comma layouts of _indent_and_sep_terms")
                else:
                    res.fail_at("C04-S3", f, "initial_commas-elsewhere", f"initial_commas is read in {where}", n)
            elif opt in ("use_with", "use_cte_elim"):
                if f.name == "to_sql":
                    res.ok("C04-S3", f"{opt} chooses between WITH form and nested form in to_sql")
                else:
                    res.fail_at("C04-S3", f, f"{opt}-elsewhere", f"{opt} is read in {where}", n)
            else:
                if "warnings.warn" in body_txt:
                    res.ok("C04-S3", f"{where}: {opt} only controls a warning", nontrivial=False)
                else:
                    res.fail_at("C04-S3", f, f"{opt}-not-warning", f"{opt} controls `{body_txt[:60]}`", n)
    res.expect_count("C04-S3", "option reads", n_reads, 12)  # 25 on the pinned tree; a refactor that moves the indentation into one helper leaves 19
    # sql_indent must be whitespace-only
    init = program.method("sql_format_options", "SQLFormatOptions", "__init__", inherited=False)
    ok = any(isinstance(a, ast.Assert) and "sql_indent" in unparse(a.test) and ("strip()" in unparse(a.test) or "isspace" in unparse(a.test))
             for a in ast.walk(init.node))
    if ok:
        res.ok("C04-S3", "SQLFormatOptions asserts that sql_indent is whitespace only")
    else:
        res.fail_at("C04-S3", init, "indent-not-whitespace", "SQLFormatOptions no longer asserts that sql_indent is whitespace-only")
    # _indent_and_sep_terms: both layouts list every term exactly once
    ist = program.method("sql_model", "SQLModel", "_indent_and_sep_terms", inherited=False)
    comps = [c for c in ast.walk(ist.node) if isinstance(c, ast.ListComp)]
    tparam = [p_ for p_ in ist.params() if p_ != "self"][0]
    lens = {t.id for a_ in ast.walk(ist.node) if isinstance(a_, ast.Assign) and unparse(a_.value) == f"len({tparam})" for t in a_.targets if isinstance(t, ast.Name)}

    def _walks_every_term(c):
        g0 = c.generators[0]
        if g0.ifs or len(c.generators) != 1 or not isinstance(g0.target, ast.Name):
            return False
        it = g0.iter
        full_range = isinstance(it, ast.Call) and dotted_name(it.func) == "range" and len(it.args) == 1 \
            and (unparse(it.args[0]) == f"len({tparam})" or (isinstance(it.args[0], ast.Name) and it.args[0].id in lens))
        return full_range and any(isinstance(x, ast.Subscript) and unparse(x.value) == tparam and unparse(x.slice) == g0.target.id for x in ast.walk(c.elt))

    good = [c for c in comps if _walks_every_term(c)]
    if len(good) == len(comps) == 2:
        res.ok("C04-S3", "both comma layouts emit terms[i] for every i in range(n)")
    else:
        res.fail_at("C04-S3", ist, "layout-drops-terms", "a comma layout of _indent_and_sep_terms does not emit every term exactly once")


def _s4_union_operands(program, res):
    """UNION operands are emitted bare (SQLite refuses parenthesised members of a compound select), so an operand that ends in ORDER BY /
    LIMIT hands these to the whole compound statement.  In WITH form the operand is a CTE name and keeps them: the emitter has to
    enclose a suffix-carrying operand in a sub-select (or the generator must never produce one)."""
    m = program.method("sql_model", "SQLModel", "nearsqlbinary_to_sql_str_list_", inherited=False)
    res.analysed(m)
    sub_calls = [c for c in ast.walk(m.node) if isinstance(c, ast.Call) and isinstance(c.func, ast.Attribute) and c.func.attr == "convert_subsql"]
    if len(sub_calls) < 2:
        raise AnalysisError("nearsqlbinary_to_sql_str_list_: the two convert_subsql calls were not found")
    # is the operand ever emitted without enclosure?  (annotation None on the union path)
    bare_possible = any(any(kw.arg == "quoted_query_name_annotation" and isinstance(kw.value, ast.IfExp) and
                            (isinstance(kw.value.orelse, ast.Constant) and kw.value.orelse.value is None or
                             isinstance(kw.value.body, ast.Constant) and kw.value.body.value is None) for kw in c.keywords) for c in sub_calls)
    if not bare_possible:
        res.ok("C04-S4", "every operand of a binary step is emitted as a named sub-select")
        return
    # looks at the operands' own suffix (directly or in a module-level / method helper it calls)
    def reads_operand_suffix(fnode, depth=0):
        for a in ast.walk(fnode):
            if isinstance(a, ast.Attribute) and a.attr == "suffix" and "sub_sql" in unparse(a.value) or \
                    isinstance(a, ast.Attribute) and a.attr == "suffix" and depth > 0:
                return True
            if isinstance(a, ast.Call) and isinstance(a.func, ast.Name) and a.func.id == "getattr" and len(a.args) >= 2 \
                    and isinstance(a.args[1], ast.Constant) and a.args[1].value == "suffix" and ("sub_sql" in unparse(a.args[0]) or depth > 0):
                return True
        if depth < 1:
            for c in ast.walk(fnode):
                if isinstance(c, ast.Call) and any("sub_sql" in unparse(x) for x in list(c.args) + [k.value for k in c.keywords]):
                    tgt = None
                    if isinstance(c.func, ast.Attribute) and unparse(c.func.value) == "self":
                        tgt = program.method("sql_model", "SQLModel", c.func.attr)
                    elif isinstance(c.func, ast.Name):
                        tgt = m.module.functions.get(c.func.id)
                    if tgt is not None and reads_operand_suffix(tgt.node, depth + 1):
                        return True
        return False

    # ... and the operand texts (the results of convert_subsql) are rebuilt from that reading
    operand_vars = [st.targets[0].id for st in ast.walk(m.node) if isinstance(st, ast.Assign) and len(st.targets) == 1 and isinstance(st.targets[0], ast.Name)
                    and any(c is st.value or c in ast.walk(st.value) for c in sub_calls)]
    nested = {f.name: f for f in ast.walk(m.node) if isinstance(f, ast.FunctionDef) and f is not m.node}

    def _suffix_dependent(v) -> bool:
        if reads_operand_suffix(v, depth=0) and not isinstance(v, ast.FunctionDef):
            return True
        for c in ast.walk(v):
            if isinstance(c, ast.Call) and isinstance(c.func, ast.Name) and c.func.id in nested and reads_operand_suffix(nested[c.func.id], depth=1):
                return True
        return False

    rebuilt = [ov for ov in operand_vars
               if any(isinstance(st, ast.Assign) and len(st.targets) == 1 and unparse(st.targets[0]) == ov and not any(c in ast.walk(st.value) for c in sub_calls)
                      and _suffix_dependent(st.value) for st in ast.walk(m.node))]
    # other sound shapes of the same repair: the enclosure is requested from convert_subsql by an argument that depends on the operand's
    # suffix, or the generator of the union step (concat_rows_to_near_sql) deals with the operands' suffix itself
    via_argument = all(any(reads_operand_suffix(kw.value) for kw in c.keywords) for c in sub_calls)
    gen = program.method("sql_model", "SQLModel", "concat_rows_to_near_sql", inherited=False)
    via_generator = any(isinstance(a, ast.Attribute) and a.attr == "suffix" for a in ast.walk(gen.node)) or \
        any(isinstance(a, ast.Constant) and a.value == "suffix" for a in ast.walk(gen.node))
    if (len(operand_vars) >= 2 and len(rebuilt) == len(operand_vars)) or via_argument or via_generator:
        res.ok("C04-S4", "a UNION operand that carries its own ORDER BY / LIMIT is enclosed before it is joined")
    else:
        res.fail_at("C04-S4", m, "union-operand-suffix-unenclosed",
                    "the operands of UNION ALL are emitted bare, whatever they end in: t.concat_rows(t.order_rows(['k'], limit=1)) with use_with=False "
                    "emits `SELECT k FROM d UNION ALL SELECT k FROM d ORDER BY k LIMIT 1`, where ORDER BY / LIMIT bind to the whole union (1 row instead of 4; "
                    "a syntax error when the left operand is the limited one), while use_with=True names the operand as a CTE and returns 4 rows", sub_calls[0])


def _s5_cte_names(program, res):
    """WITH form names every step; steps with equal names are assumed to be the same step (near_sql.py: "assume any name collisions are
    the same table/common_table_expression").  That holds only if every step name is unique per conversion: taken from the id source."""
    n = 0
    for f in program.all_functions():
        if f.module.name.split(".")[-1] == "near_sql":
            continue  # the re-wrapping of existing steps (names copied from the step being wrapped)
        calls = [c for c in ast.walk(f.node) if isinstance(c, ast.Call) and (dotted_name(c.func) or "").split(".")[-1].startswith("NearSQL")
                 and (dotted_name(c.func) or "").split(".")[-1] not in ("NearSQLTable", "NearSQLCommonTableExpression", "NearSQLContainer")
                 and any(kw.arg == "query_name" for kw in c.keywords)]
        if not calls:
            continue
        g = cfgmod.build(f.node)
        d = depsmod.Deps(g, f.params())
        res.analysed(f)
        for c in calls:
            n += 1
            e = [kw.value for kw in c.keywords if kw.arg == "query_name"][0]
            try:
                roots = d.roots_at(g.containing_node(c), e)
            except Exception:
                roots = {n_.id for n_ in ast.walk(e) if isinstance(n_, ast.Name)}
            if any(r.split(".")[0].split("[")[0] == "temp_id_source" for r in roots):
                res.ok("C04-S5", f"{f.qualname}: the step name is numbered from the conversion's id source")
            else:
                res.fail_at("C04-S5", f, f"step-name-not-from-id-source:{unparse(e)}",
                            f"{f.qualname} names its step `{unparse(e)}`, which is not numbered from temp_id_source: two different steps can carry the same name, and "
                            f"WITH form keeps only the first of equally named steps — SQLNode(sql=A, view_name='q').concat_rows(SQLNode(sql=B, view_name='q')) "
                            f"runs A twice under use_with=True and A, B under use_with=False", c)
    if n < 8:
        raise AnalysisError(f"C04-S5: only {n} NearSQL step constructions with query_name= found outside near_sql.py")


def clause_pushdown_rule(program, res, rule="C04-S1"):
    """Each converter wraps the step below it in a SELECT of its own; its clause (WHERE, ORDER BY, LIMIT: the `suffix`) is then evaluated on the rows the
    sub-step *returns*.  Writing the clause into the sub-step's own SELECT instead (`subsql.suffix = …`) evaluates it next to that step's terms: a WHERE runs
    before the window functions of the same SELECT, so `extend({'s': 'v.sum()'}, partition_by=['g']).select_rows('o > 1')` would sum over the filtered rows.
    Such a push-down is admissible only under a test that the sub-step has no windowed term"""
    sm = program.cls("sql_model", "SQLModel")
    n = 0
    for m in sm.methods.values():
        if not m.name.endswith("_to_near_sql"):
            continue
        n += 1
        subs = {t.id for st in ast.walk(m.node) if isinstance(st, ast.Assign) and isinstance(st.value, ast.Call) and isinstance(st.value.func, ast.Attribute)
                and st.value.func.attr == "to_near_sql_implementation_" for t in st.targets if isinstance(t, ast.Name)}
        writes = [st for st in ast.walk(m.node) if isinstance(st, (ast.Assign, ast.AugAssign))
                  for t in (st.targets if isinstance(st, ast.Assign) else [st.target])
                  if isinstance(t, ast.Attribute) and t.attr == "suffix" and isinstance(t.value, ast.Name) and t.value.id in subs]
        if not writes:
            res.ok(rule, f"{m.name}: the step's clause goes into a SELECT of its own, not into the sub-step", nontrivial=False)
            continue
        res.analysed(m)
        g = cfgmod.build(m.node)
        for w in writes:
            node = next((x for x in g.stmt_nodes(("stmt",)) if x.stmt is w), None)
            guards = [unparse(b.cond) for b, _l in g.lexical_guards(node)] if node is not None else []
            if any(k in t_ for t_ in guards for k in ("windowed", "OVER", "implies_windowed", "partition_by", "order_by")):
                res.ok(rule, f"{m.name}: a clause is written into the sub-step only under a test for windowed terms")
            else:
                res.fail_at(rule, m, f"clause-written-into-sub-step:{m.name}",
                            f"`{unparse(w)[:60]}` puts this step's clause into the SELECT of the step below, under tests that do not ask whether that SELECT has window "
                            f"functions: SQL evaluates WHERE before them, so a windowed extend followed by select_rows on pass-through columns aggregates over the filtered "
                            f"rows while Pandas (and the un-merged SQL) filter afterwards", w)
    res.expect_count(rule, "SQL step converters", n, 8)


def run(program, res, tier):
    res.rule("C04-S1", "CTE cache key coherent with step content; merge guard and declared dependencies complete")
    res.rule("C04-S2", "WITH re-wrap forwards every emitted field")
    res.rule("C04-S3", "format options reach only layout: whitespace, comments, comma layout, WITH-vs-nested")
    clause_pushdown_rule(program, res)
    _s1a(program, res)
    _s1b(program, res)
    _s1d(program, res)
    _s1c(program, res)
    _s2(program, res)
    _s3(program, res)
    res.rule("C04-S4", "a UNION operand's ORDER BY / LIMIT stays inside the operand in nested form as it does in WITH form")
    _s4_union_operands(program, res)
    res.rule("C04-S5", "every step named in WITH form takes its name from the conversion's id source (equal names mean equal steps)")
    _s5_cte_names(program, res)
    res.rule("C04-S6", "layout (indentation, line joining) is applied per SQL element, never by a rewrite that looks inside the assembled text (C14-S5): a literal holding a "
                       "line break would otherwise change with sql_indent and the nesting depth")
    from . import c14
    from ..report import Only
    c14.run(program, Only(res, {"C14-S5": "C04-S6"}), tier)
