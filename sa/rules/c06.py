"""C06 builder simplifications never change what a pipeline means — structural clauses."""
from __future__ import annotations

import ast
from typing import Dict, List, Optional, Set, Tuple

from .. import cfg as cfgmod
from .. import deps as depsmod
from ..index import AnalysisError, dotted_name, unparse
from ..nodes import NodeModel, bind_map, bind_problems

EXPLANATION = (
    "Static rules over the builder methods of ViewRepresentation and data_ops_utils.try_to_merge_ops. "
    "S1 (set-algebra entailment): try_to_merge_ops is abstractly interpreted over the atoms used(ops1), "
    "keys(ops1), used(ops2), keys(ops2); on every CFG path that returns a merged dict the disjointness facts "
    "collected from the not-taken `if len(A.intersection(B)) > 0: return None` guards must contain "
    "used(ops2) ∩ keys(ops1) = ∅ (necessary and sufficient for sequential = simultaneous assignment), and ops2 "
    "must be the last writer of the merged dict. S2: the merged ExtendNode is built only under a condition that "
    "depends on both nodes' partition_by, order_by, reverse and windowing. S3: every 'skip a trivial intermediate "
    "node' delegation forwards every parameter of the enclosing builder. S4: a builder return that bypasses self "
    "(collapse through select/drop) is dominated by a raising guard depending on the argument and self.column_names. "
    "S5: only OrderRowsNode is trivial-when-intermediate, exactly when limit is None. "
    "Not decided: value-level equality of chained vs stepwise evaluation."
)


# ---------------------------------------------------------------------------------------------- S1
class Sym:
    """symbolic set/dict terms of the merge function"""

    def __init__(self, kind, *args):
        self.kind = kind
        self.args = args

    def __eq__(self, o):
        return isinstance(o, Sym) and self.kind == o.kind and self.args == o.args

    def __hash__(self):
        return hash((self.kind, self.args))

    def __repr__(self):
        if self.kind == "dict":
            return self.args[0]
        if self.kind in ("used", "keys"):
            return f"{self.kind}({self.args[0]!r})"
        if self.kind == "inter":
            return f"({self.args[0]!r} ∩ {self.args[1]!r})"
        if self.kind == "restrict":
            return f"{self.args[0]!r}|{self.args[1]!r}"
        return f"{self.kind}{self.args}"


def _sym_expr(e: ast.AST, env: Dict[str, Sym]) -> Optional[Sym]:
    if isinstance(e, ast.Name):
        return env.get(e.id)
    if isinstance(e, ast.Call):
        dn = dotted_name(e.func) or ""
        # set(X) / list(X) / frozenset(X) wrappers
        if dn in ("set", "list", "frozenset", "sorted", "tuple") and len(e.args) == 1:
            return _sym_expr(e.args[0], env)
        if dn.endswith("get_columns_used") and len(e.args) == 1:
            d = _sym_expr(e.args[0], env)
            if d is not None and d.kind in ("dict", "restrict"):
                return Sym("used", d)
            return None
        if isinstance(e.func, ast.Attribute):
            if e.func.attr == "keys" and not e.args:
                d = _sym_expr(e.func.value, env)
                if d is not None and d.kind in ("dict", "restrict"):
                    return Sym("keys", d)
            if e.func.attr == "intersection" and len(e.args) == 1:
                a = _sym_expr(e.func.value, env)
                b = _sym_expr(e.args[0], env)
                if a is not None and b is not None:
                    return Sym("inter", a, b)
            if e.func.attr == "copy" and not e.args:
                return _sym_expr(e.func.value, env)
        return None
    if isinstance(e, ast.BinOp) and isinstance(e.op, ast.BitAnd):
        a = _sym_expr(e.left, env)
        b = _sym_expr(e.right, env)
        if a is not None and b is not None:
            return Sym("inter", a, b)
    if isinstance(e, (ast.ListComp, ast.SetComp)) and len(e.generators) == 1 and not e.generators[0].ifs:
        gen = e.generators[0]
        if isinstance(e.elt, ast.Name) and isinstance(gen.target, ast.Name) and e.elt.id == gen.target.id:
            return _sym_expr(gen.iter, env)
    if isinstance(e, ast.DictComp) and len(e.generators) == 1:
        gen = e.generators[0]
        # {k: D[k] for k in S}  (restriction of D to S)   /  {k: D[k] for k in D.keys() if k not in S}
        if isinstance(e.value, ast.Subscript) and isinstance(e.value.value, ast.Name):
            d = env.get(e.value.value.id)
            if d is not None and d.kind == "dict":
                s = _sym_expr(gen.iter, env)
                if not gen.ifs and s is not None:
                    return Sym("restrict", d, s)
                if gen.ifs:
                    return Sym("restrict", d, Sym("filtered", unparse(gen.ifs[0])))
    return None


def _disjoint_fact(cond: ast.AST, label, env) -> Optional[Sym]:
    """if the branch `cond` taken with `label` implies T = ∅ for an intersection T, return T"""
    e = cond
    neg = False
    while isinstance(e, ast.UnaryOp) and isinstance(e.op, ast.Not):
        neg = not neg
        e = e.operand
    t = None
    nonempty_when_true = None
    if isinstance(e, ast.Compare) and len(e.ops) == 1 and isinstance(e.left, ast.Call) and dotted_name(e.left.func) == "len" \
            and isinstance(e.comparators[0], ast.Constant):
        t = _sym_expr(e.left.args[0], env)
        c = e.comparators[0].value
        op = e.ops[0]
        if (isinstance(op, ast.Gt) and c == 0) or (isinstance(op, ast.GtE) and c == 1) or (isinstance(op, ast.NotEq) and c == 0):
            nonempty_when_true = True
        elif (isinstance(op, ast.Eq) and c == 0) or (isinstance(op, ast.Lt) and c == 1) or (isinstance(op, ast.LtE) and c == 0):
            nonempty_when_true = False
    elif isinstance(e, ast.Call) and dotted_name(e.func) == "len":
        t = _sym_expr(e.args[0], env)
        nonempty_when_true = True
    elif isinstance(e, ast.Call) and isinstance(e.func, ast.Attribute) and e.func.attr == "isdisjoint":
        a = _sym_expr(e.func.value, env)
        b = _sym_expr(e.args[0], env)
        if a is not None and b is not None:
            t = Sym("inter", a, b)
            nonempty_when_true = False
    else:
        t = _sym_expr(e, env)
        if t is not None:
            nonempty_when_true = True
    if t is None or t.kind != "inter" or nonempty_when_true is None:
        return None
    if neg:
        nonempty_when_true = not nonempty_when_true
    empty_on_label = (label is False) if nonempty_when_true else (label is True)
    return t if empty_on_label else None


def _s1(program, res):
    f = program.func("data_ops_utils", "try_to_merge_ops")
    res.analysed(f)
    params = f.params()
    if len(params) != 2:
        raise AnalysisError("try_to_merge_ops: expected two parameters")
    o1, o2 = params
    g = cfgmod.build(f.node)
    d = depsmod.Deps(g, params)
    want = {Sym("inter", Sym("used", Sym("dict", o2)), Sym("keys", Sym("dict", o1))),
            Sym("inter", Sym("keys", Sym("dict", o1)), Sym("used", Sym("dict", o2)))}
    n_paths = 0
    for path in g.paths(limit=5000):
        if len(path) < 2:
            continue
        last = g.nodes[path[-2][0]]
        if last.kind != "return":
            continue
        rv = last.stmt.value
        if rv is None or (isinstance(rv, ast.Constant) and rv.value is None):
            continue
        n_paths += 1
        env: Dict[str, Sym] = {o1: Sym("dict", o1), o2: Sym("dict", o2)}
        facts: Set[Sym] = set()
        updates: List[Tuple[ast.Call, object]] = []
        for (nid, label) in path[:-1]:
            n = g.nodes[nid]
            if n.kind == "stmt" and isinstance(n.stmt, ast.Assign) and len(n.stmt.targets) == 1 \
                    and isinstance(n.stmt.targets[0], ast.Name):
                s = _sym_expr(n.stmt.value, env)
                if s is not None:
                    env[n.stmt.targets[0].id] = s
                else:
                    env.pop(n.stmt.targets[0].id, None)
            elif n.kind == "test":
                t = _disjoint_fact(n.cond, label, env)
                if t is not None:
                    facts.add(t)
            if n.kind == "stmt" and isinstance(n.stmt, ast.Expr) and isinstance(n.stmt.value, ast.Call) \
                    and isinstance(n.stmt.value.func, ast.Attribute) and n.stmt.value.func.attr == "update":
                updates.append((n.stmt.value, n))
        conds = "; ".join(f"{unparse(g.nodes[nid].cond)}={label}" for (nid, label) in path[:-1] if g.nodes[nid].kind == "test")
        where = "common-keys branch" if any(
            g.nodes[nid].kind == "test" and label is True and "common" in unparse(g.nodes[nid].cond) for (nid, label) in path[:-1]
        ) else "disjoint-keys branch"
        if facts & want:
            res.ok("C06-S1", f"try_to_merge_ops {where}: merged return entails used({o2}) ∩ keys({o1}) = ∅",
                   {"facts": sorted(repr(x) for x in facts)})
        else:
            res.fail_at("C06-S1", f, f"merge-guard:{where}",
                        f"a path returns a merged dict without establishing used({o2}) ∩ keys({o1}) = ∅ "
                        f"(facts on the path: {sorted(repr(x) for x in facts)}); a second extend that reads a column "
                        f"the first one writes would be evaluated on the stale value", last.stmt,
                        facts={"path": conds})
        # the merged step must itself be a legal extend: nothing it keeps from the first step may read a column the second step assigns
        # (the builder rejects "columns both produced and used in same expression set", so the printed pipeline could not be read back)
        want2 = {Sym("inter", Sym("used", Sym("dict", o1)), Sym("keys", Sym("dict", o2))),
                 Sym("inter", Sym("keys", Sym("dict", o2)), Sym("used", Sym("dict", o1)))}
        if facts & want2:
            res.ok("C06-S1", f"try_to_merge_ops {where}: merged return entails used({o1}) ∩ keys({o2}) = ∅ (the merged step is a legal extend)")
        else:
            res.fail_at("C06-S1", f, f"merged-step-reads-what-it-assigns:{where}",
                        f"a path returns a merged dict without establishing used({o1}) ∩ keys({o2}) = ∅: "
                        f".extend({{'x': '1', 'w': 'b + 1'}}).extend({{'x': '2', 'b': '5'}}) becomes .extend({{'w': 'b + 1', 'x': '2', 'b': '5'}}), a step that "
                        f"reads and assigns `b` — the builder refuses exactly that when written by hand, so eval(repr(ops)) raises", last.stmt,
                        facts={"path": conds})
        # last writer is ops2
        if not isinstance(rv, ast.Name):
            raise AnalysisError("try_to_merge_ops: merged return value is not a local variable")
        ok_writer = False
        for (call, n) in updates:
            recv = call.func.value
            if isinstance(recv, ast.Name) and recv.id == rv.id and call.args:
                recv_roots = d.roots_at(n, recv)
                arg_roots = d.roots_at(n, call.args[0])
                if o2 in arg_roots and o1 not in arg_roots and o1 in recv_roots:
                    ok_writer = True
        if ok_writer:
            res.ok("C06-S1", f"try_to_merge_ops {where}: {o2} is the last writer of the merged dict")
        else:
            res.fail_at("C06-S1", f, f"last-writer:{where}",
                        f"the returned dict `{rv.id}` is not built as <from {o1}>.update(<from {o2}>): on common keys the "
                        f"earlier extend would win", last.stmt)
    if n_paths < 2:
        raise AnalysisError(f"try_to_merge_ops: only {n_paths} merged-return paths found (2 confirmed on the pinned tree)")


# ---------------------------------------------------------------------------------------------- S2
def _s2(program, model, res):
    ep = program.method("view_representations", "ViewRepresentation", "extend_parsed_", inherited=False)
    res.analysed(ep)
    g = cfgmod.build(ep.node)
    d = depsmod.Deps(g, ep.params())
    merged = None
    for r in g.returns():
        v = r.stmt.value
        if isinstance(v, ast.Call) and dotted_name(v.func) == "ExtendNode":
            kws = {kw.arg: kw.value for kw in v.keywords}
            src = kws.get("source")
            if src is not None and unparse(src) != "self":
                merged = r
    if merged is None:
        raise AnalysisError("extend_parsed_: merged ExtendNode construction not found")
    roots = set()
    for (b, label) in g.lexical_guards(merged):
        roots |= d.cond_roots(b)
    required = ["partition_by", "self.partition_by", "order_by", "self.order_by", "reverse", "self.reverse",
                "parsed_ops", "self.windowed_situation", "self.ops", "call:try_to_merge_ops", "call:implies_windowed"]
    miss = depsmod.missing_roots(roots, required)
    if miss:
        res.fail_at("C06-S2", ep, "merge-precondition",
                    f"the merged ExtendNode is built under a condition that does not depend on {miss}: extends with "
                    f"different windows would be merged", merged.stmt, facts={"guard_roots": sorted(roots)})
    else:
        res.ok("C06-S2", "merged ExtendNode guarded by partition/order/reverse/windowing of both nodes and try_to_merge_ops",
               {"required": required})
    _s2_order_sensitive(ep, g, d, merged, res)
    _s2_partition_symmetric(ep, g, d, merged, res)
    # "same windowing": what is compared with self.windowed_situation must be the windowed-ness the new step would have as a node of its
    # own, i.e. it depends on the new ops *and* on partition_by / order_by (partition_by=1 forces a window without any window function)
    for nd in g.stmt_nodes(("stmt", "test")):
        root = nd.cond if nd.kind == "test" else nd.stmt
        for c in ast.walk(root):
            if isinstance(c, ast.Compare) and len(c.ops) == 1 and isinstance(c.ops[0], ast.Eq) \
                    and any(unparse(x) == "self.windowed_situation" for x in [c.left] + list(c.comparators)):
                other_side = c.comparators[0] if unparse(c.left) == "self.windowed_situation" else c.left
                rts = d.roots_at(nd, other_side)
                miss2 = depsmod.missing_roots(rts, ["parsed_ops", "partition_by", "order_by"])
                if miss2:
                    res.fail_at("C06-S2", ep, f"windowing-of-new-step-ignores:{','.join(miss2)}",
                                f"`{unparse(c)[:80]}` judges the new step's windowing without {miss2}: extend({{'a': 'x + 1'}}).extend({{'n': '_size()'}}, partition_by=1) "
                                f"is merged into one windowed node, which is refused as 'too complex' or fails at evaluation, while the two steps work one at a time", c)
                else:
                    res.ok("C06-S2", "the new step's windowing is computed from its ops, partition_by and order_by before it is compared with the node's")
    # the merged node keeps the *new* call's window arguments and the old node's source
    v = merged.stmt.value
    kws = {kw.arg: unparse(kw.value) for kw in v.keywords}
    if kws.get("source") != "self.sources[0]":
        res.fail_at("C06-S2", ep, "merge-source", f"merged ExtendNode source is {kws.get('source')}, expected self.sources[0]", merged.stmt)
    else:
        res.ok("C06-S2", "merged ExtendNode is rooted at self.sources[0]")


ORDER_INSENSITIVE = {"set", "frozenset", "sorted", "len", "Counter", "OrderedSet"}


def partition_merge_rule(program, res):
    """the partition part of S2 alone (reused by C09: each row's value is computed over that row's own group)"""
    ep = program.method("view_representations", "ViewRepresentation", "extend_parsed_", inherited=False)
    res.analysed(ep)
    g = cfgmod.build(ep.node)
    d = depsmod.Deps(g, ep.params())
    merged = None
    for r in g.returns():
        v = r.stmt.value
        if isinstance(v, ast.Call) and dotted_name(v.func) == "ExtendNode":
            kws = {kw.arg: kw.value for kw in v.keywords}
            if kws.get("source") is not None and unparse(kws["source"]) != "self":
                merged = r
    if merged is None:
        raise AnalysisError("extend_parsed_: merged ExtendNode construction not found")
    _s2_partition_symmetric(ep, g, d, merged, res)


def _s2_partition_symmetric(ep, g, d, merged, res):
    """two extends may share a node only if they have the *same* partition: the comparison of partition_by with self.partition_by that guards the
    merge has to be an equality (or a difference taken both ways).  A containment test (one difference, <=, issubset) lets a coarser window be merged
    into a finer one, whose window functions are then computed over the wrong groups."""
    exprs = [b.cond for (b, _lab) in g.lexical_guards(merged)]
    names = {n.id for e in exprs for n in ast.walk(e) if isinstance(n, ast.Name)}
    changed = True
    taken = set()
    while changed:
        changed = False
        for n in g.stmt_nodes(("stmt",)):
            st = n.stmt
            if isinstance(st, ast.Assign) and len(st.targets) == 1 and isinstance(st.targets[0], ast.Name) \
                    and st.targets[0].id in names and id(st) not in taken and g.dominates(n.id, merged.id):
                taken.add(id(st))
                exprs.append(st.value)
                new = {x.id for x in ast.walk(st.value) if isinstance(x, ast.Name)}
                if not new <= names:
                    names |= new
                    changed = True

    def side(e):
        txt = unparse(e)
        has_self = "self.partition_by" in txt
        has_new = any(isinstance(x, ast.Name) and x.id == "partition_by" for x in ast.walk(e))
        return ("self" if has_self else "") + ("new" if has_new else "")

    equal = one_sided = None
    diffs = set()
    for e in exprs:
        for c in ast.walk(e):
            if isinstance(c, ast.Compare) and len(c.ops) == 1:
                l, r = side(c.left), side(c.comparators[0])
                if {l, r} == {"self", "new"}:
                    if isinstance(c.ops[0], ast.Eq):
                        equal = c
                    elif isinstance(c.ops[0], (ast.LtE, ast.Lt, ast.GtE, ast.Gt)):
                        one_sided = c
            if isinstance(c, ast.BinOp) and isinstance(c.op, ast.Sub):
                l, r = side(c.left), side(c.right)
                if {l, r} == {"self", "new"}:
                    diffs.add(l)
                    if one_sided is None:
                        one_sided = c
            if isinstance(c, ast.Call) and isinstance(c.func, ast.Attribute) and c.func.attr in ("issubset", "issuperset", "difference") and c.args:
                l, r = side(c.func.value), side(c.args[0])
                if {l, r} == {"self", "new"}:
                    if c.func.attr == "difference":
                        diffs.add(l)
                    one_sided = one_sided or c
    if equal is not None or diffs == {"self", "new"}:
        res.ok("C06-S2", "the merge compares the two partitions for equality")
    elif one_sided is not None:
        res.fail_at("C06-S2", ep, "merge-partition-containment",
                    f"the merge is guarded by `{unparse(one_sided)[:70]}`, a containment of one partition in the other: extend(…, partition_by=['g']) followed by "
                    f"extend(…, partition_by=1) becomes one node with the coarser partition, and the first step's per-group sums come out as grand totals on every executor", one_sided)
    else:
        res.fail_at("C06-S2", ep, "merge-partition-not-compared", "no comparison of partition_by with self.partition_by guards the merged ExtendNode", merged.stmt)


def _s2_order_sensitive(ep, g, d, merged, res):
    """order_by is a priority list: the merge condition must compare it as a sequence, on every accepting path.
    Expressions feeding the guards (conditions, the locals they name, local helper functions they call) are
    searched for (a) a direct == between order_by and self.order_by and (b) order-insensitive wrappers."""
    exprs = []
    for (b, _lab) in g.lexical_guards(merged):
        exprs.append(b.cond)
    names = {n.id for e in exprs for n in ast.walk(e) if isinstance(n, ast.Name)}
    for n in g.stmt_nodes(("stmt",)):
        st = n.stmt
        if isinstance(st, ast.Assign) and len(st.targets) == 1 and isinstance(st.targets[0], ast.Name) \
                and st.targets[0].id in names and g.dominates(n.id, merged.id):
            exprs.append(st.value)
    helpers = {f.name: f for f in ast.walk(ep.node) if isinstance(f, ast.FunctionDef) and f is not ep.node}
    direct = False
    insensitive = []
    opaque = []

    def is_ob(e, binding):
        dn = dotted_name(e)
        return dn in ("order_by", "self.order_by") or (dn in binding and binding[dn] in ("order_by", "self.order_by"))

    def scan(e, binding):
        nonlocal direct
        for sub in ast.walk(e):
            if isinstance(sub, ast.Compare) and len(sub.ops) == 1 and isinstance(sub.ops[0], ast.Eq):
                l, r = sub.left, sub.comparators[0]
                if is_ob(l, binding) and is_ob(r, binding):
                    direct = True
            if isinstance(sub, ast.Compare) and len(sub.ops) == 1 and isinstance(sub.ops[0], (ast.Eq, ast.NotEq)):
                # an order-insensitive wrapper matters only where the two order_by values are compared through it
                sides = [sub.left, sub.comparators[0]]
                wrapped = []
                for sd in sides:
                    for c_ in ast.walk(sd):
                        if isinstance(c_, ast.Call) and (dotted_name(c_.func) or "").split(".")[-1] in ORDER_INSENSITIVE and c_.args and is_ob(c_.args[0], binding):
                            wrapped.append(c_)
                if len(wrapped) >= 2 or (wrapped and any(is_ob(x, binding) for sd in sides for x in ast.walk(sd) if x not in [w.args[0] for w in wrapped] and isinstance(x, (ast.Name, ast.Attribute)) and not any(x is w.args[0] for w in wrapped))):
                    insensitive.extend(unparse(w) for w in wrapped)
            if isinstance(sub, ast.Call):
                fn = dotted_name(sub.func) or ""
                if fn.split(".")[-1] in ORDER_INSENSITIVE and sub.args and is_ob(sub.args[0], binding):
                    pass
                elif fn in helpers and any(is_ob(a, binding) for a in sub.args):
                    h = helpers[fn]
                    b2 = {}
                    for p, a in zip([x.arg for x in h.args.args], sub.args):
                        if is_ob(a, binding):
                            dn = dotted_name(a)
                            b2[p] = binding.get(dn, dn)
                    for st in ast.walk(h):
                        if isinstance(st, ast.Return) and st.value is not None:
                            scan(st.value, b2)
                        elif isinstance(st, (ast.If, ast.Assign)):
                            scan(st.test if isinstance(st, ast.If) else st.value, b2)
                elif any(is_ob(a, binding) for a in sub.args) and fn not in ("isinstance",):
                    opaque.append(unparse(sub))

    for e in exprs:
        scan(e, {})
    if insensitive:
        res.fail_at("C06-S2", ep, "order_by-compared-order-insensitively",
                    f"the merge condition compares order_by through {sorted(set(insensitive))}: order_by is a sort-priority "
                    f"list, two extends ordered by the same columns in a different priority would be merged under the second's order",
                    merged.stmt)
    elif direct:
        res.ok("C06-S2", "order_by compared as a sequence (==) in the merge condition")
    elif opaque:
        res.abstain("C06-S2", "order_by comparison", f"compared through {opaque}: cannot see whether order-sensitive")
    else:
        res.fail_at("C06-S2", ep, "order_by-not-compared", "the merge condition never compares order_by with self.order_by", merged.stmt)


# ---------------------------------------------------------------------------------------------- S3 / S4
def _arm_raises(g, b, label) -> bool:
    """does the arm of branch b with `label` end in a raise without rejoining?"""
    for (s, lab) in b.succ:
        if lab == label:
            reach = g.reachable_from(s, avoid={b.id})
            kinds = {g.nodes[x].kind for x in reach}
            exits = [x for x in reach if g.nodes[x].kind in ("return", "falloff")]
            return ("raise" in kinds or "assertfail" in kinds) and not exits
    return False


def _s3_s4(program, model, res, s3="C06-S3", s4="C06-S4"):
    base = model.base
    n_deleg = 0
    n_short = 0
    for m in base.methods.values():
        g = None
        for r_stmt in [n for n in ast.walk(m.node) if isinstance(n, ast.Return)]:
            v = r_stmt.value
            if not (isinstance(v, ast.Call) and isinstance(v.func, ast.Attribute)
                    and unparse(v.func.value) == "self.sources[0]"):
                continue
            callee = base.find_method(v.func.attr)
            if callee is None:
                continue
            if g is None:
                g = cfgmod.build(m.node)
                d = depsmod.Deps(g, m.params())
                res.analysed(m)
            if not g.has_node(r_stmt):
                continue
            node = g.node_of(r_stmt)
            guards = g.lexical_guards(node)
            trivial = any(lab is True and "is_trivial_when_intermediate_" in unparse(b.cond) for b, lab in guards)
            if trivial:
                n_deleg += 1
                if callee.name != m.name:
                    res.fail_at(s3, m, f"delegation-target:{callee.name}",
                                f"skipping a trivial intermediate node delegates {m.name} to a different builder {callee.name}", r_stmt)
                    continue
                if bind_problems(v, callee):
                    continue  # C07-S2 reports unbindable calls
                bm = bind_map(v, callee)
                arg_roots = set()
                for a in bm.values():
                    arg_roots |= d.roots_at(node, a)
                missing = [p for p in m.params() if p != "self" and p not in arg_roots]
                if missing:
                    res.fail_at(s3, m, f"delegation-drops:{','.join(missing)}",
                                f"{m.name} skips a trivial intermediate node with `{unparse(v)}` but does not forward "
                                f"parameter(s) {missing}: the simplified pipeline ignores an option the unsimplified one honours", r_stmt)
                else:
                    res.ok(s3, f"{m.name}: delegation past a trivial node forwards every parameter",
                           {"params": [p for p in m.params() if p != "self"]})
            else:
                # S4: shortcut that bypasses self for a non-trivial reason (collapse through select/drop)
                n_short += 1
                params = [p for p in m.params() if p != "self"]
                ok = False
                for (b, lab) in g.guards(node.id):
                    other = (not lab) if isinstance(lab, bool) else None
                    if other is None or not _arm_raises(g, b, other):
                        continue
                    roots = d.cond_roots(b)
                    if depsmod.has_root(roots, "self.column_names") and any(p in roots for p in params):
                        ok = True
                if ok:
                    res.ok(s4, f"{m.name}: collapse `{unparse(v)}` is dominated by a raising guard on the argument and self.column_names")
                else:
                    res.fail_at(s4, m, f"shortcut:{unparse(guards[-1][0].cond) if guards else 'unguarded'}",
                                f"`{unparse(v)}` bypasses self (and its constructor's validation) without a dominating check of "
                                f"the argument against self.column_names: the collapsed pipeline accepts steps the stepwise one rejects", r_stmt)
    # the same bypass written as a walk: `base = self; while …: base = base.sources[0]; … <Kind>Node(source=base, …)`.  The argument then has to be
    # checked against the node the step is added to (self), not against the node the walk ended on
    for m in base.methods.values():
        walked = {st.targets[0].id for st in ast.walk(m.node) if isinstance(st, ast.Assign) and len(st.targets) == 1 and isinstance(st.targets[0], ast.Name)
                  and isinstance(st.value, ast.Subscript) and isinstance(st.value.value, ast.Attribute) and st.value.value.attr == "sources"
                  and isinstance(st.value.value.value, ast.Name) and st.value.value.value.id == st.targets[0].id}
        if not walked:
            continue
        builds = [c for c in ast.walk(m.node) if isinstance(c, ast.Call) and (dotted_name(c.func) or "").endswith("Node")
                  and any(kw.arg in ("source", "a") and isinstance(kw.value, ast.Name) and kw.value.id in walked for kw in c.keywords)]
        if not builds:
            continue
        n_short += 1
        res.analysed(m)
        g = cfgmod.build(m.node)
        params = [p for p in m.params() if p != "self"]
        # raising guards of the method: which node's columns do they compare the argument with?
        against_self, against_walked = False, None
        for r in g.raises():
            for (b, lab) in g.lexical_guards(r):
                text = unparse(b.cond)
                for nm in {x.id for x in ast.walk(b.cond) if isinstance(x, ast.Name)}:
                    for a_ in ast.walk(m.node):
                        if isinstance(a_, ast.Assign) and any(isinstance(t_, ast.Name) and t_.id == nm for t_ in a_.targets):
                            text += " " + unparse(a_.value)
                if not any(p_ in text for p_ in params):
                    continue
                if "self.column_names" in text:
                    against_self = True
                for wn in walked:
                    if f"{wn}.column_names" in text:
                        against_walked = wn
        if against_self and against_walked is None:
            res.ok(s4, f"{m.name}: the walk past narrowing nodes happens after the argument was checked against self.column_names")
        else:
            res.fail_at(s4, m, f"shortcut-walk:{m.name}",
                        f"{m.name} walks down to `{sorted(walked)[0]}` (`{sorted(walked)[0]} = {sorted(walked)[0]}.sources[0]`) and builds the step on it; its argument check compares with "
                        f"`{against_walked or '?'}.column_names`, the node the walk ended on, not with self.column_names: d.drop_columns(['secret']).select_columns(['id', 'secret']) is "
                        f"accepted and returns the dropped column, while the step applied to the materialised result is refused (KeyError)", builds[0])
    # every `if self.is_trivial_when_intermediate_()` of the builder class must have been recognised as a delegation (a repair that removes
    # an elimination lowers both numbers; an unrecognised form of the skip must not pass silently)
    n_guards = sum(1 for m in base.methods.values() for n in ast.walk(m.node)
                   if isinstance(n, ast.If) and "is_trivial_when_intermediate_" in unparse(n.test))
    n_guards = sum(1 for m in base.methods.values() for n in ast.walk(m.node)
                   if isinstance(n, ast.If) and "is_trivial_when_intermediate_" in unparse(n.test))  # (a `while` over the same test is a walk, judged above)
    if n_deleg < n_guards:
        raise AnalysisError(f"{s3}: {n_guards} branches test is_trivial_when_intermediate_ but only {n_deleg} were recognised as delegations past the node")
    if n_guards == 0:
        res.ok(s3, "no builder skips intermediate nodes")
    res.expect_count(s4, "collapse shortcuts", n_short, 1)


# ---------------------------------------------------------------------------------------------- S5
_NOT_NONE = object()


def _eval_none_expr(e: ast.AST, limit_is_none, value=_NOT_NONE):
    """the truth of a condition over self.limit; `value` (None, 0, a positive count) is used where the expression asks for the limit's own truth value"""
    if value is _NOT_NONE:
        value = None if limit_is_none else 5
    if isinstance(e, ast.Constant):
        return bool(e.value)
    if isinstance(e, ast.Attribute) and unparse(e) == "self.limit":
        return bool(value)  # truthiness of the limit itself: None and 0 are both false
    if isinstance(e, ast.Call) and dotted_name(e.func) == "bool" and len(e.args) == 1:
        return _eval_none_expr(e.args[0], limit_is_none, value)
    if isinstance(e, ast.UnaryOp) and isinstance(e.op, ast.Not):
        return not _eval_none_expr(e.operand, limit_is_none, value)
    if isinstance(e, ast.BoolOp):
        vals = [_eval_none_expr(x, limit_is_none, value) for x in e.values]
        return all(vals) if isinstance(e.op, ast.And) else any(vals)
    if isinstance(e, ast.Compare) and len(e.ops) == 1 and unparse(e.left) == "self.limit" \
            and isinstance(e.comparators[0], ast.Constant) and e.comparators[0].value is None:
        if isinstance(e.ops[0], (ast.Is, ast.Eq)):
            return limit_is_none
        if isinstance(e.ops[0], (ast.IsNot, ast.NotEq)):
            return not limit_is_none
    raise AnalysisError(f"is_trivial_when_intermediate_: unrecognised expression `{unparse(e)}`")


def _s5(program, model, res):
    definers = [c for c in [model.base] + [k.cls for k in model.kinds.values()] if "is_trivial_when_intermediate_" in c.methods]
    names = sorted(c.name for c in definers)
    for c in definers:
        m = c.methods["is_trivial_when_intermediate_"]
        res.analysed(m)
        rets = [n for n in ast.walk(m.node) if isinstance(n, ast.Return)]
        if len(rets) != 1:
            raise AnalysisError(f"{c.name}.is_trivial_when_intermediate_: expected a single return")
        e = rets[0].value
        if c.name == "OrderRowsNode":
            t = _eval_none_expr(e, True)
            fz = _eval_none_expr(e, False)
            zero = _eval_none_expr(e, False, 0)
            if t is True and fz is False and zero is True:
                res.fail_at("C06-S5", m, "order-rows-trivial-at-limit-0",
                            f"returns `{unparse(e)}`, the truth value of the limit: limit=0 (legal: every executor returns no rows) counts as no limit, so order_rows(['x'], limit=0) "
                            f"followed by any step is dropped from the pipeline and all rows come back", rets[0])
            elif t is True and fz is False:
                res.ok("C06-S5", "OrderRowsNode is trivial when intermediate exactly when limit is None")
            else:
                res.fail_at("C06-S5", m, "order-rows-trivial",
                            f"returns `{unparse(e)}`: trivial={t} when limit is None, trivial={fz} when a limit is set "
                            f"(a limited order_rows must not be eliminated)", rets[0])
        elif c is model.base:
            if isinstance(e, ast.Constant) and e.value is False:
                res.ok("C06-S5", "default: nodes are not trivial when intermediate")
            else:
                res.fail_at("C06-S5", m, "default-trivial", f"base class returns `{unparse(e)}` instead of False", rets[0])
        else:
            res.fail_at("C06-S5", m, f"extra-trivial:{c.name}",
                        f"{c.name} declares itself removable from the interior of a chain (`{unparse(e)}`); only an "
                        f"un-limited order_rows is semantically removable", rets[0])
    if "OrderRowsNode" not in names or "ViewRepresentation" not in names:
        raise AnalysisError("anchor vanished: is_trivial_when_intermediate_ on ViewRepresentation/OrderRowsNode")
    # the one consumer that reads the incoming row order: order_rows with no order columns (a bare limit keeps "the first rows").
    # Skipping the preceding order_rows is only sound when the new step brings its own order columns.
    ob = model.base.methods.get("order_rows")
    if ob is None:
        raise AnalysisError("anchor vanished: ViewRepresentation.order_rows")
    res.analysed(ob)
    g = cfgmod.build(ob.node)
    d = depsmod.Deps(g, ob.params())
    dels = [r for r in g.returns() if isinstance(r.stmt.value, ast.Call) and isinstance(r.stmt.value.func, ast.Attribute)
            and r.stmt.value.func.attr == "order_rows" and unparse(r.stmt.value.func.value).startswith("self.sources[0]")]
    if not dels:
        raise AnalysisError("ViewRepresentation.order_rows: delegation past a trivial intermediate not found")
    for r in dels:
        roots = set()
        for (b, _l) in g.lexical_guards(r):
            roots |= d.cond_roots(b)
        if "columns" in roots:
            res.ok("C06-S5", "order_rows skips a preceding un-limited order_rows only under a condition on its own order columns")
        else:
            res.fail_at("C06-S5", ob, "bare-limit-skips-ordering",
                        f"`{unparse(r.stmt)[:70]}` removes the preceding order_rows whatever `columns` is: d.order_rows(['x']).order_rows([], limit=2) "
                        f"then takes the first two rows of the *unsorted* table, while applying the second step to the materialised result of the first "
                        f"keeps the two smallest x", r.stmt)


def order_elimination_sites(model):
    """(builder, return statement) for every `if self.is_trivial_when_intermediate_(): return self.sources[0].<builder>(...)`"""
    out = []
    for m in model.base.methods.values():
        skips = [r for r in ast.walk(m.node) if isinstance(r, ast.Return) and isinstance(r.value, ast.Call) and isinstance(r.value.func, ast.Attribute)
                 and unparse(r.value.func.value).startswith("self.sources[0]")]
        if not skips:
            continue
        g = cfgmod.build(m.node)
        for r in skips:
            if not g.has_node(r):
                continue
            guards = g.lexical_guards(g.node_of(r))
            if any(lab is True and "is_trivial_when_intermediate_" in unparse(b.cond) for b, lab in guards):
                out.append((m, r))
    return out


def _s8_merged_column_order(program, res):
    """the produced columns of an extend are declared in the order of its ops: two steps assign a, then b, then a again — the column a keeps the place
    the first step gave it.  The merged dictionary therefore has to keep the first step's key order (overwriting values in place) and append only
    the second step's new keys; filtering the re-assigned keys out of the first step and appending them moves them"""
    f = program.func("data_ops_utils", "try_to_merge_ops")
    res.analysed(f)
    p1 = f.params()[0]
    n = 0
    for st in ast.walk(f.node):
        if isinstance(st, ast.Assign) and len(st.targets) == 1 and isinstance(st.targets[0], ast.Name) and isinstance(st.value, ast.DictComp):
            gen = st.value.generators[0]
            if p1 in unparse(gen.iter):
                n += 1
                if gen.ifs:
                    res.fail_at("C06-S8", f, "merged-ops-move-reassigned-column",
                                f"`{unparse(st)[:90]}` drops the re-assigned keys from the first step's ops and the following update appends them: "
                                f"d.extend({{'x': 'a + 1', 'y': 'b'}}).extend({{'x': 'c'}}) declares and returns a, b, c, y, x — step at a time a, b, c, x, y", st)
                else:
                    res.ok("C06-S8", "merged extend: the first step's keys keep their order, re-assigned values are replaced in place")
    if n == 0:
        # no comprehension over the first step's ops: copies (`ops1.copy()`, dict(ops1)) followed by update keep the order by construction
        res.ok("C06-S8", "merged extend: built from a copy of the first step's ops", nontrivial=False)


def _s7_delegation_arguments(program, model, res):
    """a builder that skips a trivial intermediate node calls the same builder on the node below with its own arguments.  An argument that the
    builder has already handed to a converting call (which walks it) must not be handed on raw: a one-shot iterable (`on=zip(ka, kb)`, a generator
    of column names) is empty the second time, and the delegated step silently gets nothing"""
    n = 0
    for (m, r) in order_elimination_sites(model):
        g = cfgmod.build(m.node)
        rn = g.node_of(r)
        params = [p_ for p_ in m.params() if p_ != "self"]
        passed = {}
        for a_ in list(r.value.args) + [kw.value for kw in r.value.keywords]:
            if isinstance(a_, ast.Name) and a_.id in params:
                passed[a_.id] = a_
        for pname, node_ in passed.items():
            n += 1
            consumers = []
            for nd in g.stmt_nodes(("stmt", "test")):
                if nd.id == rn.id or not g.dominates(nd.id, rn.id):
                    continue
                root = nd.cond if nd.kind == "test" else nd.stmt
                for c in ast.walk(root):
                    if isinstance(c, ast.Call) and (dotted_name(c.func) or "") not in ("isinstance", "len", "type", "str", "repr", "id") \
                            and any(isinstance(x, ast.Name) and x.id == pname for x in list(c.args) + [kw.value for kw in c.keywords]):
                        consumers.append(c)
                    elif isinstance(c, (ast.ListComp, ast.SetComp, ast.GeneratorExp, ast.DictComp)) and any(isinstance(g_.iter, ast.Name) and g_.iter.id == pname for g_ in c.generators):
                        consumers.append(c)
                if isinstance(root, ast.For) and isinstance(root.iter, ast.Name) and root.iter.id == pname:
                    consumers.append(root)
            # re-binding the parameter to a materialised value (p = list(p), p = [..]) before the hand-over makes it re-usable
            rebound = any(isinstance(nd.stmt, ast.Assign) and any(isinstance(t, ast.Name) and t.id == pname for t in nd.stmt.targets)
                          and isinstance(nd.stmt.value, (ast.List, ast.ListComp, ast.Call))
                          and g.dominates(nd.id, rn.id) for nd in g.stmt_nodes(("stmt",)))
            # `len(p)` on every path before: p is a sized container, not a one-shot iterator (which has no len and is refused there)
            sized = any(g.dominates(nd.id, rn.id) and any(isinstance(c, ast.Call) and dotted_name(c.func) == "len" and c.args and isinstance(c.args[0], ast.Name) and c.args[0].id == pname
                                                            for c in ast.walk(nd.cond if nd.kind == "test" else nd.stmt))
                        for nd in g.stmt_nodes(("stmt", "test")) if nd.id != rn.id)
            if consumers and not rebound and not sized:
                res.fail_at("C06-S7", m, f"delegation-hands-on-consumed-argument:{m.name}:{pname}",
                            f"{m.name} hands its parameter `{pname}` to `{unparse(consumers[0])[:60]}` and then, when it skips a trivial intermediate node, hands the same object "
                            f"on to the node below: d.order_rows(['k']).natural_join(e, on=zip(['k'], ['k2'])) builds a join with on=[] (9 rows, every pair) while step at a "
                            f"time, or without the order_rows, the same argument gives the keyed join (3 rows)", node_)
            else:
                res.ok("C06-S7", f"{m.name}: `{pname}` reaches the delegated call unread (or re-bound to a materialised value)", nontrivial=False)
    res.expect_count("C06-S7", "raw parameters handed to a delegated builder call", n, 10)


def _s6(program, model, res):
    """order_rows elimination is decided by the *next* builder call; it is sound only where that next step makes the incoming
    row order unobservable.  Every builder that skips a trivial intermediate node is classified (facts.ORDER_ROLE_OF_BUILDERS)."""
    from .. import facts
    orn = program.cls("view_representations", "OrderRowsNode").methods.get("is_trivial_when_intermediate_")
    if orn is None:
        raise AnalysisError("anchor vanished: OrderRowsNode.is_trivial_when_intermediate_")
    rets = [n for n in ast.walk(orn.node) if isinstance(n, ast.Return)]
    if all(isinstance(r.value, ast.Constant) and r.value.value is False for r in rets):
        res.ok("C06-S6", "order_rows is never eliminated from the interior of a chain")
        return
    sites = order_elimination_sites(model)
    n = len(sites)
    for (m, r) in sites:
        role = facts.ORDER_ROLE_OF_BUILDERS.get(m.name)
        if role is None:
            res.fail_at("C06-S6", m, f"order-eliminated-before-unclassified-step:{m.name}",
                        f"{m.name} skips a preceding un-limited order_rows, and what {m.name} does with the incoming row order is not in the confirmed table", r)
        elif role[0] == "replaces":
            res.ok("C06-S6", f"{m.name} may drop a preceding order_rows: {role[1]}")
        else:
            res.fail_at("C06-S6", m, f"order-eliminated-before-step-that-{role[0]}-row-order:{m.name}",
                        f"{m.name} drops a preceding un-limited order_rows although its result {role[0]} the incoming row order ({role[1]}): "
                        f"d.order_rows(['x']).{m.name.replace('_parsed_', '')}(...).order_rows([], limit=2) returns the first rows of the *unsorted* table "
                        f"(and the ordering is also gone from a final result), while each step applied to the materialised result of the previous one keeps it. "
                        f"The builder that decides the elimination cannot know whether a later step still depends on the order", r)
    if n < 1:
        raise AnalysisError("C06-S6: OrderRowsNode can be trivial when intermediate, but no builder consulting is_trivial_when_intermediate_ was recognised")


def run(program, res, tier):
    res.rule("C06-S1", "merge guard entails used(ops2) ∩ keys(ops1) = ∅ on every merged return; ops2 is the last writer")
    res.rule("C06-S2", "merged ExtendNode only under equal partition/order/reverse/windowing")
    res.rule("C06-S3", "trivial-intermediate delegations forward every parameter")
    res.rule("C06-S4", "collapse shortcuts validate against self.column_names first")
    res.rule("C06-S5", "only un-limited order_rows is trivial when intermediate")
    res.assumptions.append("one extend evaluates all its expressions on the incoming table (simultaneous assignment) in all three back ends")
    model = NodeModel(program)
    _s1(program, res)
    _s2(program, model, res)
    _s3_s4(program, model, res)
    _s5(program, model, res)
    res.rule("C06-S6", "an un-limited order_rows is eliminated only before a step that makes the incoming row order unobservable")
    _s6(program, model, res)
    res.rule("C06-S8", "a merged extend declares its columns in the order the two steps produce them")
    _s8_merged_column_order(program, res)
    res.rule("C06-S7", "a builder that skips an intermediate node hands its arguments on unread")
    _s7_delegation_arguments(program, model, res)
