"""C07 composition equals sequential application — structural clauses (DESIGN.md section 6, C07)."""
from __future__ import annotations

import ast

from .. import callbind
from .. import cfg as cfgmod
from .. import deps as depsmod
from ..index import AnalysisError, dotted_name, unparse
from ..nodes import DERIVED, NodeModel, bind_map, bind_problems

EXPLANATION = (
    "Static rules over the resolved program (ast of /repo/data_algebra, no execution). "
    "S1: for each of the 13 operator node kinds, replace_leaves (the only mechanism behind >>, "
    "DataOpArrow composition and eval-with-pipelines) must read every semantic field of the node "
    "(fields assigned in __init__ and read by a Pandas/Polars/SQL evaluator, minus fields that are "
    "functions of other fields) and hand it to the builder parameter that feeds that same field. "
    "S1b: a derived field must not be the only place where a constructor argument survives. "
    "S2: every call in the package whose callee is certain binds to the callee's signature. "
    "S3: the >> / act_on wiring applies the right-hand operand to the left-hand one and checks the "
    "boundary columns in both directions before splicing. Value-level equality of composed and "
    "sequential results is not decided."
)


def simultaneous_substitution_rule(program, res, rule="C07-S3"):
    """composing with a map of pipelines puts every pipeline under the leaves it is named for *at once*: one replace_leaves(map).  Substituting one key
    after the other (`res = res.replace_leaves({key: p})` in a loop over the map) lets a later entry rewrite the leaves *inside* a pipeline that an
    earlier entry inserted — {'x': pipeline over y, 'y': pipeline over x} no longer equals running the map's pipelines first"""
    mod = program.module("view_representations")
    n_calls = 0
    for f in program.all_functions():
        if f.module is not mod:
            continue
        for c in ast.walk(f.node):
            if isinstance(c, ast.Call) and isinstance(c.func, ast.Attribute) and c.func.attr == "replace_leaves":
                n_calls += 1
        for loop in ast.walk(f.node):
            if not isinstance(loop, (ast.For, ast.While)):
                continue
            for st in ast.walk(loop):
                if isinstance(st, ast.Assign) and len(st.targets) == 1 and isinstance(st.targets[0], ast.Name) and isinstance(st.value, ast.Call) \
                        and isinstance(st.value.func, ast.Attribute) and st.value.func.attr == "replace_leaves" \
                        and isinstance(st.value.func.value, ast.Name) and st.value.func.value.id == st.targets[0].id:
                    res.analysed(f)
                    res.fail_at(rule, f, f"sequential-leaf-substitution:{f.name}",
                                f"`{unparse(st)[:70]}` inside a loop substitutes the entries of a map one after the other: a later key also rewrites the leaves of the pipelines "
                                f"already inserted, so composing with {{'x': <pipeline over y>, 'y': <pipeline over x>}} differs from running the map's pipelines first", st)
    res.ok(rule, f"no replace_leaves call accumulates over the entries of a map ({n_calls} calls looked at): leaves are substituted simultaneously", nontrivial=n_calls > 0)
    res.expect_count(rule, "replace_leaves call sites", n_calls, 10)


def run(program, res, tier):
    model = NodeModel(program)
    res.rule("C07-S1", "replace_leaves forwards every semantic field into the builder parameter that feeds it")
    res.rule("C07-S1b", "no constructor argument survives only in a derived field that replace_leaves does not forward")
    res.rule("C07-S2", "every resolved call binds to its callee's signature")
    res.rule("C07-S3", ">>/act_on wiring and boundary-column checks")
    simultaneous_substitution_rule(program, res)
    res.assumptions.append("derived-field table (sa/nodes.py DERIVED), re-confirmed against constructor dependencies each run")
    for (kn, f, why) in model.confirm_derived():
        res.fail("C07-S1", f"view_representations:{kn}.__init__", f"derived:{f}", why, "data_algebra/view_representations.py",
                 model.kinds[kn].init.line)
    n_inst = 0
    for k in model.kinds.values():
        rl = k.method("replace_leaves")
        if rl is None:
            raise AnalysisError(f"{k.name} has no replace_leaves")
        res.analysed(rl)
        reads = {n.attr for n in ast.walk(rl.node)
                 if isinstance(n, ast.Attribute) and isinstance(n.value, ast.Name) and n.value.id == "self"}
        core = k.core_fields()
        if k.name == "TableDescription":
            core = sorted(set(core) | {"column_names", "qualifiers"})
        if k.name == "SQLNode":
            core = sorted(set(core) | {"column_names"})
        for f in core:
            n_inst += 1
            if f not in reads:
                res.fail_at("C07-S1", rl, f"field:{f}",
                            f"{k.name}.replace_leaves never reads self.{f}: the composed pipeline loses it "
                            f"(semantic field: assigned in __init__, read by {sorted(b for b, r in k.evaluator_reads.items() if f in r)})")
            else:
                res.ok("C07-S1", f"{k.name}.replace_leaves reads {f}", {"evaluators": sorted(b for b, r in k.evaluator_reads.items() if f in r)})
        # slot check on the delegated builder call (leaf nodes rebuild through their own constructor)
        leaf = k.name in ("TableDescription", "SQLNode")
        if leaf:
            calls = [c for c in ast.walk(rl.node) if isinstance(c, ast.Call) and isinstance(c.func, ast.Name)
                     and c.func.id == k.name]
        else:
            if k.builder is None:
                raise AnalysisError(f"no builder method constructs {k.name}")
            calls = [c for c in ast.walk(rl.node) if isinstance(c, ast.Call) and isinstance(c.func, ast.Attribute)
                     and c.func.attr in (k.builder.name, k.builder.name.replace("_parsed_", ""))]
            calls = [c for c in calls if model.base.find_method(c.func.attr) is not None]
        if not calls:
            res.fail_at("C07-S1", rl, "builder-call", f"{k.name}.replace_leaves does not rebuild through a builder method")
            continue
        for call in calls:
            callee = k.init if leaf else model.base.find_method(call.func.attr)
            if bind_problems(call, callee):
                continue  # reported by S2
            bm = bind_map(call, callee)
            # feeds of the callee (may be the un-parsed builder: map through its own delegation)
            if leaf:
                # the copy of a leaf that is not replaced is the same leaf: every constructor parameter that is stored is handed over
                stored_params = sorted({pp for f, ps in k.init_fields.items() for pp in ps})
                for pp in stored_params:
                    if pp in bm:
                        res.ok("C07-S1", f"{k.name}.replace_leaves: the copy of an un-replaced leaf is given `{pp}`")
                    else:
                        res.fail_at("C07-S1", rl, f"leaf-copy-drops:{pp}",
                                    f"{k.name}.replace_leaves copies a leaf that is not replaced without its `{pp}`: after a >> b (or replace_leaves / eval with a "
                                    f"map) the other leaves of b have lost it — e.g. the stored example data (head, nrows), so b.ex() works and the composed pipeline's .ex() raises", call)
                feeds = {}
                for f, ps in k.init_fields.items():
                    for pp in ps:
                        feeds.setdefault(pp, set()).add(f)
            else:
                feeds = k.feeds if callee is k.builder else _feeds_through(model, k, callee)
            g = cfgmod.build(rl.node)
            d = depsmod.Deps(g, rl.params())
            node = g.containing_node(call)
            for param, argexpr in bm.items():
                roots = d.roots_at(node, argexpr)
                fields = {r.split(".")[1] for r in roots if r.startswith("self.") and r.count(".") >= 1}
                fields = {f for f in fields if f in k.init_fields}
                if not fields:
                    continue
                n_inst += 1
                lossy = _lossy_container(argexpr)
                if lossy is not None and any(f in core for f in fields):
                    res.fail_at("C07-S1", rl, f"lossy-handover:{param}",
                                f"self.{'/'.join(sorted(fields))} reaches parameter '{param}' of {callee.name} through `{unparse(lossy)[:60]}`, which cannot hold what the lists hold "
                                f"(a mapping keeps one entry per key, a set forgets order and repeats): a join on=[('k','k1'), ('k','k2')] is rebuilt by composition as "
                                f"on=[('k','k2')] and a >> b returns rows the sequential application does not", call)
                    continue
                fed = feeds.get(param, set())
                wrong = [f for f in fields if f not in fed and f in core]
                # a field may be passed together with others (on=[(a,b)...]); require each to be fed
                if wrong:
                    res.fail_at("C07-S1", rl, f"slot:{param}",
                                f"self.{'/'.join(sorted(wrong))} is handed to parameter '{param}' of {callee.name}, "
                                f"which feeds {sorted(fed)} — not that field", call)
                else:
                    res.ok("C07-S1", f"{k.name}.replace_leaves {param}<-{sorted(fields)}", {"feeds": sorted(fed)})
    res.expect_count("C07-S1", "field/slot instances", n_inst, 40)
    _s1c(program, model, res)
    _s1d_tuple_fields(program, model, res)
    _s1b(model, res)
    _s2(program, res)
    _s3(program, res)
    res.rule("C07-S4", "composition does not drop an ordering that a later step of b observes")
    _s4_trailing_order(program, model, res)


def _lossy_container(e):
    """a sub-expression that rebuilds parallel / ordered lists as a mapping or a set: dict(zip(…)), {a: b for a, b in zip(…)}, set(…), frozenset(…), {x for …}"""
    for n in ast.walk(e):
        if isinstance(n, ast.Call) and isinstance(n.func, ast.Name):
            if n.func.id in ("set", "frozenset") and n.args:
                return n
            if n.func.id == "dict" and n.args and isinstance(n.args[0], (ast.Call, ast.ListComp, ast.GeneratorExp)) \
                    and (not isinstance(n.args[0], ast.Call) or dotted_name(n.args[0].func) == "zip"):
                return n
        if isinstance(n, ast.SetComp):
            return n
        if isinstance(n, ast.DictComp) and any(isinstance(g_.iter, ast.Call) and dotted_name(g_.iter.func) == "zip" for g_ in n.generators):
            return n
    return None


def _feeds_through(model, k, callee):
    """feeds for a builder that delegates to the node's primary builder (extend -> extend_parsed_)"""
    out = {}
    for call in [c for c in ast.walk(callee.node) if isinstance(c, ast.Call) and isinstance(c.func, ast.Attribute)
                 and c.func.attr == k.builder.name]:
        bm = bind_map(call, k.builder)
        g = cfgmod.build(callee.node)
        d = depsmod.Deps(g, callee.params())
        node = g.containing_node(call)
        for p2, arg in bm.items():
            roots = d.roots_at(node, arg)
            for p1 in callee.params():
                if p1 in roots:
                    out.setdefault(p1, set()).update(k.feeds.get(p2, set()))
    return out


def _unconditional_source_replacement(program, fnode, module, sources_expr="self.sources", depth=0):
    """(ok, why, node): does fnode rebuild *every* source with replace_leaves(replacement_map), unconditionally?"""
    found = []
    for n in ast.walk(fnode):
        if isinstance(n, (ast.ListComp, ast.GeneratorExp)) and len(n.generators) == 1 and unparse(n.generators[0].iter) == sources_expr:
            gen = n.generators[0]
            calls = [c for c in ast.walk(n.elt) if isinstance(c, ast.Call) and isinstance(c.func, ast.Attribute) and c.func.attr == "replace_leaves"]
            if not calls:
                continue
            if gen.ifs:
                return False, f"sources are filtered by `{unparse(gen.ifs[0])[:60]}` before being rebuilt", n
            if isinstance(n.elt, ast.IfExp):
                names = {x.id for x in ast.walk(n.elt.test) if isinstance(x, ast.Name)}
                if isinstance(gen.target, ast.Name) and gen.target.id not in names:
                    found.append(n)  # the condition does not look at the source (e.g. an empty replacement map): every source is treated alike
                    continue
                return False, f"whether a source is rebuilt depends on the source itself: `{unparse(n.elt)[:90]}`", n
            if not (isinstance(n.elt, ast.Call) and n.elt is calls[0] and isinstance(n.elt.func.value, ast.Name)
                    and isinstance(gen.target, ast.Name) and n.elt.func.value.id == gen.target.id):
                return False, f"a source is rebuilt only conditionally: `{unparse(n.elt)[:90]}`", n
            found.append(n)
    if found:
        return True, "", found[0]
    # indexed form: self.sources[i].replace_leaves(...)
    idx = [c for c in ast.walk(fnode) if isinstance(c, ast.Call) and isinstance(c.func, ast.Attribute) and c.func.attr == "replace_leaves"
           and unparse(c.func.value).startswith(sources_expr + "[")]
    if idx:
        return True, "", idx[0]
    # helper taking the sources
    if depth < 2:
        for c in ast.walk(fnode):
            if isinstance(c, ast.Call) and any(unparse(a) == sources_expr for a in list(c.args) + [k.value for k in c.keywords]):
                callee = None
                if isinstance(c.func, ast.Name) and c.func.id in module.functions:
                    callee = module.functions[c.func.id].node
                if callee is None:
                    continue
                params = [a.arg for a in callee.args.args]
                pos = [i for i, a in enumerate(c.args) if unparse(a) == sources_expr]
                pname = params[pos[0]] if pos and pos[0] < len(params) else next((k.arg for k in c.keywords if unparse(k.value) == sources_expr), None)
                if pname is None:
                    continue
                ok, why, node = _unconditional_source_replacement(program, callee, module, sources_expr=pname, depth=depth + 1)
                return ok, (why + f" (in helper {callee.name})" if why else ""), node if ok else c
    return False, "no expression rebuilds the sources with replace_leaves", fnode


def _tuple_fields(cls_info) -> set:
    """fields of a class that hold a tuple on every path: assigned `self.f = n` where n was normalised by `n = tuple(...)`
    (unconditionally, or under `if not isinstance(n, tuple)`) earlier at the top level of the same function, or a tuple display"""
    out, not_tuple = set(), set()
    for m in cls_info.methods.values():
        top = list(m.node.body)
        for i, st in enumerate(top):
            if not (isinstance(st, ast.Assign) and len(st.targets) == 1 and isinstance(st.targets[0], ast.Attribute)
                    and isinstance(st.targets[0].value, ast.Name) and st.targets[0].value.id == "self"):
                continue
            f, v = st.targets[0].attr, st.value
            ok = isinstance(v, ast.Tuple) or (isinstance(v, ast.Call) and dotted_name(v.func) == "tuple")
            if isinstance(v, ast.Name):
                norm = False
                for prev in top[:i]:
                    if isinstance(prev, ast.Assign) and unparse(prev.targets[0]) == v.id:
                        norm = isinstance(prev.value, ast.Tuple) or (isinstance(prev.value, ast.Call) and dotted_name(prev.value.func) == "tuple")
                    elif isinstance(prev, ast.If):
                        assigns = [a for a in ast.walk(prev) if isinstance(a, ast.Assign) and unparse(a.targets[0]) == v.id]
                        if assigns:
                            tuple_valued = all(isinstance(a.value, ast.Tuple) or (isinstance(a.value, ast.Call) and dotted_name(a.value.func) == "tuple") for a in assigns)
                            guards = unparse(prev.test).replace(" ", "")
                            covers = f"notisinstance({v.id},tuple)" in guards or (f"{v.id}isNone" in guards and f"notisinstance({v.id},tuple)" in unparse(prev).replace(" ", ""))
                            norm = tuple_valued and covers
                ok = norm
            (out if ok else not_tuple).add(f)
    return out - not_tuple


def _s1d_tuple_fields(program, model, res):
    """a rebuild method may only use what a tuple offers on fields the constructors normalise to tuples"""
    base = program.cls("view_representations", "ViewRepresentation")
    base_t = _tuple_fields(base)
    if "column_names" not in base_t or "sources" not in base_t:
        raise AnalysisError(f"ViewRepresentation.__init__: column_names/sources are no longer recognised as normalised to tuples (found {sorted(base_t)})")
    tuple_api = set(dir(tuple))
    n = 0
    for k in model.kinds.values():
        tf = set(base_t)
        own = _tuple_fields(k.cls)
        # a subclass may re-assign the field with another type
        for m in k.cls.methods.values():
            for st in ast.walk(m.node):
                if isinstance(st, ast.Assign) and isinstance(st.targets[0], ast.Attribute) and unparse(st.targets[0].value) == "self" \
                        and st.targets[0].attr in tf and st.targets[0].attr not in own:
                    tf.discard(st.targets[0].attr)
        tf |= own
        for m in k.cls.methods.values():
            for a in ast.walk(m.node):
                if isinstance(a, ast.Attribute) and isinstance(a.value, ast.Attribute) and unparse(a.value.value) == "self" and a.value.attr in tf:
                    n += 1
                    if a.attr not in tuple_api:
                        res.fail_at("C07-S1", m, f"tuple-field-used-as-list:{a.value.attr}.{a.attr}",
                                    f"{k.name}.{m.name} calls self.{a.value.attr}.{a.attr}, but the constructors store {a.value.attr} as a tuple, which has no "
                                    f"`{a.attr}`: the method raises AttributeError whenever this line is reached (replace_leaves of a leaf that is not replaced: "
                                    f"every composition into a pipeline that keeps this leaf fails)", a)
    res.ok("C07-S1", f"{n} attribute uses of tuple-valued node fields stay within the tuple API")


def _s4_trailing_order(program, model, res):
    """a >> b rebuilds b's steps on top of a with the ordinary builders: where those drop a trailing order_rows of `a`
    before a step that keeps or reads the row order, the composed pipeline is not b applied to the result of a"""
    from .. import facts
    from . import c06
    orn = program.cls("view_representations", "OrderRowsNode").methods.get("is_trivial_when_intermediate_")
    if orn is None:
        raise AnalysisError("anchor vanished: OrderRowsNode.is_trivial_when_intermediate_")
    if all(isinstance(r.value, ast.Constant) and r.value.value is False for r in ast.walk(orn.node) if isinstance(r, ast.Return)):
        res.ok("C07-S4", "order_rows is never eliminated when b's steps are rebuilt on a")
        return
    bad = sorted(m.name for (m, _r) in c06.order_elimination_sites(model)
                 if facts.ORDER_ROLE_OF_BUILDERS.get(m.name, ("unclassified", ""))[0] != "replaces")
    if bad:
        res.fail("C07-S4", "view_representations:ViewRepresentation", "composition-drops-trailing-order_rows",
                 f"composition rebuilds b's first step with a builder that drops a's trailing un-limited order_rows ({', '.join(bad)}): "
                 f"with a = d.order_rows(['x']) and b = t.extend(...).order_rows([], limit=2) (or a project with first()), a >> b takes rows of the unsorted "
                 f"table while b applied to the result of a keeps the order", "data_algebra/view_representations.py", orn.node.lineno)
    else:
        res.ok("C07-S4", "every builder that drops a preceding order_rows makes the incoming row order unobservable")


def _s1c(program, model, res):
    n = 0
    for k in model.kinds.values():
        rl = k.cls.methods.get("replace_leaves")
        if rl is None or k.name in ("TableDescription", "SQLNode"):
            continue
        n += 1
        res.analysed(rl)
        ok, why, node = _unconditional_source_replacement(program, rl.node, rl.module)
        if ok:
            res.ok("C07-S1", f"{k.name}.replace_leaves rebuilds every source with replace_leaves(replacement_map), unconditionally")
        else:
            res.fail_at("C07-S1", rl, f"sources-not-all-replaced:{k.name}",
                        f"{k.name}.replace_leaves: {why}: a leaf (table or SQL view) below a skipped source keeps its old definition, so the composed pipeline "
                        f"is not `b` applied to the result of `a`", node)
    res.expect_count("C07-S1", "non-leaf replace_leaves methods", n, 11)


def _s1b(model, res):
    """In a constructor: an If body that overwrites a carrier parameter with a value independent of it while
    setting a derived field's local — the argument's information then lives only in the derived field."""
    for kn, rows in DERIVED.items():
        k = model.kinds[kn]
        init = k.init
        rl = k.method("replace_leaves")
        rl_reads = {n.attr for n in ast.walk(rl.node) if isinstance(n, ast.Attribute)
                    and isinstance(n.value, ast.Name) and n.value.id == "self"} if rl else set()
        params = set(init.params()) - {"self"}
        # locals that flow into derived fields
        derived_locals = {}
        for f in rows:
            for st in k.init_field_nodes.get(f, []):
                if isinstance(st.value, ast.Name):
                    derived_locals[st.value.id] = f
        for st in ast.walk(init.node):
            if not isinstance(st, ast.If):
                continue
            test_names = {n.id for n in ast.walk(st.test) if isinstance(n, ast.Name)} & params
            if not test_names:
                continue
            killed = set()
            set_derived = set()
            for b in st.body:
                if isinstance(b, ast.Assign) and len(b.targets) == 1 and isinstance(b.targets[0], ast.Name):
                    t = b.targets[0].id
                    used = {n.id for n in ast.walk(b.value) if isinstance(n, ast.Name)}
                    if t in test_names and t not in used:
                        killed.add(t)
                    if t in derived_locals and isinstance(b.value, ast.Constant):
                        set_derived.add(derived_locals[t])
            for p in killed:
                for f in set_derived:
                    if f in rl_reads:
                        res.ok("C07-S1b", f"{kn}: {p} information kept in {f}, forwarded by replace_leaves")
                    else:
                        res.fail_at("C07-S1b", init, f"lost:{p}->{f}",
                                    f"when `{unparse(st.test)}` holds, parameter {p} is replaced by a constant and only "
                                    f"the derived field {f} records it; replace_leaves does not forward {f}, so "
                                    f"composition cannot reproduce the node", st)
    res.ok("C07-S1b", "scan of constructors with derived fields", {"kinds": sorted(DERIVED)}, nontrivial=False)


def _s2(program, res):
    bad, n = callbind.unbindable(program)
    res.expect_count("C07-S2", "resolved call sites", n, 800)
    res.extra["call_sites_bound"] = n
    for (s, pr) in bad:
        callee = s.callees[0]
        res.fail_at("C07-S2", s.caller, f"call:{callee.qualname}",
                    f"call to {callee.where()} ({s.how}) does not bind: {'; '.join(pr)}", s.call)
    res.ok("C07-S2", f"{n - len(bad)} of {n} resolved call sites bind to their callee", {"sites": n})


def _calls(fnode, attr):
    return [c for c in ast.walk(fnode) if isinstance(c, ast.Call) and isinstance(c.func, ast.Attribute) and c.func.attr == attr]


def _s3(program, res):
    spa = program.cls("shift_pipe_action", "ShiftPipeAction")
    rs = spa.methods.get("__rshift__")
    rrs = spa.methods.get("__rrshift__")
    if rs is None or rrs is None:
        raise AnalysisError("anchor vanished: ShiftPipeAction.__rshift__/__rrshift__")
    res.analysed(rs, rrs)
    other = [p for p in rs.params() if p != "self"][0]
    # __rshift__: on the path where isinstance(b, ShiftPipeAction) holds, return b.act_on(self)
    g = cfgmod.build(rs.node)
    ok_primary = False
    ok_fallback = False
    for r in g.returns():
        v = r.stmt.value
        if isinstance(v, ast.Call) and isinstance(v.func, ast.Attribute) and v.func.attr == "act_on" and v.args:
            recv = dotted_name(v.func.value)
            arg = dotted_name(v.args[0])
            guards = g.lexical_guards(r)
            guarded_isinst = any(lab is True and "isinstance" in unparse(b.cond) and other in unparse(b.cond) for b, lab in guards)
            if recv == other and arg == "self" and guarded_isinst:
                ok_primary = True
            elif recv == "self" and arg == other and not guarded_isinst:
                ok_fallback = True
            else:
                res.fail_at("C07-S3", rs, "rshift-return", f"`self >> {other}` returns {unparse(v)}: receiver/argument roles are wrong", r.stmt)
    if ok_primary:
        res.ok("C07-S3", "__rshift__: b.act_on(self) when b is a ShiftPipeAction")
    else:
        res.fail_at("C07-S3", rs, "rshift-primary", "no path of __rshift__ returns b.act_on(self) under isinstance(b, ShiftPipeAction)")
    if ok_fallback:
        res.ok("C07-S3", "__rshift__: fallback self.act_on(b)")
    # __rrshift__: b >> self == self.act_on(b)
    other2 = [p for p in rrs.params() if p != "self"][0]
    good = False
    for r in cfgmod.build(rrs.node).returns():
        v = r.stmt.value
        if isinstance(v, ast.Call) and isinstance(v.func, ast.Attribute) and v.func.attr == "act_on" and v.args \
                and dotted_name(v.func.value) == "self" and dotted_name(v.args[0]) == other2:
            good = True
        else:
            res.fail_at("C07-S3", rrs, "rrshift-return", f"`{other2} >> self` returns {unparse(v)}, expected self.act_on({other2})", r.stmt)
    if good:
        res.ok("C07-S3", "__rrshift__: self.act_on(b)")
    # DataOpArrow.act_on: both-direction column check dominates replace_leaves; splice self.free_table_key <- b.pipeline
    doa = program.method("arrow", "DataOpArrow", "act_on", inherited=False)
    res.analysed(doa)
    g = cfgmod.build(doa.node)
    d = depsmod.Deps(g, doa.params())
    rl_calls = _calls(doa.node, "replace_leaves")
    if len(rl_calls) != 1:
        raise AnalysisError("DataOpArrow.act_on: expected exactly one replace_leaves call")
    rl = rl_calls[0]
    rl_node = g.containing_node(rl)
    bname = [p for p in doa.params() if p != "self"][0]
    directions = set()
    for r in g.raises():
        if not g.dominates(g.lexical_guards(r)[-1][0].id, rl_node.id) if g.lexical_guards(r) else True:
            continue
        guard = g.lexical_guards(r)[-1][0]
        # find the set difference feeding the guard
        for diff in _diffs_feeding(g, d, guard):
            lroots = d.roots(diff.left, d.state_in.get(diff._node.id, {}))
            rroots = d.roots(diff.right, d.state_in.get(diff._node.id, {}))
            if depsmod.has_root(lroots, "self.incoming_columns") and depsmod.has_root(rroots, f"{bname}.outgoing_columns"):
                directions.add("missing")
            if depsmod.has_root(rroots, "self.incoming_columns") and depsmod.has_root(lroots, f"{bname}.outgoing_columns"):
                directions.add("excess")
    for dirn in ("missing", "excess"):
        if dirn in directions:
            res.ok("C07-S3", f"DataOpArrow.act_on rejects {dirn} boundary columns before replace_leaves")
        else:
            res.fail_at("C07-S3", doa, f"boundary:{dirn}",
                        f"no raise guarded by the {dirn}-columns difference of self.incoming_columns and "
                        f"{bname}.outgoing_columns dominates the replace_leaves splice", rl)
    # splice map
    if rl.args and isinstance(rl.args[0], ast.Dict) and len(rl.args[0].keys) == 1:
        kx = dotted_name(rl.args[0].keys[0])
        vx = dotted_name(rl.args[0].values[0])
        if kx == "self.free_table_key" and vx == f"{bname}.pipeline" and dotted_name(rl.func.value) == "self.pipeline":
            res.ok("C07-S3", "DataOpArrow.act_on splices b.pipeline into self.pipeline at self.free_table_key")
        else:
            res.fail_at("C07-S3", doa, "splice", f"replace_leaves call `{unparse(rl)}` does not splice {bname}.pipeline into self.pipeline at self.free_table_key", rl)
    else:
        raise AnalysisError("DataOpArrow.act_on: replace_leaves argument is not a one-entry dict literal")
    # result arrow keeps b's free table
    for c in [c for c in ast.walk(doa.node) if isinstance(c, ast.Call) and dotted_name(c.func) == "DataOpArrow"]:
        kws = {kw.arg: dotted_name(kw.value) for kw in c.keywords}
        if "pipeline" in kws and "free_table_key" in kws:
            if kws["free_table_key"] == f"{bname}.free_table_key":
                res.ok("C07-S3", "composed arrow's free table is b's free table")
            else:
                res.fail_at("C07-S3", doa, "free-table", f"composed arrow uses free_table_key={kws['free_table_key']}, expected {bname}.free_table_key", c)
    # no fallback reverses a composition.  `d >> c` evaluates c.act_on(d) = "c after d".  If c.act_on cannot handle d's class and hands
    # the job back (`return b.act_on(self, …)`), the result is d.act_on(c) = "d after c": wrong whenever d's act_on *composes* with c's class
    fam = {"ViewRepresentation": program.method("view_representations", "ViewRepresentation", "act_on", inherited=False),
           "DataOpArrow": program.method("arrow", "DataOpArrow", "act_on", inherited=False),
           "RecordMap": program.method("cdata", "RecordMap", "act_on", inherited=False)}

    def handled_classes(m):
        """family classes with an isinstance(b, <class>) branch in m (outside the hand-back itself)"""
        other_p = [x for x in m.params() if x not in ("self", "correct_ordered_first_call")][0]
        out = set()
        for t in ast.walk(m.node):
            if isinstance(t, ast.Call) and dotted_name(t.func) == "isinstance" and len(t.args) == 2 and unparse(t.args[0]) == other_p:
                classes = t.args[1].elts if isinstance(t.args[1], ast.Tuple) else [t.args[1]]
                for c in classes:
                    nm = (dotted_name(c) or "").split(".")[-1]
                    if nm in fam:
                        out.add(nm)
        return other_p, out

    n_fb = 0
    for cname, m in fam.items():
        res.analysed(m)
        other_p, handled = handled_classes(m)
        fallbacks = [r for r in ast.walk(m.node) if isinstance(r, ast.Return) and isinstance(r.value, ast.Call) and isinstance(r.value.func, ast.Attribute)
                     and r.value.func.attr == "act_on" and unparse(r.value.func.value) == other_p and r.value.args and unparse(r.value.args[0]) == "self"]
        for fb in fallbacks:
            n_fb += 1
            for dname, dm in fam.items():
                if dname in handled or dname == cname:
                    continue
                if "RecordMap" in (dname, cname):
                    # C07 speaks about pipelines and arrows; what `record_map >> pipeline` should mean is outside it (observed: it returns
                    # pipeline.convert_records(record_map), the same as pipeline >> record_map — see DESIGN.md 10.4)
                    res.ok("C07-S3", f"{cname}.act_on hand-back for a {dname}: outside the property (record maps are not pipelines)", nontrivial=False)
                    continue
                _op, dhandled = handled_classes(dm)
                if cname in dhandled:
                    res.fail_at("C07-S3", m, f"fallback-reverses:{dname}>>{cname}",
                                f"`{dname.lower()} >> {cname.lower()}` reaches {cname}.act_on, which has no branch for a {dname} and hands the job back "
                                f"(`{unparse(fb.value)[:60]}`); {dname}.act_on composes *itself after* a {cname}, so the result is the {cname} followed by the "
                                f"{dname} — the reverse of what `>>` means (the left operand first)", fb)
                else:
                    res.ok("C07-S3", f"{cname}.act_on hand-back for a {dname}: {dname}.act_on has no composing branch for a {cname} (it fails instead of reversing)")
    res.expect_count("C07-S3", "act_on hand-backs inspected", n_fb, 3)
    # ViewRepresentation.act_on: equal column sets asserted before replace_leaves({key: b})
    vao = program.method("view_representations", "ViewRepresentation", "act_on", inherited=False)
    res.analysed(vao)
    g = cfgmod.build(vao.node)
    d = depsmod.Deps(g, vao.params())
    bname = [p for p in vao.params() if p != "self"][0]
    found = False
    for r in g.returns():
        v = r.stmt.value
        if isinstance(v, ast.Call) and isinstance(v.func, ast.Attribute) and v.func.attr == "replace_leaves" \
                and v.args and isinstance(v.args[0], ast.Dict):
            found = True
            guards = [b for b, lab in g.guards(r.id) if lab is True and isinstance(b.stmt, ast.Assert)]
            okg = False
            for b in guards:
                roots = d.cond_roots(b)
                if depsmod.has_root(roots, f"{bname}.column_names") and any(x.endswith(".column_names") and not x.startswith(bname + ".") for x in roots):
                    okg = True
            if okg:
                res.ok("C07-S3", "ViewRepresentation.act_on asserts equal column sets before splicing a pipeline")
            else:
                res.fail_at("C07-S3", vao, "column-guard",
                            f"replace_leaves({{key: {bname}}}) is not dominated by an assertion comparing {bname}.column_names with the replaced table's column_names", r.stmt)
            vals = [dotted_name(x) for x in v.args[0].values]
            if vals != [bname]:
                res.fail_at("C07-S3", vao, "splice", f"splices {vals} instead of {bname}", r.stmt)
    if not found:
        # the splice may have moved into a helper method of the class: follow one call
        vr_cls = program.cls("view_representations", "ViewRepresentation")
        for r in g.returns():
            v = r.stmt.value
            if isinstance(v, ast.Call) and isinstance(v.func, ast.Attribute) and unparse(v.func.value) == "self":
                h = vr_cls.find_method(v.func.attr)
                if h is not None and any(isinstance(c, ast.Call) and isinstance(c.func, ast.Attribute) and c.func.attr == "replace_leaves" for c in ast.walk(h.node)) \
                        and any(bname in {x.id for x in ast.walk(a_) if isinstance(x, ast.Name)} for a_ in list(v.args) + [k.value for k in v.keywords]):
                    found = True
                    res.analysed(h)
                    asserts = [a_ for a_ in ast.walk(h.node) if isinstance(a_, ast.Assert) and unparse(a_.test).count(".column_names") >= 2]
                    if asserts:
                        res.ok("C07-S3", f"ViewRepresentation.act_on splices through {h.name}, which asserts equal column sets")
                    else:
                        res.fail_at("C07-S3", vao, "column-guard", f"{h.name} (the splice of act_on) compares no column sets before replace_leaves", r.stmt)
                    break
    if not found:
        raise AnalysisError("ViewRepresentation.act_on: no replace_leaves({key: b}) return found")


def _diffs_feeding(g, d, guard):
    """BinOp Sub expressions whose value flows into the guard condition (through single-assignment locals)"""
    out = []
    names = {n.id for n in ast.walk(guard.cond) if isinstance(n, ast.Name)}
    for n in g.stmt_nodes(("stmt",)):
        st = n.stmt
        if isinstance(st, ast.Assign) and len(st.targets) == 1 and isinstance(st.targets[0], ast.Name) \
                and st.targets[0].id in names and g.dominates(n.id, guard.id):
            for sub in ast.walk(st.value):
                if isinstance(sub, ast.BinOp) and isinstance(sub.op, ast.Sub):
                    sub._node = n
                    out.append(sub)
    # keep only the closest dominating definition per variable
    best = {}
    for sub in out:
        best_key = None
        for n in g.stmt_nodes(("stmt",)):
            pass
        best.setdefault(id(sub), sub)
    # latest definitions: filter those re-defined later before guard
    final = []
    for sub in out:
        var = sub._node.stmt.targets[0].id
        later = [o for o in out if o._node.stmt.targets[0].id == var and o._node.id != sub._node.id
                 and g.dominates(sub._node.id, o._node.id)]
        if not later:
            final.append(sub)
    return final
