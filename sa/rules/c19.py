"""C19 evaluation never modifies the caller's tables and is repeatable — structural clauses."""
from __future__ import annotations

import ast
from typing import Dict, Optional

from .. import alias as aliasmod
from .. import cfg as cfgmod
from ..index import AnalysisError, dotted_name, unparse
from ..nodes import NodeModel

EXPLANATION = (
    "Ownership/alias dataflow (forward may-alias on the statement CFG; anything produced by a call, a "
    "comprehension or arithmetic is fresh; only definite aliases are followed). S1 caller-owned frames: in the "
    "table-source steps of both executors, in RecordMap.transform and in the user-facing entry points "
    "(ViewRepresentation.eval/transform/act_on/ex, DataOpArrow.act_on) no in-place effect (item/attribute store, "
    "deletion, .loc/.iloc store, inplace=True, drop_indices, list/dict mutators) reaches an alias of an input "
    "frame, and no executor step returns the caller's own frame. S2 node immutability: no executor step, SQL "
    "generator step or expression actor mutates the operator node it is handed — neither by storing an attribute "
    "on it (objects created in the same function by copy.copy / constructors are exempt) nor by an in-place "
    "operation (+=, append, extend, sort, update, item store …) on an alias of one of its list/dict fields; and "
    "no method of a node class other than __init__ stores into self. The second part is what makes evaluating "
    "the same pipeline object twice the same computation. Not decided: value-level repeatability (third-party "
    "determinism), dtype preservation."
)

INPLACE_HELPERS = {"drop_indices"}


def _node_source(param: str):
    def src(e: ast.AST):
        if isinstance(e, ast.Name) and e.id == param:
            return ("node", param)
        if isinstance(e, ast.Attribute) and isinstance(e.value, ast.Name) and e.value.id == param and isinstance(e.ctx, ast.Load):
            # methods are not fields
            return ("node", f"{param}.{e.attr}")
        return None
    return src


def _check_node_immutability(res, f, param: str, what: str):
    g = cfgmod.build(f.node)
    src = _node_source(param)

    def source_of(e):
        t = src(e)
        if t is None:
            return None
        # a bare attribute that is immediately called is a method, not a field value
        return t
    al = aliasmod.Alias(g, f.params(), source_of, inplace_helpers=INPLACE_HELPERS)
    bad = 0
    for ef in al.effects():
        # calling a method *on the node itself* (op.check_extend_window_fns_()) is not an effect; effects() only lists mutators
        tags = sorted(t[1] for t in ef.tags if t[0] == "node")
        if not tags:
            continue
        # attribute stores on the node parameter itself, or in-place ops on its fields
        bad += 1
        res.fail_at("C19-S2", f, f"mutates-node:{tags[0]}:{ef.what.split('`')[0].strip()}",
                    f"{what} {f.qualname}: {ef.what} acts on `{ef.var}`, an alias of {tags}: the operator node is changed by "
                    f"evaluating it, so a second evaluation of the same pipeline object computes something else", ef.stmt)
    if bad == 0:
        res.ok("C19-S2", f"{f.qualname}: no in-place effect reaches `{param}` or an alias of its fields")


def _s2(program, res):
    n = 0
    model = NodeModel(program)
    # executors
    for (mod, cname) in (("pandas_base", "PandasModelBase"), ("polars_model", "PolarsModel")):
        cls = program.cls(mod, cname)
        for m in cls.methods.values():
            ps = [p for p in m.params() if p != "self"]
            if m.name.endswith("_step") and ps and ps[0] == "op":
                res.analysed(m)
                n += 1
                _check_node_immutability(res, m, "op", "executor step")
    # SQL generator (all dialects)
    sqlm = program.cls("sql_model", "SQLModel")
    for cls in [sqlm] + program.subclasses(sqlm):
        for m in cls.methods.values():
            ps = [p for p in m.params() if p != "self"]
            if ps and (ps[0].endswith("_node") or ps[0] in ("table_def", "join_node")) and (m.name.endswith("_to_near_sql") or m.name.startswith("_emit") or m.name.startswith("_natural_join")):
                res.analysed(m)
                n += 1
                _check_node_immutability(res, m, ps[0], "SQL generator step")
    # to_near_sql_implementation_ of the node classes and other non-constructor methods: no store into self
    for k in model.kinds.values():
        for m in k.cls.methods.values():
            if m.name == "__init__":
                continue
            stores = [t for t in ast.walk(m.node) if isinstance(t, ast.Attribute) and isinstance(t.value, ast.Name) and t.value.id == "self"
                      and isinstance(t.ctx, (ast.Store, ast.Del))]
            n += 1
            if stores:
                res.fail_at("C19-S2", m, f"node-method-stores:{stores[0].attr}",
                            f"{k.name}.{m.name} stores into self.{stores[0].attr}: operator nodes must not change after construction", stores[0])
    base = model.base
    for m in base.methods.values():
        if m.name == "__init__":
            continue
        stores = [t for t in ast.walk(m.node) if isinstance(t, ast.Attribute) and isinstance(t.value, ast.Name) and t.value.id == "self"
                  and isinstance(t.ctx, (ast.Store, ast.Del))]
        n += 1
        if stores:
            res.fail_at("C19-S2", m, f"node-method-stores:{stores[0].attr}",
                        f"ViewRepresentation.{m.name} stores into self.{stores[0].attr}: evaluating or printing a pipeline must not change it", stores[0])
        else:
            res.analysed(m)
    res.ok("C19-S2", "no method of an operator node class other than __init__ stores into self")
    # expression actors: op parameter is an Expression
    for (mod, cname) in (("pandas_base", "PandasModelBase"), ("polars_model", "PolarsExpressionActor")):
        cls = program.cls(mod, cname)
        m = cls.methods.get("act_on_expression")
        if m is not None:
            res.analysed(m)
            n += 1
            _check_node_immutability(res, m, "op", "expression actor")
    # Expression.act_on and friends: no store into self
    for cname in ("Expression", "Value", "ColumnReference", "ListTerm", "DictTerm"):
        cls = program.cls("expr_rep", cname)
        for m in cls.methods.values():
            if m.name == "__init__":
                continue
            stores = [t for t in ast.walk(m.node) if isinstance(t, ast.Attribute) and isinstance(t.value, ast.Name) and t.value.id == "self"
                      and isinstance(t.ctx, (ast.Store, ast.Del))]
            if stores:
                res.fail_at("C19-S2", m, f"term-method-stores:{stores[0].attr}", f"{cname}.{m.name} stores into self.{stores[0].attr}", stores[0])
    res.expect_count("C19-S2", "functions handed an operator node", n, 60)


def _s1(program, res):
    # ---- table-source steps
    for (mod, cname) in (("pandas_base", "PandasModelBase"), ("polars_model", "PolarsModel")):
        m = program.method(mod, cname, "_table_step", inherited=False)
        res.analysed(m)
        g = cfgmod.build(m.node)

        def source_of(e):
            if isinstance(e, ast.Subscript) and isinstance(e.value, ast.Name) and e.value.id == "data_map":
                return ("owned", unparse(e))
            if isinstance(e, ast.Attribute) and unparse(e) == "op.head":
                return ("owned", "op.head")
            return None
        al = aliasmod.Alias(g, m.params(), source_of, inplace_helpers=INPLACE_HELPERS)
        effs = [e for e in al.effects() if any(t[0] == "owned" for t in e.tags)]
        for e in effs:
            res.fail_at("C19-S1", m, f"input-mutated:{e.what.split('`')[0].strip()}",
                        f"{cname}._table_step: {e.what} acts on `{e.var}`, an alias of the caller's frame {sorted(t[1] for t in e.tags)}", e.stmt)
        rets = al.returned_aliases()
        for (r, tg) in rets:
            res.fail_at("C19-S1", m, "returns-input",
                        f"{cname}._table_step returns `{unparse(r.stmt.value)}`, an alias of the caller's frame {sorted(t[1] for t in tg)}: "
                        f"later steps write temporary columns into their working frame", r.stmt)
        if not effs and not rets:
            res.ok("C19-S1", f"{cname}._table_step: the caller's frame is only read; a fresh frame is returned")
        # pandas: the returned frame passes through an index-free copy
        if cname == "PandasModelBase":
            rl = [r for r in g.returns()]
            txt = unparse(m.node)
            if "clean_copy(" in txt or ".copy(" in txt:
                res.ok("C19-S1", "Pandas _table_step copies the selected columns (clean_copy)")
            else:
                res.fail_at("C19-S1", m, "no-copy", "Pandas _table_step no longer copies the caller's frame")
    # ---- RecordMap.transform and the user-facing entry points
    entry = [("cdata", "RecordMap", "transform", ["X"]), ("view_representations", "ViewRepresentation", "transform", ["X"]),
             ("view_representations", "ViewRepresentation", "eval", ["data_map"]), ("view_representations", "ViewRepresentation", "act_on", ["b"]),
             ("view_representations", "ViewRepresentation", "check_constraints", ["data_map"]), ("arrow", "DataOpArrow", "act_on", ["b"]),
             ("data_model", "DataModel", "eval", ["data_map"])]
    for (mod, cname, mname, owned) in entry:
        m = program.method(mod, cname, mname, inherited=False)
        res.analysed(m)
        g = cfgmod.build(m.node)
        al = aliasmod.Alias(g, m.params(), lambda e: None, inplace_helpers=INPLACE_HELPERS,
                            param_tags={p: ("owned", p) for p in owned if p in m.params()})
        effs = [e for e in al.effects() if any(t[0] == "owned" for t in e.tags)]
        if effs:
            for e in effs:
                res.fail_at("C19-S1", m, f"input-mutated:{e.var}", f"{cname}.{mname}: {e.what} acts on the caller's `{e.var}`", e.stmt)
        else:
            res.ok("C19-S1", f"{cname}.{mname}: no in-place effect on {owned}")
    # pandas executor helpers that write in place must only ever be handed step-owned frames: drop_indices callers
    pb = program.cls("pandas_base", "PandasModelBase")
    di = pb.methods.get("drop_indices")
    if di is None:
        raise AnalysisError("anchor vanished: PandasModelBase.drop_indices")
    if "inplace=True" in unparse(di.node):
        res.ok("C19-S1", "drop_indices is the in-place index reset (tracked as an in-place helper)", nontrivial=False)
    # clean_copy must not be in place
    cc = pb.methods.get("clean_copy")
    if cc is None:
        raise AnalysisError("anchor vanished: PandasModelBase.clean_copy")
    t = unparse(cc.node)
    if "inplace=True" in t:
        res.fail_at("C19-S1", cc, "clean_copy-inplace", "clean_copy resets the index in place: it is used on caller-owned frames")
    elif "reset_index(" in t or ".copy(" in t:
        res.ok("C19-S1", "clean_copy returns a new frame (reset_index(inplace=False))")
    else:
        res.fail_at("C19-S1", cc, "clean_copy-not-copy", f"clean_copy no longer builds a new frame: `{t[-80:]}`")


def _s1_all_steps(program, res):
    """every executor step (not only the table step): nothing it returns or writes is an alias of a caller's frame.
    Helper methods that hand back the caller's frame (a lookup without a copy) are summarised and followed."""
    for (mod, cname) in (("pandas_base", "PandasModelBase"), ("polars_model", "PolarsModel")):
        cls = program.cls(mod, cname)
        returns_owned: Dict[str, str] = {}

        def make_source(ro):
            def source_of(e):
                if isinstance(e, ast.Subscript) and isinstance(e.value, ast.Name) and e.value.id == "data_map":
                    return ("owned", unparse(e))
                if isinstance(e, ast.Attribute) and unparse(e) in ("op.head", "source.head"):
                    return ("owned", unparse(e))
                if isinstance(e, ast.Call) and isinstance(e.func, ast.Attribute) and isinstance(e.func.value, ast.Name) \
                        and e.func.value.id == "self" and e.func.attr in ro:
                    return ("owned", f"self.{e.func.attr}(…)")
                return None
            return source_of
        # summaries to a fixpoint: which methods can return the caller's frame itself
        cands = [m for m in cls.methods.values() if "data_map" in m.params() or m.name in ("clean_copy",)]
        for _round in range(4):
            changed = False
            for m in cands:
                if m.name in returns_owned:
                    continue
                g = cfgmod.build(m.node)
                al = aliasmod.Alias(g, m.params(), make_source(returns_owned), inplace_helpers=INPLACE_HELPERS)
                if al.returned_aliases():
                    returns_owned[m.name] = m.qualname
                    changed = True
            if not changed:
                break
        n = 0
        for m in cands:
            is_step = m.name.endswith("_step") or m.name in ("_eval_value_source", "eval", "_compose_polars_ops")
            if not is_step:
                continue
            n += 1
            res.analysed(m)
            g = cfgmod.build(m.node)
            al = aliasmod.Alias(g, m.params(), make_source({k: v for k, v in returns_owned.items() if k != m.name}), inplace_helpers=INPLACE_HELPERS)
            effs = [e for e in al.effects() if any(t[0] == "owned" for t in e.tags)]
            rets = al.returned_aliases()
            for e in effs:
                res.fail_at("C19-S1", m, f"input-mutated:{e.what.split('`')[0].strip()}",
                            f"{m.qualname}: {e.what} acts on `{e.var}`, an alias of the caller's frame {sorted(t[1] for t in e.tags)}", e.stmt)
            for (r, tg) in rets:
                res.fail_at("C19-S1", m, "returns-input",
                            f"{m.qualname} can return `{unparse(r.stmt.value)}`, which is the caller's own frame {sorted(t[1] for t in tg)} (not a copy): "
                            f"later steps write scratch and id columns into their working frame in place, so the input is modified and a repeat evaluation differs", r.stmt)
            if not effs and not rets:
                res.ok("C19-S1", f"{m.qualname}: returns and writes only frames it owns")
        res.extra[f"C19 helpers of {cname} that hand back the caller's frame"] = sorted(returns_owned.values())
        if n < 12:
            raise AnalysisError(f"{cname}: only {n} step methods found")


def _s3_repeatable_grouping(program, res):
    """Polars' group_by returns the groups in an arbitrary order that changes from call to call unless maintain_order=True.  Where the grouped
    frame becomes (part of) a step's result, that order is visible: to the caller, and to every later step that reads positions
    (first/last, a bare limit).  Groupings reduced to one number (a count, a maximum) are exempt."""
    cls = program.cls("polars_model", "PolarsModel")
    n = 0
    parents = {}
    for m in cls.methods.values():
        for p_ in ast.walk(m.node):
            for c_ in ast.iter_child_nodes(p_):
                parents[c_] = p_
        for c in ast.walk(m.node):
            if not (isinstance(c, ast.Call) and isinstance(c.func, ast.Attribute) and c.func.attr == "group_by"):
                continue
            # climb the method chain this call starts
            top = c
            chain = []
            while isinstance(parents.get(top), ast.Attribute) and isinstance(parents.get(parents[top]), (ast.Call, ast.Subscript)) or \
                    isinstance(parents.get(top), ast.Subscript) and parents[top].value is top:
                if isinstance(parents[top], ast.Attribute):
                    chain.append(parents[top].attr)
                    top = parents[parents[top]]
                else:
                    chain.append("[]")
                    top = parents[top]
            if isinstance(parents.get(top), ast.Attribute):
                chain.append(parents[top].attr)
            scalar = any(x in ("shape", "max", "min", "height", "n_unique", "item") for x in chain)
            if scalar:
                res.ok("C19-S3", f"{m.name}: grouping reduced to a number ({'.'.join(chain)}): group order is not observable")
                continue
            n += 1
            kept = any(kw.arg == "maintain_order" and isinstance(kw.value, ast.Constant) and kw.value.value is True for kw in c.keywords)
            if kept:
                res.ok("C19-S3", f"{m.name}: group_by(..., maintain_order=True): groups come out in the order of their first rows, every time")
            else:
                res.fail_at("C19-S3", m, f"polars-group-order-arbitrary:{m.name}",
                            f"PolarsModel.{m.name} builds its result with `{unparse(c)[:60]}` (maintain_order left False): the rows come back in another order on every "
                            f"evaluation — 40 evaluations of project({{'x': 'x.sum()'}}, group_by=['g']) gave 40 row orders, and a following order-reading step "
                            f"(extend first()/last() over partition_by=1, order_rows(limit=1) with ties) gave different *values*; Pandas returns one order", c)
    if n < 1:
        raise AnalysisError("C19-S3: no result-producing group_by found in PolarsModel")
    # the same for sorting: Polars' sort is not stable unless maintain_order=True, so rows that tie on the sort columns change places
    # between evaluations.  (The record transforms sort frames that were checked to be keyed by the sort columns: no ties, exempt.)
    ns = 0
    for mname in ("_order_rows_step", "_extend_step"):
        m = cls.methods.get(mname)
        if m is None:
            raise AnalysisError(f"anchor vanished: PolarsModel.{mname}")
        for c in ast.walk(m.node):
            if isinstance(c, ast.Call) and isinstance(c.func, ast.Attribute) and c.func.attr == "sort":
                ns += 1
                kept = any(kw.arg == "maintain_order" and isinstance(kw.value, ast.Constant) and kw.value.value is True for kw in c.keywords)
                if kept:
                    res.ok("C19-S3", f"{mname}: sort(..., maintain_order=True): ties keep their incoming order, every time")
                else:
                    res.fail_at("C19-S3", m, f"polars-sort-unstable:{mname}",
                                f"PolarsModel.{mname} sorts with `{unparse(c)[:70]}` (maintain_order left False): rows that tie on the sort columns come back in another "
                                f"order on every evaluation — order_rows(['c'], limit=1) over eight rows with equal c returned eight different rows in 40 evaluations", c)
    if ns < 2:
        res.abstain("C19-S3", "stability of the Polars sorts", f"only {ns} frame sort(s) found in _order_rows_step / _extend_step (another ordering mechanism is not decided here)")
    # joins: a join that promises no row order is a licence for the lazy optimizer — it downgrades a group_by(maintain_order=True) above or below the
    # join and deletes a sort below it (seen in explain(): AGGREGATE[maintain_order: false], no SORT), and a full join appends the right-only rows in
    # hash order.  (An earlier version of this rule took left / inner joins for order preserving; that holds for eager frames only.)  Every join of the
    # step therefore has to state the order it maintains: a keyword, or the splat of a module-level dictionary that carries the keyword.
    jm = cls.methods.get("_natural_join_step")
    if jm is None:
        raise AnalysisError("anchor vanished: PolarsModel._natural_join_step")
    mod = program.module("polars_model")
    order_dicts = set()
    for st in ast.walk(mod.tree):
        if isinstance(st, ast.Assign) and len(st.targets) == 1 and isinstance(st.targets[0], ast.Name) and isinstance(st.value, ast.Dict) \
                and any(isinstance(k, ast.Constant) and k.value == "maintain_order" for k in st.value.keys):
            order_dicts.add(st.targets[0].id)
    nj = 0
    for c in ast.walk(jm.node):
        if isinstance(c, ast.Call) and isinstance(c.func, ast.Attribute) and c.func.attr == "join" and any(kw.arg in ("left_on", "on", "how") for kw in c.keywords):
            nj += 1
            how = next((kw.value for kw in c.keywords if kw.arg == "how"), None)
            stated = any(kw.arg == "maintain_order" for kw in c.keywords) or any(kw.arg is None and isinstance(kw.value, ast.Name) and kw.value.id in order_dicts for kw in c.keywords)
            if stated:
                res.ok("C19-S3", f"_natural_join_step: join(how={unparse(how) if how is not None else None}) states the row order it maintains")
            else:
                res.fail_at("C19-S3", jm, "polars-join-order-unstated" if isinstance(how, ast.Constant) else "polars-full-join-order-arbitrary",
                            f"`{unparse(c.func)}(…, how={unparse(how) if how is not None else None})` passes no maintain_order: on lazy frames (the default) the optimizer then treats the "
                            f"row order around the join as unobserved — project(group_by) -> natural_join, or natural_join -> project, evaluated 40 times gives 30-40 different "
                            f"row orders, and with a following order_rows(limit=1) on a tie different *rows*; a full join returns its right-only rows in hash order", c)
    if nj < 2:
        raise AnalysisError("C19-S3: the joins of _natural_join_step were not found")


def _s1b_array_views_written(program, res):
    """`column.array` / `column.values` are the column's own storage, not a copy, and a store into them is not covered by pandas' copy-on-write: the intermediate
    frames the executor works on are lazy copies that still share their buffers with the caller's table, so `filled = a.array; filled[missing] = …` writes into the
    caller's frame.  Every store into such a view of an argument is reported"""
    mod = program.module("pandas_base")
    n = 0
    for f in program.all_functions():
        if f.module is not mod:
            continue
        params = set(f.params()) - {"self"}
        views = {}
        for st in ast.walk(f.node):
            if isinstance(st, ast.Assign) and len(st.targets) == 1 and isinstance(st.targets[0], ast.Name):
                v = st.value
                is_view = isinstance(v, ast.Attribute) and v.attr in ("array", "values", "_values") and isinstance(v.value, ast.Name) and v.value.id in params
                views.setdefault(st.targets[0].id, []).append((st.lineno, is_view, st))
        for st in ast.walk(f.node):
            if isinstance(st, (ast.Assign, ast.AugAssign)):
                for t in (st.targets if isinstance(st, ast.Assign) else [st.target]):
                    if isinstance(t, ast.Subscript) and isinstance(t.value, ast.Name) and t.value.id in views:
                        n += 1
                        before = [x for x in views[t.value.id] if x[0] <= st.lineno]
                        if before and max(before, key=lambda x: x[0])[1]:
                            res.analysed(f)
                            res.fail_at("C19-S1", f, f"array-view-written:{f.name}",
                                        f"`{unparse(st)[:60]}` stores into `{unparse(max(before, key=lambda x: x[0])[2].value)}`, the storage of an argument column itself: the executor's "
                                        f"working frames share buffers with the caller's table (copy-on-write does not cover a store into `.array`), so the caller's column is "
                                        f"overwritten and a second evaluation of the same pipeline on the same input differs", st)
    res.ok("C19-S1", f"no store into the `.array` / `.values` of an argument column in the Pandas executor ({n} stores into locals looked at)", nontrivial=n > 0)


def run(program, res, tier):
    res.rule("C19-S1", "no in-place effect reaches a caller-owned frame; table steps return fresh frames")
    res.rule("C19-S2", "evaluation and SQL generation never mutate the operator nodes")
    _s1(program, res)
    _s1_all_steps(program, res)
    _s1b_array_views_written(program, res)
    _s2(program, res)
    res.rule("C19-S3", "repeatable: result-producing Polars groupings keep a deterministic order")
    _s3_repeatable_grouping(program, res)
