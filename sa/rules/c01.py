"""C01 SQLite SQL computes the same table as the Pandas executor — structural clauses."""
from __future__ import annotations

import ast

from .. import sqlexpr
from ..index import AnalysisError, dotted_name, unparse
from ..nodes import NodeModel, bind_problems
from ..report import Relabel
from . import c04, c05, c09, c10

EXPLANATION = (
    "Necessary structural conditions of SQL/Pandas agreement, decided over the SQL generator shared by all "
    "dialects and the SQLite dialect module. S1 dispatch exhaustiveness: each of the 13 operator node kinds has "
    "an entry in the Pandas and the Polars dispatch table and a to_near_sql_implementation_ that resolves to a "
    "SQLModel method whose signature binds the call. S2 single source of pruning truth: every SQL generator step "
    "asks its source for the columns the node's own columns_used_from_sources reports (the C10 rule). S3 an "
    "aggregation stays an aggregation under pruning and keeps all its group keys (the C09 rules). S4 the "
    "extend-merge optimisation is entered only under a guard that depends on both steps' produced columns and "
    "needs (window columns included), and a merged step gets a new cache key (the C04 rules). S5 every catalogue "
    "row marked 'y' for SQLite resolves to a formatter, an operator or a function that SQLite has or that "
    "prepare_connection registers with the right meaning; the null truth tables of the SQL templates equal the "
    "documented contracts (the C05 rules for the SQLite column). S6 SQLite's RIGHT→LEFT rewrite swaps key lists "
    "together with the sources. Not decided: that the emitted SQL text means the pipeline on data (float "
    "tolerance, the documented '/', '%', empty-group conventions)."
)


def _s1(program, res):
    model = NodeModel(program)
    sqlm = program.cls("sql_model", "SQLModel")
    n = 0
    for k in model.kinds.values():
        for be in ("pandas", "polars"):
            n += 1
            if be in k.evaluators:
                res.ok("C01-S1", f"{k.name}: {be} dispatch -> {k.evaluators[be].qualname}")
            else:
                res.fail("C01-S1", f"view_representations:{k.name}", f"dispatch:{be}",
                         f"node kind {k.name} (node_name '{k.node_name}') has no entry in the {be} _method_dispatch_table: "
                         f"evaluation raises KeyError", "data_algebra/view_representations.py", k.cls.node.lineno)
        impl = k.cls.methods.get("to_near_sql_implementation_")
        if impl is None:
            res.fail("C01-S1", f"view_representations:{k.name}", "dispatch:sql", f"{k.name} has no to_near_sql_implementation_",
                     "data_algebra/view_representations.py", k.cls.node.lineno)
            continue
        res.analysed(impl)
        calls = [c for c in ast.walk(impl.node) if isinstance(c, ast.Call) and (dotted_name(c.func) or "").startswith("db_model.")]
        gen = [c for c in calls if (dotted_name(c.func) or "").endswith("_to_near_sql")]
        if k.name in ("ConvertRecordsNode", "SQLNode"):
            # these build NearSQLRawQStep themselves from db_model's quoting / record-map query helpers
            helpers = [dotted_name(c.func).split(".")[1] for c in calls]
            missing = [h for h in helpers if sqlm.find_method(h) is None]
            if missing:
                res.fail_at("C01-S1", impl, f"dispatch:sql:{missing[0]}", f"{k.name} calls db_model.{missing[0]}, which SQLModel does not define")
            else:
                res.ok("C01-S1", f"{k.name}: SQL realised in place with SQLModel helpers {sorted(set(helpers))}")
            n += 1
            continue
        if len(gen) != 1:
            res.fail_at("C01-S1", impl, "dispatch:sql", f"{k.name}.to_near_sql_implementation_ does not delegate to exactly one db_model.<kind>_to_near_sql")
            continue
        n += 1
        mname = dotted_name(gen[0].func).split(".")[1]
        cands = [c.methods[mname] for c in [sqlm] + program.subclasses(sqlm) if mname in c.methods]
        if not cands:
            res.fail_at("C01-S1", impl, f"dispatch:sql:{mname}", f"{k.name} delegates to db_model.{mname}, which no SQL model defines", gen[0])
            continue
        probs = [bind_problems(gen[0], c) for c in cands]
        if all(probs):
            res.fail_at("C01-S1", impl, f"dispatch:sql:{mname}:binding", f"call `{unparse(gen[0])[:80]}` does not bind to {mname}: {probs[0]}", gen[0])
        else:
            kws = {kw.arg for kw in gen[0].keywords}
            if {"using", "temp_id_source"} <= kws:
                res.ok("C01-S1", f"{k.name}: SQL dispatch -> SQLModel.{mname} (using/temp_id_source forwarded)")
            else:
                res.fail_at("C01-S1", impl, f"dispatch:sql:{mname}:arguments", f"`{unparse(gen[0])[:80]}` does not forward using and temp_id_source", gen[0])
    res.expect_count("C01-S1", "dispatch instances", n, 39)


def _s6(program, res):
    """SQLite right-join rewrite: a copied join node whose sources are permuted must have on_a/on_b permuted too"""
    from . import c16
    c16.paired_field_rewrite(program, Relabel(res, {"*": "C01-S6"}))


def comparison_null_rule(program, res, dialect_mod="SQLite", dialect_cls="SQLiteModel", rule="C01-S7"):
    """comparisons: Pandas evaluates them with numpy (never missing: False / True on a missing operand); a bare SQL comparison operator is
    three-valued (NULL on a NULL operand).  Unless the dialect wraps the operator (a formatter that coalesces), the two differ: the column holds
    NULL instead of False, and select_rows('not (x > 2)') keeps the null row on Pandas and drops it in SQL"""
    from .. import facts
    d = sqlexpr.Dialect(program, dialect_mod, dialect_cls)
    for op, on_null in sorted(facts.PANDAS_COMPARISON_ON_NULL.items()):
        kind, info = d.resolve(op)
        if kind == "default" and info in facts.SQL_INLINE_OPERATORS:
            res.fail(rule, f"sql_model:SQLModel.expr_to_sql", f"comparison-null:{op}",
                     f"{dialect_cls}: `x {op} y` is emitted as the bare operator `{info}`; with a missing operand SQL yields NULL where Pandas yields {on_null} "
                     f"(x=[1,None,3], y=[1,2,None]: Pandas {[True, on_null, on_null] if op in ('==', '<=', '>=') else [False, on_null, on_null]}, SQL [.., NULL, NULL])",
                     "data_algebra/sql_model.py", 0)
        elif kind == "formatter":
            fn = d.formatter_func(info)
            txt = unparse(fn) if fn is not None else ""
            if "COALESCE" in txt.upper() or "IS NULL" in txt.upper():
                res.ok(rule, f"{dialect_cls}: `{op}` goes through a formatter that handles NULL operands")
            else:
                res.abstain(rule, f"{dialect_cls}: `{op}` formatter", "null behaviour of the template not decided")
        else:
            res.abstain(rule, f"{dialect_cls}: `{op}`", f"emitted as {info}(...)")


def run(program, res, tier):
    res.rule("C01-S1", "node-kind dispatch is exhaustive in the Pandas, Polars and SQL back ends")
    res.rule("C01-S2", "SQL pruning derives from the node's own columns_used_from_sources")
    res.rule("C01-S3", "projects stay aggregating and keep every group key in SQL")
    res.rule("C01-S4", "extend-merge guard / declared dependencies / cache key are complete")
    res.rule("C01-S5", "catalogue ⇒ resolvable SQLite function of the right meaning; null truth tables")
    res.rule("C01-S6", "SQLite join rewrites keep sources and key lists paired")
    _s1(program, res)
    model = NodeModel(program)
    c10._s3(program, model, Relabel(res, {"*": "C01-S2"}))
    c09._s1(program, Relabel(res, {"*": "C01-S3"}))
    c09.sql_counts_rule(program, Relabel(res, {"*": "C01-S3"}), rule="C01-S3", dialects=(("SQLite", "SQLiteModel"),))
    c04._s1a(program, Relabel(res, {"*": "C01-S4"}))
    c04.clause_pushdown_rule(program, Relabel(res, {"*": "C01-S4"}))
    c04._s1c(program, Relabel(res, {"*": "C01-S4"}))
    from . import c08 as _c08
    _c08._s8_empty_request(program, Relabel(res, {"*": "C01-S4"}))
    _c08._s9_join_terms_qualified(program, Relabel(res, {"*": "C01-S4"}))
    f = sqlexpr.confirm_lookup_model(program)
    res.analysed(f)
    rows = sqlexpr.catalog(program)
    registered = c05.sqlite_registered(program)
    tmeth = c05.term_methods(program)
    d = sqlexpr.Dialect(program, "SQLite", "SQLiteModel")
    r5 = Relabel(res, {"*": "C01-S5"})
    c05._sql_s1(program, r5, d, rows, registered, tmeth)
    c05._s2(program, r5, [d])
    c05._s4_slice_contract(program, Relabel(res, {"*": "C01-S5"}))
    c05.sql_division_rule(program, res, d, "C01-S5")
    c05._s5_if_else_missing(program, Relabel(res, {"*": "C01-S5"}))
    c05._s6_concat_missing(program, Relabel(res, {"*": "C01-S5"}))
    c05._s8_column_operand_kinds(program, Relabel(res, {"*": "C01-S5"}))
    c05._s9_total_user_functions(program, Relabel(res, {"*": "C01-S5"}))
    c05.sql_floor_division_rule(program, res, rule="C01-S5")
    c05.sqlite_arithmetic_tables(program, res, rule="C01-S5")
    c05.sql_template_grouping_rule(program, res, rule="C01-S5", dialects={"SQLiteModel"})
    _s6(program, res)
    res.rule("C01-S7", "comparison operators agree with Pandas on missing operands")
    comparison_null_rule(program, res)
    res.rule("C01-S8", "missing values are ordered where Pandas puts them")
    from . import c18
    c18.null_position_rule(program, res, ["SQLiteModel"], rule="C01-S8")
    res.assumptions.append("SQLite built-in function list, meaning vocabulary and registration meanings (sa/facts.py)")
