"""C25 the evaluation result cache is transparent — structural clauses."""
from __future__ import annotations

import ast

from .. import cfg as cfgmod
from .. import deps as depsmod
from ..index import AnalysisError, dotted_name, unparse

EXPLANATION = (
    "S1 key completeness (def-use): the EvalKey returned by make_cache_key depends on the dialect, the SQL text "
    "and, for every key of the data map (an unfiltered iteration over all keys in sorted order), the table name "
    "and hash_data_frame(table); hash_data_frame's result depends on the frame's shape, its column names and a "
    "content hash taken over the whole frame, index included (row order matters). S2 no aliasing: every value "
    "returned by get and every value stored by store passes through .copy(). S3 get and store build their key "
    "with the same function from their own three arguments. Not decided: collision-freeness of the hash, "
    "equality of the returned copy on data."
)

NARROWING = ("head", "tail", "iloc", "loc", "sample", "values", "drop", "dropna", "describe", "shape")


def _parent_of(root, node):
    for p_ in ast.walk(root):
        for c_ in ast.iter_child_nodes(p_):
            if c_ is node:
                return p_
    return None

def run(program, res, tier):
    res.rule("C25-S1", "cache key depends on dialect, SQL text and every table's name, shape, columns and whole-frame hash")
    res.rule("C25-S2", "returned and stored frames are copies")
    res.rule("C25-S3", "get and store key through the same function")
    mk = program.func("eval_cache", "make_cache_key")
    hd = program.func("eval_cache", "hash_data_frame")
    rc = program.cls("eval_cache", "ResultCache")
    get = rc.methods.get("get")
    store = rc.methods.get("store")
    if get is None or store is None:
        raise AnalysisError("anchor vanished: ResultCache.get/store")
    res.analysed(mk, hd, get, store)
    # ---- S1: make_cache_key
    g = cfgmod.build(mk.node)
    d = depsmod.Deps(g, mk.params())
    rets = g.returns()
    if len(rets) != 1 or not isinstance(rets[0].stmt.value, ast.Call):
        raise AnalysisError("make_cache_key: expected a single `return EvalKey(...)`")
    r = rets[0]
    call = r.stmt.value
    allroots = set()
    per_kw = {}
    for kw in call.keywords:
        per_kw[kw.arg] = d.roots_at(r, kw.value)
        allroots |= per_kw[kw.arg]
    for a in call.args:
        allroots |= d.roots_at(r, a)
    for want, why in (("db_model", "results of different dialects would share an entry"),
                      ("sql", "different queries would share an entry"),
                      ("data_map", "different input tables would share an entry"),
                      ("call:hash_data_frame", "table contents would not be part of the key")):
        if want in allroots:
            res.ok("C25-S1", f"make_cache_key: key depends on {want}")
        else:
            res.fail_at("C25-S1", mk, f"key-lacks:{want}", f"the returned key does not depend on {want}: {why}", call)
    # the sql component is the text itself
    sql_kw = [kw for kw in call.keywords if kw.arg == "sql"]
    if sql_kw and unparse(sql_kw[0].value) not in ("sql", "str(sql)"):
        res.fail_at("C25-S1", mk, "sql-transformed", f"the key stores `{unparse(sql_kw[0].value)}` instead of the SQL text", call)
    # iteration over all keys, unfiltered, deterministic order
    comps = [c for c in ast.walk(call) if isinstance(c, (ast.ListComp, ast.GeneratorExp))]
    if not comps:
        # names and hashes collected apart and joined by position: zip(names, hashes) ties a hash to a table name only if both sequences
        # are in the same order, and each of them is put in an order of its own (sorted names / sorted or map-ordered hashes)
        zips = [c for c in ast.walk(call) if isinstance(c, ast.Call) and dotted_name(c.func) == "zip"]
        if zips:
            res.fail_at("C25-S1", mk, "table-component-paired-by-position",
                        f"the per-table key component is `{unparse(zips[0])[:70]}`: table names and frame hashes are collected separately and paired by position, so the key "
                        f"records the set of names and the multiset of hashes but not which table holds which frame — {{d1: A, d2: B}} and {{d1: B, d2: A}} share an entry "
                        f"(expected one element (name, hash_data_frame(data_map[name])) per name)", zips[0])
            comps = []
        else:
            raise AnalysisError("make_cache_key: per-table component is not a comprehension")
    if comps:
        comp = comps[0]
        gen = comp.generators[0]
        it_roots = d.roots_at(r, gen.iter)
        if gen.ifs:
            res.fail_at("C25-S1", mk, "tables-filtered", f"the per-table key component skips tables (`if {unparse(gen.ifs[0])}`)", comp)
        elif "data_map" not in it_roots:
            res.fail_at("C25-S1", mk, "tables-iteration", "the per-table key component does not iterate over the data map's keys", comp)
        else:
            res.ok("C25-S1", "make_cache_key: every table of the data map contributes, unfiltered")
        if isinstance(gen.iter, ast.Subscript) or (isinstance(gen.iter, ast.Call) and dotted_name(gen.iter.func) in ("islice", "itertools.islice")):
            res.fail_at("C25-S1", mk, "tables-sliced", f"only part of the tables contributes (`{unparse(gen.iter)}`)", comp)
        sorted_keys = any(isinstance(c, ast.Call) and isinstance(c.func, ast.Attribute) and c.func.attr == "sort" for c in ast.walk(mk.node)) \
            or any(isinstance(c, ast.Call) and dotted_name(c.func) == "sorted" for c in ast.walk(mk.node))
        if sorted_keys:
            res.ok("C25-S1", "make_cache_key: tables are keyed in a deterministic (sorted) order")
        else:
            res.fail_at("C25-S1", mk, "unordered", "table keys are not sorted: equal data maps built in a different order would get different keys")
        # element = (name, hash of that table)
        elt = comp.elt
        tname = gen.target.id if isinstance(gen.target, ast.Name) else None
        elt_txt = unparse(elt)
        hcalls = [c for c in ast.walk(elt) if isinstance(c, ast.Call) and dotted_name(c.func) == "hash_data_frame"]
        if tname and isinstance(elt, ast.Tuple) and any(isinstance(e, ast.Name) and e.id == tname for e in elt.elts) and hcalls \
                and unparse(hcalls[0].args[0]) == f"data_map[{tname}]":
            res.ok("C25-S1", "make_cache_key: each table contributes (name, hash_data_frame(data_map[name]))")
        else:
            res.fail_at("C25-S1", mk, "table-component", f"per-table component is `{elt_txt}`, expected (name, hash_data_frame(data_map[name]))", comp)
    # ---- S1: dtype names that do not say what the cells are: "object" and "category" (a categorical column is "category" whether its categories are
    # int8, int64, str or bool, and pandas hashes the categories' bit patterns / str()): the per-cell types have to be collected for both, and the
    # categories' own dtype has to be in the key
    hiding = {"object", "category"}
    dtype_filters = [c for c in ast.walk(hd.node) if isinstance(c, ast.Compare) and "dtype" in unparse(c.left)
                     and isinstance(c.ops[0], (ast.Eq, ast.In))]
    named = {k.value for c in dtype_filters for k in ast.walk(c.comparators[0]) if isinstance(k, ast.Constant) and isinstance(k.value, str)}
    if not dtype_filters:
        raise AnalysisError("hash_data_frame: the test that selects the columns whose cell types are collected was not found")
    if hiding <= named:
        res.ok("C25-S1", f"cell types are collected for the dtypes that hide them ({sorted(named)})")
    else:
        res.fail_at("C25-S1", hd, f"cell-types-not-collected-for:{','.join(sorted(hiding - named))}",
                    f"the per-cell types are collected for {sorted(named)} columns only: a categorical column's dtype prints as 'category' whatever it holds, so categories "
                    f"int8 [-1, 5] and int64 [255, 5] (same bit pattern) or 10 and '10' share a key — get() for a never stored table returns the other table's result", dtype_filters[0])
    # every alternative of the per-column type list really looks at types (cells for object columns, categories for categorical ones)
    for comp in ast.walk(hd.node):
        if isinstance(comp, ast.ListComp) and any("dtype" in unparse(i) for g_ in comp.generators for i in g_.ifs):
            arms = [comp.elt.body, comp.elt.orelse] if isinstance(comp.elt, ast.IfExp) else [comp.elt]
            for arm in arms:
                # an arm may hand the column to a helper of the module: the helper's body is what collects
                hmod = program.module("eval_cache")
                helpers = [hmod.functions[c.func.id].node for c in ast.walk(arm) if isinstance(c, ast.Call) and isinstance(c.func, ast.Name) and c.func.id in hmod.functions]
                scope = [arm] + helpers
                if any(isinstance(c, ast.Call) and dotted_name(c.func) == "type" for s_ in scope for c in ast.walk(s_)):
                    res.ok("C25-S1", f"`{unparse(arm)[:50]}` collects the types of the values")
                    # an arm that reads the categories instead of the cells has to say which cell holds which category as well (pandas hashes
                    # object categories through str(): [1, '1', 1] and ['1', 1, '1'] over the categories [1, '1'] hash alike)
                    txt = " ".join(unparse(s_) for s_ in scope)
                    if ".categories" in txt:
                        raw = [c for s_ in scope for c in ast.walk(s_) if isinstance(c, ast.Call) and isinstance(c.func, ast.Attribute) and c.func.attr in ("tobytes", "tolist")
                               and ".codes" in unparse(c.func.value) and not any(isinstance(x, ast.Subscript) and ".codes" in unparse(x.slice) for x in ast.walk(c.func.value))]
                        if raw:
                            res.fail_at("C25-S1", hd, "category-codes-hashed-raw",
                                        f"`{unparse(raw[0])[:60]}` puts the raw codes into the key: they number the categories in the order the column lists them, so two equal "
                                        f"categorical frames (DataFrame.equals) whose categories are listed in another order get different keys and get() raises KeyError", raw[0])
                        elif ".codes" in txt:
                            res.ok("C25-S1", "the categorical arm hashes the codes (which cell holds which category) with the categories' types")
                        else:
                            res.fail_at("C25-S1", hd, "category-cells-not-in-key",
                                        f"`{txt[:60]}` looks at the categories only: two categorical columns over the same mixed categories [1, '1'] with cells [1, '1', 1] and "
                                        f"['1', 1, '1'] share a key (pandas hashes object categories through str())", arm)
                else:
                    res.fail_at("C25-S1", hd, "cell-types-not-collected",
                                f"`{unparse(arm)[:60]}` stands where the types of a column's values are collected and does not look at types: object cells are hashed through "
                                f"str(), so [10, 9, 100] and ['10', '9', '100'] share a key", arm)
    if any("categories" in unparse(c) and "dtype" in unparse(c) for c in ast.walk(hd.node) if isinstance(c, (ast.Attribute, ast.JoinedStr))):
        res.ok("C25-S1", "the dtype of a categorical column's categories is part of the key")
    else:
        res.fail_at("C25-S1", hd, "category-value-dtype-not-in-key",
                    "a categorical column enters the key as 'category' only: categories of dtype int8 holding -1 and of dtype int64 holding 255 hash alike (pandas views the "
                    "categories' bytes as unsigned), so the two tables share a key")
    # ---- S1: hash_data_frame
    g2 = cfgmod.build(hd.node)
    d2 = depsmod.Deps(g2, hd.params())
    p = hd.params()[0]
    rets = g2.returns()
    if not rets:
        raise AnalysisError("hash_data_frame: no return")
    for i, rt in enumerate(rets):
        roots = d2.roots_at(rt, rt.stmt.value)
        for want, why in ((f"{p}.shape", "frames of different shape could share a key"),
                          (f"{p}.columns", "frames that differ only in column names would share a key"),
                          ("call:hash_pandas_object", "the contents of the frame as it is now would not be hashed"),
                          (f"{p}.dtypes", "hash_pandas_object hashes the cells' bit patterns: int32 [-1,-2] and int64 [4294967295,4294967294], float64 1.0 and int64 "
                                          "4607182418800017408, datetime64[s] and datetime64[us] columns share their row hashes — a lookup hits the result stored for the other table"),
                          ("call:type", "object cells are hashed through str(): [10, 9, 100] and ['10', '9', '100'] share a key (the numbers sort 9,10,100, the strings 10,100,9)")):
            if depsmod.has_root(roots, want):
                res.ok("C25-S1", f"hash_data_frame return #{i + 1} depends on {want}")
            else:
                res.fail_at("C25-S1", hd, f"hash-lacks:{want}",
                            f"a return of hash_data_frame (`{unparse(rt.stmt.value)[:50]}`) does not depend on {want}: {why}", rt.stmt)
        # the column *names* must be in the key as values, not merely drive a loop (iterating d.columns to collect per-column types does
        # not put the names into the key)
        def _mentions_names(e, depth=0) -> bool:
            for sub in ast.walk(e):
                if isinstance(sub, ast.Attribute) and sub.attr == "columns" and unparse(sub.value) == p:
                    # not as the iteration source of a comprehension whose element ignores the loop variable's name
                    holder = [c for c in ast.walk(e) if isinstance(c, (ast.ListComp, ast.GeneratorExp, ast.SetComp, ast.DictComp))
                              and any(sub in list(ast.walk(g_.iter)) for g_ in c.generators)]
                    if not holder:
                        return True
                    for c in holder:
                        tgt = {t.id for g_ in c.generators for t in ast.walk(g_.target) if isinstance(t, ast.Name)}
                        elt = c.elt if not isinstance(c, ast.DictComp) else ast.Tuple(elts=[c.key, c.value], ctx=ast.Load())
                        # the element is the name itself (or contains it bare), e.g. [c for c in d.columns] / list(d.columns)
                        if any(isinstance(x, ast.Name) and x.id in tgt and not isinstance(_parent_of(elt, x), (ast.Subscript, ast.Call, ast.Attribute)) for x in ast.walk(elt)):
                            return True
            if depth < 2:
                for nm in [x.id for x in ast.walk(e) if isinstance(x, ast.Name)]:
                    for st in ast.walk(hd.node):
                        if isinstance(st, ast.Assign) and len(st.targets) == 1 and unparse(st.targets[0]) == nm and _mentions_names(st.value, depth + 1):
                            return True
            return False

        if not _mentions_names(rt.stmt.value):
            res.fail_at("C25-S1", hd, "hash-lacks-column-names",
                        f"a return of hash_data_frame (`{unparse(rt.stmt.value)[:60]}`) uses {p}.columns at most to walk the columns: the names themselves are not "
                        f"part of the key, so frames that differ only in column names share a key", rt.stmt)
        # a query result may repeat a column name: `d[c]` is then a frame, not a column — per-column work has to go by position
        label_access = [sub for sub in ast.walk(hd.node) if isinstance(sub, ast.Subscript) and isinstance(sub.value, ast.Name) and sub.value.id == p
                        and isinstance(sub.slice, ast.Name)
                        and any(isinstance(c_, ast.comprehension) and isinstance(c_.target, ast.Name) and c_.target.id == sub.slice.id and f"{p}.columns" in unparse(c_.iter)
                                for c_ in ast.walk(hd.node))]
        if label_access and i == 0:
            res.fail_at("C25-S1", hd, "hash-reads-columns-by-label",
                        f"hash_data_frame reads `{unparse(label_access[0])}` for each name in {p}.columns: for a result with a repeated column name (SELECT x, s, x) that is a "
                        f"data frame, and the hash raises AttributeError instead of keying the table", label_access[0])
        state = sorted(r for r in roots if r.startswith("g:_") or (r.startswith("g:") and r[2:] in hd.module.consts))
        if state:
            res.fail_at("C25-S1", hd, f"hash-reads-module-state:{state[0]}",
                        f"a return of hash_data_frame depends on module-level state {state}: the key of a frame would depend on "
                        f"earlier calls, not only on its current contents", rt.stmt)
    hp = [c for c in ast.walk(hd.node) if isinstance(c, ast.Call) and isinstance(c.func, ast.Attribute) and c.func.attr == "hash_pandas_object"]
    if not hp:
        raise AnalysisError("hash_data_frame: hash_pandas_object call not found")
    c0 = hp[0]
    arg_txt = unparse(c0.args[0]) if c0.args else ""
    if arg_txt == p:
        res.ok("C25-S1", "hash_pandas_object is applied to the whole frame")
    else:
        res.fail_at("C25-S1", hd, "hash-partial", f"hash_pandas_object is applied to `{arg_txt}`, not the whole frame `{p}`", c0)
    idx = [kw for kw in c0.keywords if kw.arg == "index"]
    if idx and isinstance(idx[0].value, ast.Constant) and idx[0].value.value is False:
        res.fail_at("C25-S1", hd, "hash-ignores-index", "hash_pandas_object(index=False) makes the key blind to the row index", c0)
    # the per-row hashes are digested in order (sha over .values), not reduced by an order-insensitive sum
    if any(isinstance(c, ast.Call) and isinstance(c.func, ast.Attribute) and c.func.attr in ("sum", "mean", "max", "min", "sort_values")
           and "hash_pandas_object" in unparse(c.func.value) for c in ast.walk(hd.node)):
        res.fail_at("C25-S1", hd, "hash-order-insensitive", "the per-row hashes are combined order-insensitively: row order would not affect the key")
    else:
        res.ok("C25-S1", "per-row hashes are digested in row order")
    # ---- S2 copies
    gg = cfgmod.build(get.node)
    for r in gg.returns():
        v = r.stmt.value
        if isinstance(v, ast.Call) and isinstance(v.func, ast.Attribute) and v.func.attr in ("copy", "deepcopy", "clone"):
            res.ok("C25-S2", "get returns a copy of the cached frame")
        else:
            res.fail_at("C25-S2", get, "get-returns-alias", f"get returns `{unparse(v)}`: the caller can mutate the cached frame", r.stmt)
    n_store = 0
    for st in ast.walk(store.node):
        if isinstance(st, ast.Assign) and isinstance(st.targets[0], ast.Subscript) \
                and unparse(st.targets[0].value) in ("self.result_cache", "self.data_cache"):
            n_store += 1
            v = st.value
            if isinstance(v, ast.Call) and isinstance(v.func, ast.Attribute) and v.func.attr in ("copy", "deepcopy", "clone"):
                res.ok("C25-S2", f"store puts a copy into {unparse(st.targets[0].value)}")
            else:
                res.fail_at("C25-S2", store, f"store-alias:{unparse(st.targets[0].value)}",
                            f"store keeps `{unparse(v)}` itself: later changes to the caller's frame change the cache", st)
    if n_store < 2:
        raise AnalysisError("ResultCache.store: cache stores not found")
    # ---- S3 same key function, own arguments
    for m in (get, store):
        calls = [c for c in ast.walk(m.node) if isinstance(c, ast.Call) and dotted_name(c.func) == "make_cache_key"]
        if len(calls) != 1:
            res.fail_at("C25-S3", m, "key-function", f"{m.name} does not build its key with make_cache_key exactly once")
            continue
        kws = {kw.arg: unparse(kw.value) for kw in calls[0].keywords}
        if kws == {"db_model": "db_model", "sql": "sql", "data_map": "data_map"}:
            res.ok("C25-S3", f"{m.name} keys with make_cache_key(db_model, sql, data_map)")
        else:
            res.fail_at("C25-S3", m, "key-arguments", f"{m.name} calls make_cache_key with {kws}", calls[0])
    # get looks up exactly that key
    sub = [n for n in ast.walk(get.node) if isinstance(n, ast.Subscript) and unparse(n.value) == "self.result_cache"]
    if not sub:
        res.fail_at("C25-S3", get, "lookup", "get does not look the key up in self.result_cache")
