"""C09 aggregation returns one row per group, and one row without grouping — structural clauses."""
from __future__ import annotations

import ast

from .. import cfg as cfgmod
from .. import deps as depsmod
from ..index import AnalysisError, dotted_name, unparse

EXPLANATION = (
    "S1 SQL: in SQLModel.project_to_near_sql every comprehension/loop that derives select terms or GROUP BY "
    "terms from project_node.group_by is unfiltered (def-use: no filter depending on the pruning set `using`), "
    "the GROUP BY suffix is emitted under a condition on group_by only, an un-grouped project whose requested "
    "outputs contain no aggregate re-adds one (guard depending on group_by, ops and using that re-binds using), "
    "and the emitter falls back to the step's own terms — never to `*` — when the requested column list is "
    "empty. S2 Pandas: every groupby whose keys derive from op.group_by / op.partition_by passes dropna=False "
    "(pandas drops null-key groups by default; third-party contract table). S3 Polars: the un-grouped project "
    "groups by a constant stand-in column and restores one all-null row when the input was empty; grouped "
    "project groups by exactly op.group_by. Not decided: row counts on data, SQL GROUP BY null semantics "
    "(one group per standard). S4 windowed extend on SQL: the merge of two extends into one SELECT is guarded by, and the declared term dependencies include, the partition and order columns of the window (the C04 rule), so each row's window is its own group as keyed by the pipeline."
)


def _comps_over(fnode, g, d, root):
    """comprehensions / for-loops whose iteration source depends on `root` -> (node, iter expr, filter exprs, cfg node)"""
    out = []
    for n in g.stmt_nodes(("stmt", "iter", "test", "return")):
        exprs = [n.cond] if n.kind in ("iter", "test") else [n.stmt]
        if n.kind == "iter":
            if depsmod.has_root(d.roots_at(n, n.cond), root):
                out.append((n.stmt, n.cond, [], n))
            continue
        for e in exprs:
            for c in ast.walk(e):
                if isinstance(c, (ast.ListComp, ast.SetComp, ast.DictComp, ast.GeneratorExp)):
                    gen = c.generators[0]
                    if depsmod.has_root(d.roots_at(n, gen.iter), root):
                        out.append((c, gen.iter, list(gen.ifs), n))
    return out


def _s1(program, res):
    f = program.method("sql_model", "SQLModel", "project_to_near_sql", inherited=False)
    res.analysed(f)
    node_p = [p for p in f.params() if p != "self"][0]
    g = cfgmod.build(f.node)
    d = depsmod.Deps(g, f.params())
    gb = f"{node_p}.group_by"
    comps = _comps_over(f.node, g, d, gb)
    if not comps:
        raise AnalysisError("project_to_near_sql: nothing derives from project_node.group_by")
    n_unfiltered = 0
    for (c, it, ifs, n) in comps:
        for cond in ifs:
            roots = d.roots_at(n, cond)
            if "using" in roots or depsmod.has_root(roots, "using"):
                res.fail_at("C09-S1", f, f"group-keys-filtered:{unparse(cond)}",
                            f"`{unparse(c)[:90]}` keeps only the group keys that satisfy `{unparse(cond)}` (depends on the "
                            f"pruning set): dropping a key later changes the grouping, fewer rows than distinct key combinations", c)
                break
        else:
            n_unfiltered += 1
    # group_by itself must reach GROUP BY: the suffix statement with the "GROUP BY" constant
    gb_nodes = [n for n in g.stmt_nodes(("stmt",)) if any(isinstance(c, ast.Constant) and isinstance(c.value, str)
                                                           and c.value.strip().upper() == "GROUP BY" for c in ast.walk(n.stmt))]
    if not gb_nodes:
        res.fail_at("C09-S1", f, "no-group-by", "project_to_near_sql never emits GROUP BY")
    for n in gb_nodes:
        roots = d.roots_at(n, n.stmt.value if isinstance(n.stmt, ast.Assign) else n.stmt)
        if not depsmod.has_root(roots, gb):
            res.fail_at("C09-S1", f, "group-by-terms-source", "the GROUP BY terms do not derive from project_node.group_by", n.stmt)
        guard_roots = d.own_guard_roots(n)
        extra = [r for r in guard_roots if r == "using" or r.startswith("using.")]
        if extra:
            res.fail_at("C09-S1", f, "group-by-conditional-on-using", "GROUP BY is emitted only under a condition that depends on the pruning set", n.stmt)
        elif depsmod.has_root(roots, gb):
            res.ok("C09-S1", "GROUP BY terms derive from all of project_node.group_by, emitted under a condition on group_by only")
    # the terms of the step contain every group key: an update/assignment of `terms` from an unfiltered comp over group_by
    terms_nodes = [n for n in g.stmt_nodes(("stmt",)) if "terms" in unparse(n.stmt).split("(")[0].split("=")[0] or unparse(n.stmt).startswith("terms.update")]
    ok_terms = False
    for (c, it, ifs, n) in comps:
        if not ifs and isinstance(c, ast.DictComp) and n in terms_nodes and unparse(it) == gb:
            ok_terms = True
    if ok_terms:
        res.ok("C09-S1", "every group key is a select term of the project step")
    elif n_unfiltered == len(comps):
        # accept other shapes as long as some statement puts values derived from group_by into terms
        flows = [n for n in terms_nodes if depsmod.has_root(d.roots_at(n, n.stmt.value if isinstance(n.stmt, (ast.Assign, ast.Expr)) else n.stmt), gb)]
        if flows:
            res.ok("C09-S1", "group keys flow into the step's select terms")
        else:
            res.fail_at("C09-S1", f, "group-keys-not-selected", "project_node.group_by never flows into the step's select terms")
    # emptiness guard (un-grouped project must keep an aggregate)
    found = False
    for n in g.stmt_nodes(("test",)):
        roots = d.cond_roots(n)
        if depsmod.has_root(roots, gb) and depsmod.has_root(roots, f"{node_p}.ops") and "using" in roots:
            body_assigns = [s for s in ast.walk(n.stmt) if isinstance(s, ast.Assign) and any(isinstance(t, ast.Name) and t.id == "using" for t in s.targets)]
            if body_assigns and isinstance(n.stmt, ast.If):
                found = True
    if found:
        res.ok("C09-S1", "an un-grouped project whose requested outputs hold no aggregate re-adds one before pruning")
    else:
        res.fail_at("C09-S1", f, "ungrouped-project-pruned-empty",
                    "no guard depending on group_by, ops and using protects an un-grouped project from having every aggregate "
                    "pruned: project({s: x.sum()}).extend({s: 1}) would emit a non-aggregating SELECT (N rows instead of 1)")
    # the guard precedes the computation of the pruned ops
    # emitter companion
    em = program.method("sql_model", "SQLModel", "nearsqlunary_to_sql_str_list_", inherited=False)
    res.analysed(em)
    ok = False
    for st in ast.walk(em.node):
        if isinstance(st, ast.If):
            t = unparse(st.test)
            assigns = [s for s in st.body if isinstance(s, ast.Assign) and unparse(s.targets[0]) == "columns" and "terms" in unparse(s.value)]
            if assigns and "columns is None" in t and ("len(columns)" in t or "not columns" in t):
                ok = True
    if ok:
        res.ok("C09-S1", "emitter: an empty requested column list falls back to the step's own terms, not to `*`")
    else:
        res.fail_at("C09-S1", em, "star-on-empty-columns",
                    "nearsqlunary_to_sql_str_list_ falls back to the step's terms only when columns is None: with an empty "
                    "column list it emits `SELECT *`, dropping the aggregate of an un-grouped project")


def _s2(program, res):
    pb = program.cls("pandas_base", "PandasModelBase")
    n = 0
    for mname in ("_project_step", "_extend_step"):
        m = pb.methods.get(mname)
        if m is None:
            raise AnalysisError(f"anchor vanished: PandasModelBase.{mname}")
        res.analysed(m)
        g = cfgmod.build(m.node)
        d = depsmod.Deps(g, m.params())
        for node in g.stmt_nodes(("stmt", "test", "return")):
            root = node.cond if node.kind == "test" else node.stmt
            for c in ast.walk(root):
                if isinstance(c, ast.Call) and isinstance(c.func, ast.Attribute) and c.func.attr == "groupby" and c.args:
                    roots = d.roots_at(node, c.args[0])
                    user_keys = depsmod.has_root(roots, "op.group_by") or depsmod.has_root(roots, "op.partition_by")
                    if not user_keys:
                        res.ok("C09-S2", f"{mname}: groupby({unparse(c.args[0])}) is on an internal constant key (never null)", nontrivial=False)
                        continue
                    n += 1
                    kw = {k.arg: k.value for k in c.keywords}
                    v = kw.get("dropna")
                    if isinstance(v, ast.Constant) and v.value is False:
                        res.ok("C09-S2", f"{mname}: groupby({unparse(c.args[0])}) keeps the null-key group (dropna=False)")
                    else:
                        res.fail_at("C09-S2", m, f"groupby-drops-null-keys:{unparse(c.args[0])}",
                                    f"`{unparse(c)[:80]}` groups on user keys without dropna=False: pandas silently drops the "
                                    f"rows whose key is null (project loses that group; windowed extend computes NaN for it)", c)
        # the grouping may sit in a helper of the model that is handed the user keys
        for node in g.stmt_nodes(("stmt", "test", "return")):
            root = node.cond if node.kind == "test" else node.stmt
            for c in ast.walk(root):
                if not (isinstance(c, ast.Call) and isinstance(c.func, ast.Attribute) and isinstance(c.func.value, ast.Name) and c.func.value.id == "self"):
                    continue
                h = pb.find_method(c.func.attr)
                if h is None:
                    continue
                key_params = []
                hparams = [p_ for p_ in h.params() if p_ != "self"]
                for i, a in enumerate(c.args):
                    rts = d.roots_at(node, a)
                    if (depsmod.has_root(rts, "op.group_by") or depsmod.has_root(rts, "op.partition_by")) and i < len(hparams):
                        key_params.append(hparams[i])
                for kw_ in c.keywords:
                    rts = d.roots_at(node, kw_.value)
                    if kw_.arg and (depsmod.has_root(rts, "op.group_by") or depsmod.has_root(rts, "op.partition_by")):
                        key_params.append(kw_.arg)
                if not key_params:
                    continue
                hg = cfgmod.build(h.node)
                hd = depsmod.Deps(hg, h.params())
                for hn in hg.stmt_nodes(("stmt", "test", "return")):
                    hroot = hn.cond if hn.kind == "test" else hn.stmt
                    for gc in ast.walk(hroot):
                        if isinstance(gc, ast.Call) and isinstance(gc.func, ast.Attribute) and gc.func.attr == "groupby" and gc.args \
                                and any(depsmod.has_root(hd.roots_at(hn, gc.args[0]), kp) for kp in key_params):
                            n += 1
                            res.analysed(h)
                            v = {k.arg: k.value for k in gc.keywords}.get("dropna")
                            if isinstance(v, ast.Constant) and v.value is False:
                                res.ok("C09-S2", f"{mname} -> {h.name}: groupby({unparse(gc.args[0])}) keeps the null-key group (dropna=False)")
                            else:
                                res.fail_at("C09-S2", h, f"groupby-drops-null-keys:{h.name}",
                                            f"`{unparse(gc)[:90]}` (reached from {mname} with the user's keys) does not pass the constant dropna=False: whenever the expression "
                                            f"is true pandas drops every row with a null in *any* key column — with keys (g, h) and rows null in one of them only, project "
                                            f"loses those groups and a windowed extend computes NaN for them", gc)
    res.expect_count("C09-S2", "pandas groupby sites on user keys", n, 2)
    # helpers of the executor that group by caller-supplied key lists (the sanity check that a project result is keyed by its group columns)
    for m in pb.methods.values():
        if m.name in ("_project_step", "_extend_step"):
            continue
        for c in ast.walk(m.node):
            if isinstance(c, ast.Call) and isinstance(c.func, ast.Attribute) and c.func.attr == "groupby" and c.args \
                    and isinstance(c.args[0], ast.Name) and c.args[0].id in m.params():
                kw = {k.arg: k.value for k in c.keywords}
                v = kw.get("dropna")
                res.analysed(m)
                if isinstance(v, ast.Constant) and v.value is False:
                    res.ok("C09-S2", f"{m.name}: groupby({c.args[0].id}) keeps null keys")
                else:
                    res.fail_at("C09-S2", m, f"groupby-drops-null-keys:{m.name}:{c.args[0].id}",
                                f"{m.qualname} groups by the caller's key list without dropna=False: with a null in every group's keys no group is left "
                                f"(project(group_by=['g1','g2']) with g1 all null raises 'max() iterable argument is empty' on Pandas; SQL and Polars return the groups)", c)
    res.assumptions.append("pandas.DataFrame.groupby drops rows with a null key unless dropna=False (API contract, pandas >= 1.1)")


# aggregation names pandas resolves only on a GroupBy object (Series.agg / DataFrame.agg raise AttributeError for them)
PANDAS_GROUPBY_ONLY_AGGREGATIONS = {"first", "last"}


def ungrouped_aggregation_names_rule(program, res, rule="C09-S2"):
    """an un-grouped project aggregates the plain frame: `frame[col].agg(<name>)`.  The names that reach that call include first / last (and
    any_value, mapped to first), which pandas knows only on a groupby — the un-grouped case needs its own computation for them"""
    pb = program.cls("pandas_base", "PandasModelBase")
    m = pb.methods.get("_project_step")
    init = pb.methods.get("__init__")
    mapped = {v.value for st in ast.walk(init.node) if isinstance(st, ast.Assign) and unparse(st.targets[0]) == "self.transform_op_map" and isinstance(st.value, ast.Dict)
              for v in st.value.values if isinstance(v, ast.Constant)}
    reachable = PANDAS_GROUPBY_ONLY_AGGREGATIONS | (mapped & PANDAS_GROUPBY_ONLY_AGGREGATIONS)
    g = cfgmod.build(m.node)
    n = 0
    for node in g.stmt_nodes(("stmt",)):
        for c in ast.walk(node.stmt):
            if isinstance(c, ast.Call) and isinstance(c.func, ast.Attribute) and c.func.attr == "agg" and c.args and isinstance(c.args[0], ast.Name) \
                    and isinstance(c.func.value, ast.Subscript) and not (isinstance(c.func.value.slice, ast.Constant)):
                n += 1
                excluded = any(lab is False and "group_by" in unparse(b.cond) and all(repr(nm) in unparse(b.cond) for nm in sorted(reachable)) for b, lab in g.lexical_guards(node))
                if excluded:
                    res.ok(rule, f"_project_step: `{unparse(c)}` is not reached un-grouped with {sorted(reachable)}")
                else:
                    res.fail_at(rule, m, "ungrouped-agg-with-groupby-only-name",
                                f"`{unparse(c)}` also runs when the project has no group_by, and the name may be one of {sorted(reachable)} (any_value is mapped to first), which "
                                f"pandas resolves only on a groupby: project({{'r': 'x.any_value()'}}) raises AttributeError on Pandas; Polars and SQL return the row", c)
    if n == 0:
        raise AnalysisError("Pandas _project_step: the aggregation of a user column (`frame[col].agg(name)`) was not found")


def sql_counts_rule(program, res, rule="C09-S3", dialects=(("SQLite", "SQLiteModel"), ("PostgreSQL", "PostgreSQLModel"))):
    """an un-grouped project returns one row also over no rows, and in it a count is 0 (Pandas, Polars).  In SQL only COUNT is 0 over no rows; SUM of
    anything is NULL there.  The templates of the row and value counts therefore have to be COUNT(…) (or say COALESCE(…, 0))"""
    from .. import sqlexpr
    import re as _re
    n = 0
    for mod, cls in dialects:
        d_ = sqlexpr.Dialect(program, mod, cls)
        for op in ("size", "_size", "count", "_count"):
            try:
                kind, info = d_.resolve(op)
            except AnalysisError:
                continue
            if kind != "formatter":
                texts = [str(info)]
            else:
                fn = d_.formatter_func(info)
                texts = [sqlexpr.render(t) for t in sqlexpr.fold_function(fn)] if fn is not None else []
            for text in texts:
                n += 1
                t = text.strip().upper()
                if t.startswith("COUNT") or t.startswith("COALESCE("):
                    res.ok(rule, f"{cls}: `{op}` is emitted as `{text.strip()[:40]}` (0 over no rows)")
                elif _re.match(r"^SUM\s*\(", t):
                    res.fail(rule, f"{mod}:{cls}", f"sql-count-is-sum:{op}",
                             f"{cls} emits `{op}` as `{text.strip()[:60]}`: a SUM over no rows is NULL, so select_rows('x > 100').project({{'n': '_size()'}}) returns NULL on SQL and 0 "
                             f"on Pandas and Polars (and a following select_rows('n == 0') drops the row)", f"data_algebra/{mod}.py", 0)
                else:
                    res.abstain(rule, f"{cls}: `{op}` template `{text.strip()[:40]}`", "neither COUNT nor SUM")
    res.expect_count(rule, "count templates examined", n, 6)


def _s3(program, res):
    sql_counts_rule(program, res)
    ungrouped_aggregation_names_rule(program, res)
    pm = program.method("polars_model", "PolarsModel", "_project_step", inherited=False)
    res.analysed(pm)
    g = cfgmod.build(pm.node)
    d = depsmod.Deps(g, pm.params())
    gcalls = []
    for node in g.stmt_nodes(("stmt",)):
        for c in ast.walk(node.stmt):
            if isinstance(c, ast.Call) and isinstance(c.func, ast.Attribute) and c.func.attr == "group_by" and c.args:
                gcalls.append((node, c))
    if len(gcalls) != 1:
        raise AnalysisError("PolarsModel._project_step: expected exactly one group_by call")
    node, c = gcalls[0]
    roots = d.roots_at(node, c.args[0])
    if depsmod.has_root(roots, "op.group_by"):
        res.ok("C09-S3", "Polars project groups by op.group_by (or a constant stand-in when empty)")
    else:
        res.fail_at("C09-S3", pm, "group-keys", f"group_by({unparse(c.args[0])}) does not derive from op.group_by", c)
    # zero-row special case guarded by emptiness of op.group_by and res.shape
    ok = False
    for n in g.stmt_nodes(("test",)):
        if "shape" in unparse(n.cond):
            outer = [unparse(b.cond) for b, lab in g.lexical_guards(n) if lab is True]
            if any("op.group_by" in o for o in outer):
                assigns = [s for s in ast.walk(n.stmt) if isinstance(s, ast.Assign) and isinstance(s.targets[0], ast.Name)]
                one_row = [dc for a in assigns if "DataFrame" in unparse(a.value) for dc in ast.walk(a.value)
                           if isinstance(dc, ast.DictComp) and isinstance(dc.value, ast.List) and len(dc.value.elts) == 1]
                if one_row:
                    ok = True
                    # a count over no rows is 0 (on Pandas, and COUNT in SQL), not missing: the row's cells have to depend on the operator
                    elt = one_row[0].value.elts[0]
                    names = {x.id for x in ast.walk(elt) if isinstance(x, ast.Name)}
                    count_aware = not (isinstance(elt, ast.Constant) and elt.value is None) and bool(names)
                    if count_aware:
                        res.ok("C09-S3", "Polars un-grouped project over no rows: counting operators give 0, the others a missing value")
                    else:
                        res.fail_at("C09-S3", pm, "empty-input-counts-are-null",
                                    "the one row restored for an empty un-grouped input is all None: _size(), count() and nunique() over no rows come back "
                                    "missing on Polars and 0 on Pandas (and in SQL): select_rows('n == 0') after it keeps the row on Pandas only", one_row[0])
    if ok:
        res.ok("C09-S3", "Polars un-grouped project restores one row when the aggregation returned no row")
    else:
        res.fail_at("C09-S3", pm, "empty-input-row", "the un-grouped Polars project has no zero-row special case: an empty input "
                    "yields 0 rows instead of exactly one")
    # polars group_by keeps null keys by default (maintain contract note)
    res.assumptions.append("polars group_by keeps null keys as a group (API contract)")


def project_shortcut_rule(program, res, rule="C09-S7"):
    """project_parsed_ answers with a ProjectNode (or hands the request past an un-limited order_rows).  Any other answer — "the rows are already unique on these keys,
    a select_columns will do" — is right only if the node below is keyed by a *subset* of the requested keys (rows unique on {a} are unique on {a, b}); a test that the
    requested keys are a subset of the node's keys has it backwards: project(group_by=[a, b]).project({}, group_by=[a]) would return one row per (a, b)"""
    mod = program.module("view_representations")
    pp = program.method("view_representations", "ViewRepresentation", "project_parsed_", inherited=False)
    res.analysed(pp)
    g = cfgmod.build(pp.node)
    n = 0
    for r in g.returns():
        v = r.stmt.value
        callee = dotted_name(v.func) if isinstance(v, ast.Call) else None
        if callee == "ProjectNode" or (isinstance(v, ast.Call) and isinstance(v.func, ast.Attribute) and v.func.attr == "project_parsed_"):
            n += 1
            continue
        n += 1
        # a shortcut: which uniqueness test guards it?
        verdict = None
        for b, lab in g.lexical_guards(r):
            for c in ast.walk(b.cond):
                if isinstance(c, ast.Call) and isinstance(c.func, ast.Attribute) and unparse(c.func.value) == "self":
                    for cls in mod.classes.values():
                        m = cls.methods.get(c.func.attr)
                        if m is None:
                            continue
                        ps = [p for p in m.params() if p != "self"]
                        for t in ast.walk(m.node):
                            sub = sup = None
                            if isinstance(t, ast.Call) and isinstance(t.func, ast.Attribute) and t.func.attr == "issubset" and t.args:
                                sub, sup = t.func.value, t.args[0]
                            elif isinstance(t, ast.Call) and isinstance(t.func, ast.Attribute) and t.func.attr == "issuperset" and t.args:
                                sup, sub = t.func.value, t.args[0]
                            elif isinstance(t, ast.Compare) and len(t.ops) == 1 and isinstance(t.ops[0], (ast.LtE, ast.Lt)):
                                sub, sup = t.left, t.comparators[0]
                            elif isinstance(t, ast.Compare) and len(t.ops) == 1 and isinstance(t.ops[0], (ast.GtE, ast.Gt)):
                                sup, sub = t.left, t.comparators[0]
                            if sub is None:
                                continue
                            sub_is_arg = any(isinstance(x, ast.Name) and x.id in ps for x in ast.walk(sub))
                            sup_is_own = "self." in unparse(sup)
                            sub_is_own = "self." in unparse(sub)
                            sup_is_arg = any(isinstance(x, ast.Name) and x.id in ps for x in ast.walk(sup))
                            if sub_is_arg and sup_is_own:
                                verdict = ("backwards", cls.name, m, t)
                            elif sub_is_own and sup_is_arg and verdict is None:
                                verdict = ("ok", cls.name, m, t)
        if verdict and verdict[0] == "backwards":
            res.fail_at(rule, pp, "project-shortcut-uniqueness-backwards",
                        f"project_parsed_ answers `{unparse(v)[:50]}` instead of a ProjectNode when {verdict[1]}.{verdict[2].name} says the rows are unique on the requested keys, and that "
                        f"test is `{unparse(verdict[3])[:60]}`: the requested keys inside the node's keys — rows unique on (a, b) are not unique on (a), so "
                        f"project(…, group_by=[a, b]).project({{}}, group_by=[a]) returns one row per (a, b)", r.stmt)
        elif verdict and verdict[0] == "ok":
            res.ok(rule, f"project_parsed_ replaces the project by `{unparse(v)[:40]}` only when the node's keys are among the requested keys")
        else:
            res.fail_at(rule, pp, "project-replaced-by-other-step",
                        f"project_parsed_ can answer `{unparse(v)[:60]}` instead of a ProjectNode, and no uniqueness test of the node below guards it", r.stmt)
    res.expect_count(rule, "returns of project_parsed_", n, 2)


def run(program, res, tier):
    res.rule("C09-S1", "SQL project: all group keys selected and grouped, never filtered by the pruning set; un-grouped project stays aggregating")
    res.rule("C09-S2", "Pandas groupby on user keys keeps the null-key group")
    res.rule("C09-S3", "Polars project groups by the declared keys; empty un-grouped input yields one row")
    _s1(program, res)
    # narrowing by select_columns / drop_columns must not empty the select list of an aggregating sub-step (shared with C08)
    from . import c08 as _c08
    from ..report import Only as _Only
    _c08._s4b_inplace_narrowing(program, _Only(res, {"C08-S4": "C09-S1"}))
    _s2(program, res)
    _s3(program, res)
    res.rule("C09-S4", "SQL windowed extend: the window's keys are the declared ones (no merge into the SELECT that recomputes them)")
    from ..report import Relabel
    from . import c04
    c04._s1c(program, Relabel(res, {"*": "C09-S4"}))
    res.rule("C09-S5", "an extend that contains an aggregate anywhere is windowed (SQL emits OVER, so N rows stay N rows)")
    from . import c26
    c26.windowed_classification_rules(program, res, rule="C09-S5")
    res.rule("C09-S7", "a project is answered by a ProjectNode, or by another step only under a uniqueness test in the right direction")
    project_shortcut_rule(program, res)
    res.rule("C09-S6", "two windowed extends share a node only when they have the same partition: each row's value stays computed over its own group")
    from . import c06
    c06.partition_merge_rule(program, Relabel(res, {"*": "C09-S6"}))
