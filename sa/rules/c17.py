"""C17 record transforms are invertible and compose as documented — structural clauses (narrow)."""
from __future__ import annotations

import ast

from .. import cfg as cfgmod
from .. import deps as depsmod
from ..index import AnalysisError, dotted_name, unparse

EXPLANATION = (
    "Only the algebraic wiring of RecordMap is decided; it is a necessary condition of the inversion and "
    "composition laws. S1 inverse() returns a RecordMap whose blocks_in is bound to self.blocks_out and blocks_out "
    "to self.blocks_in, under `assert self.strict`. S2 transform(): the conversion consuming blocks_in "
    "(blocks→rows) precedes the one consuming blocks_out (rows→blocks) on the CFG, each guarded by its own field "
    "being non-None and passing its own field, the second consumes the first's result and that result is returned; "
    "the SQL realisation in ConvertRecordsNode.to_near_sql_implementation_ has the same order and pairing. "
    "S3 compose(): the inner transform's receiver derives from `other`, the outer from `self` (documented "
    "(self.compose(other)).transform(d) == self.transform(other.transform(d))), the composed map's blocks_in comes "
    "from the inner map and blocks_out from the outer; act_on(RecordMap) composes self after its argument. "
    "S4 interface agreement: Pandas and Polars data models define both conversions with the abstract signature and "
    "return a value on every path. Not decided: that pivot/unpivot are mutually inverse on data and that Pandas "
    "and Polars compute the same tables."
)


def _s6_polars_stacking(program, res):
    """rows -> blocks stacks one frame per control-table row; the value cells of different rows name different columns, which may differ in
    dtype.  Pandas' concat finds a common dtype; Polars' how="vertical" demands identical schemas and raises — the stacking has to be relaxed."""
    m = program.method("polars_model", "PolarsModel", "rowrecs_to_blocks", inherited=False)
    res.analysed(m)
    stacks = [c for c in ast.walk(m.node) if isinstance(c, ast.Call) and dotted_name(c.func) == "pl.concat"
              and any(kw.arg == "how" and isinstance(kw.value, ast.Constant) and str(kw.value.value).startswith(("vertical", "diagonal")) for kw in c.keywords)]
    if not stacks:
        raise AnalysisError("PolarsModel.rowrecs_to_blocks: the vertical stacking (pl.concat(..., how='vertical…')) was not found")
    for c in stacks:
        how = next(kw.value.value for kw in c.keywords if kw.arg == "how")
        if how.endswith("_relaxed"):
            # relaxed stacking casts to the Polars supertype, which for a non-numeric mix rewrites values (Date -> day count, number / logical -> text):
            # a refusal of such mixes has to run before it on every path
            top = list(m.node.body)
            stack_stmt = next((st for st in top if any(x is c for x in ast.walk(st))), None)
            guard = None
            for st in top:
                if stack_stmt is not None and st.lineno < stack_stmt.lineno and isinstance(st, (ast.For, ast.If)):
                    for iff in ast.walk(st):
                        if isinstance(iff, ast.If) and any(isinstance(r_, ast.Raise) for b_ in iff.body for r_ in ast.walk(b_)):
                            # the refusal is decided from the column types of the frames to be stacked (their schema / dtypes), directly or
                            # through locals and local helpers of the method
                            text, frontier, seen_ = unparse(iff.test), {x.id for x in ast.walk(iff.test) if isinstance(x, ast.Name)}, set()
                            while frontier:
                                nm = frontier.pop()
                                if nm in seen_:
                                    continue
                                seen_.add(nm)
                                for a_ in ast.walk(m.node):
                                    if isinstance(a_, ast.Assign) and any(isinstance(t_, ast.Name) and t_.id == nm for t_ in a_.targets):
                                        text += " " + unparse(a_.value)
                                        frontier |= {x.id for x in ast.walk(a_.value) if isinstance(x, ast.Name)}
                                    elif isinstance(a_, ast.FunctionDef) and a_.name == nm and a_ is not m.node:
                                        text += " " + unparse(a_)
                            if (".schema" in text or ".dtype" in text) and ("is_numeric" in text or "base_type" in text or "is_temporal" in text):
                                guard = iff
            if stack_stmt is None:
                raise AnalysisError("PolarsModel.rowrecs_to_blocks: the stacking is not a top-level statement of the method any more")
            if guard is not None:
                res.ok("C17-S6", f"Polars rows -> blocks stacks the per-row frames with how='{how}' after refusing a mix of non-numeric types (numbers go to their common type, as in Pandas)")
            else:
                res.fail_at("C17-S6", m, "polars-relaxed-stacking-casts-values",
                            f"Polars rows -> blocks stacks the per-control-row frames with how='{how}' whatever their types: the Polars supertype of Int64 and Date is Int64, of a "
                            f"number or Boolean and String is String — an int column and a date column come back as [1, 18262, 2, 18628] (Pandas keeps the dates in an object "
                            f"column) and inverse() returns day counts / the texts 'true', 'false'", c)
        else:
            res.fail_at("C17-S6", m, "polars-strict-stacking",
                        f"Polars rows -> blocks stacks the per-control-row frames with how='{how}', which demands identical dtypes: a row record with an int column x and a float "
                        f"column y (control table v: x, y) is transformed by Pandas and refused by Polars (SchemaError: type Float64 is incompatible with expected type Int64)", c)


def _s7_block_alignment(program, res):
    """blocks -> rows pastes one frame per key level side by side, row i next to row i.  Equal row counts do not make row i the same record
    in every block: the record keys of each block have to be compared with the first block's before the paste (or the paste be a keyed join)"""
    from .. import cfg as cfgmod
    for (mod, cls) in (("pandas_base", "PandasModelBase"), ("polars_model", "PolarsModel")):
        m = program.method(mod, cls, "blocks_to_rowrecs", inherited=False)
        res.analysed(m)
        spec = [p for p in m.params() if p not in ("self", "data")][0]
        g = cfgmod.build(m.node)
        pastes = [n for n in g.stmt_nodes(("stmt",)) if any(isinstance(c, ast.Call) and (dotted_name(c.func) or "").endswith("concat")
                                                            and any((kw.arg == "axis" and unparse(kw.value) == "1") or (kw.arg == "how" and "horizontal" in unparse(kw.value))
                                                                    for kw in c.keywords) for c in ast.walk(n.stmt))]
        if not pastes:
            raise AnalysisError(f"{cls}.blocks_to_rowrecs: the column-wise paste of the blocks was not found")
        checks = []
        for t in g.stmt_nodes(("test",)):
            txt = unparse(t.cond)
            if f"{spec}.record_keys" in txt and any(w in txt for w in (".equals(", ".rows()", "frame_equal", "==", "!=")) \
                    and (isinstance(t.stmt, ast.Assert) or any(g.nodes[x].kind == "raise" for (s_, lab) in t.succ for x in (g.reachable_from(s_, avoid={t.id}) | {s_}))):
                checks.append(t)
        ok = bool(checks) and all(any(g.dominates(c.id, p_.id) or p_.id in g.reachable_from(c.id) for c in checks) for p_ in pastes)
        if ok:
            res.ok("C17-S7", f"{cls}.blocks_to_rowrecs compares every block's record keys with the first block's before pasting the blocks side by side")
        else:
            res.fail_at("C17-S7", m, "blocks-pasted-by-position",
                        f"{cls}.blocks_to_rowrecs sorts each block by the record keys and pastes them side by side after checking only the row *counts*: with ids {{1,2}} "
                        f"under key a and {{1,3}} under key b, record 2 silently receives record 3's b value and record 3 vanishes (SQL returns NULLs in the right places)",
                        pastes[0].stmt)


def record_sort_null_position(program, res, rule="C17-S9"):
    """the row order of a record conversion is the sort the implementation ends with: Pandas sort_values puts a missing key last (na_position
    default), so every Polars frame sort of the two conversions has to say nulls_last=True"""
    for mname in ("blocks_to_rowrecs", "rowrecs_to_blocks"):
        pdm = program.method("pandas_base", "PandasModelBase", mname, inherited=False)
        first = [k.value.value for c in ast.walk(pdm.node) if isinstance(c, ast.Call) and isinstance(c.func, ast.Attribute) and c.func.attr == "sort_values"
                 for k in c.keywords if k.arg == "na_position" and isinstance(k.value, ast.Constant)]
        want_last = not (first and first[0] == "first")
        m = program.method("polars_model", "PolarsModel", mname, inherited=False)
        res.analysed(m, pdm)
        sorts = [c for c in ast.walk(m.node) if isinstance(c, ast.Call) and isinstance(c.func, ast.Attribute) and c.func.attr == "sort"]
        if not sorts:
            raise AnalysisError(f"PolarsModel.{mname}: no frame sort found (two confirmed by hand)")
        for c in sorts:
            nl = {k.arg: k.value for k in c.keywords}.get("nulls_last")
            if isinstance(nl, ast.Constant) and nl.value is want_last:
                res.ok(rule, f"PolarsModel.{mname}: `{unparse(c)[:60]}` puts missing keys {'last' if want_last else 'first'}, as Pandas does")
            else:
                res.fail_at(rule, m, f"record-sort-null-position:{mname}",
                            f"`{unparse(c)[:80]}` leaves nulls_last at its default (missing keys first); the Pandas conversion sorts them last: record keys b,None,a come "
                            f"out a,b,None on Pandas and None,a,b on Polars", c)


def documented_parameters_used(program, res, rule="C17-S10"):
    """a documented parameter of a record-specification / record-map method that the body never reads cannot have the documented effect"""
    mod = program.module("cdata")
    n = 0
    for f in program.all_functions():
        if f.module is not mod or f.cls is None:
            continue
        params = [a.arg for a in f.node.args.args + f.node.args.kwonlyargs if a.arg not in ("self", "cls")]
        if not params:
            continue
        body = [st for st in f.node.body if not (isinstance(st, ast.Expr) and isinstance(st.value, ast.Constant))]
        if all(isinstance(st, (ast.Pass, ast.Raise)) for st in body):
            continue  # abstract
        names = {x.id for x in ast.walk(f.node) if isinstance(x, ast.Name)}
        doc = ast.get_docstring(f.node) or ""
        for p_ in params:
            n += 1
            if p_ in names:
                res.ok(rule, f"{f.where()}: parameter {p_} is read", nontrivial=False)
            elif f":param {p_}:" in doc:
                res.fail_at(rule, f, f"documented-parameter-ignored:{f.node.name}:{p_}",
                            f"{f.node.name} documents `{p_}` and never reads it: map_to_keyed_column(key_column_name='nm', value_column_name='val') produces the columns "
                            f"measure, value, and map_from_keyed_column refuses a table that has nm and val")
            else:
                res.ok(rule, f"{f.where()}: parameter {p_} is unused and undocumented", nontrivial=False)
    res.expect_count(rule, "parameters of cdata methods", n, 30)


def sql_clause_terms_rule(program, res, rule="C17-S11"):
    """the SQL generators of the record conversions: a GROUP BY / ORDER BY keyword is emitted only together with at least one term — a list built from
    the record keys alone is empty for a specification without record keys (which RecordSpecification accepts)"""
    for mname in ("blocks_to_row_recs_query_str_list_pair", "row_recs_to_blocks_query_str_list_pair"):
        m = program.method("sql_model", "SQLModel", mname, inherited=False)
        res.analysed(m)
        g = cfgmod.build(m.node)
        maybe_empty = set()
        for st in ast.walk(m.node):
            if isinstance(st, ast.Assign) and len(st.targets) == 1 and isinstance(st.targets[0], ast.Name) and isinstance(st.value, (ast.ListComp, ast.BinOp, ast.List)):
                srcs = [unparse(c.generators[0].iter) for c in ast.walk(st.value) if isinstance(c, ast.ListComp)]
                if srcs and all(x.endswith(".record_keys") for x in srcs) and not any(isinstance(e, ast.List) and e.elts for e in ast.walk(st.value)):
                    maybe_empty.add(st.targets[0].id)
        n = 0
        for node in g.stmt_nodes(("stmt", "return")):
            st = node.stmt
            kws = [c.value for c in ast.walk(st) if isinstance(c, ast.Constant) and isinstance(c.value, str) and c.value.strip().upper() in ("GROUP BY", "ORDER BY")]
            used = {x.id for x in ast.walk(st) if isinstance(x, ast.Name)} & maybe_empty
            if not kws or not used:
                continue
            n += 1
            guarded = any(lab is True and "len(" in unparse(b.cond) and (any(u in unparse(b.cond) for u in used) or "record_keys" in unparse(b.cond))
                          for b, lab in g.lexical_guards(node))
            if guarded:
                res.ok(rule, f"{mname}: {sorted(set(k.strip() for k in kws))} over {sorted(used)} is emitted only when there are terms")
            else:
                res.fail_at(rule, m, f"clause-without-terms:{mname}",
                            f"{mname} emits {sorted(set(k.strip() for k in kws))} followed by the terms of `{sorted(used)[0]}`, which is empty for a specification without record "
                            f"keys: the query ends in `GROUP BY ORDER BY` (syntax error) where Pandas and Polars return the single record", st)
        if n == 0:
            res.ok(rule, f"{mname}: every GROUP BY / ORDER BY has a term that does not depend on the record keys alone")
        # an aggregate select list without GROUP BY returns one row over no rows: the key-less case needs a HAVING (or an outer filter)
        aggregates = any(isinstance(c_, ast.Constant) and isinstance(c_.value, str) and "MAX(" in c_.value.upper() for c_ in ast.walk(m.node))
        if aggregates and maybe_empty:
            having = any(isinstance(c_, ast.Constant) and isinstance(c_.value, str) and "HAVING" in c_.value.upper() for c_ in ast.walk(m.node))
            if having:
                res.ok(rule, f"{mname}: without record keys the aggregate row is returned only when there are rows (HAVING)")
            else:
                res.fail_at(rule, m, f"keyless-aggregate-over-no-rows:{mname}",
                            f"{mname} aggregates (MAX(CASE …)) and groups by the record keys; without record keys there is no GROUP BY, and an aggregate over an empty table is "
                            f"one all-NULL row — Pandas and Polars return no record (a count above it: 1 vs 0)")


def polars_spec_order_rule(program, res, rule="C17-S5"):
    """the Polars twin of S5: blocks_to_rowrecs relabels each block's value columns by position (`s.columns = [...]`), so the frame has to be put
    in the order of the record specification first — `data.select(<specification columns>)`, on every path, not only when columns have to be dropped"""
    m = program.method("polars_model", "PolarsModel", "blocks_to_rowrecs", inherited=False)
    res.analysed(m)
    positional = [st for st in ast.walk(m.node) if isinstance(st, ast.Assign) and isinstance(st.targets[0], ast.Attribute) and st.targets[0].attr == "columns"]
    if not positional:
        res.ok(rule, "PolarsModel.blocks_to_rowrecs: no positional column relabelling", nontrivial=False)
        return
    frame = [p for p in m.params() if p != "self"][0]
    spec = "blocks_in"
    mod = program.module("polars_model")

    def always_selects(fn_node, frame_p, cols_p) -> bool:
        g_ = cfgmod.build(fn_node)
        d_ = depsmod.Deps(g_, [a.arg for a in fn_node.args.args])
        rets = g_.returns()
        if not rets:
            return False
        for r in rets:
            v = r.stmt.value
            if not (isinstance(v, ast.Call) and isinstance(v.func, ast.Attribute) and v.func.attr == "select" and unparse(v.func.value) == frame_p and v.args):
                return False
            roots = d_.roots_at(r, v.args[0])
            if not depsmod.has_root(roots, cols_p) or frame_p in roots:
                return False
        return True

    g = cfgmod.build(m.node)
    d = depsmod.Deps(g, m.params())
    verdict = None
    for st in m.node.body:  # unconditional statements of the method only
        if not (isinstance(st, ast.Assign) and len(st.targets) == 1 and unparse(st.targets[0]) == frame and isinstance(st.value, ast.Call)):
            continue
        c = st.value
        cols = None
        if isinstance(c.func, ast.Attribute) and c.func.attr == "select" and unparse(c.func.value) == frame and c.args:
            cols = c.args[0]
        else:
            h = None
            if isinstance(c.func, ast.Name) and c.func.id in mod.functions:
                h = mod.functions[c.func.id].node
                hargs = [a.arg for a in h.args.args]
            elif isinstance(c.func, ast.Attribute) and unparse(c.func.value) == "self":
                hm = program.cls("polars_model", "PolarsModel").find_method(c.func.attr)
                h = hm.node if hm is not None else None
                hargs = [a.arg for a in h.args.args if a.arg != "self"] if h is not None else []
            if h is not None and len(c.args) == 2 and unparse(c.args[0]) == frame and len(hargs) >= 2:
                if always_selects(h, hargs[0], hargs[1]):
                    cols = c.args[1]
                else:
                    verdict = ("helper", st, h.name)
                    continue
        if cols is not None:
            node = next((n for n in g.stmt_nodes(("stmt",)) if n.stmt is st), None)
            roots = d.roots_at(node, cols) if node is not None else set()
            if depsmod.has_root(roots, spec) and frame not in roots:
                verdict = ("ok", st, None)
                break
            verdict = ("input", st, None)
    if verdict and verdict[0] == "ok":
        res.ok(rule, f"PolarsModel.blocks_to_rowrecs: `{unparse(verdict[1])[:60]}` puts the columns in the order of the record specification on every path")
    elif verdict and verdict[0] == "helper":
        res.fail_at(rule, m, "polars-column-order-kept-from-input:blocks_to_rowrecs",
                    f"`{unparse(verdict[1])[:70]}`: {verdict[2]} does not select the named columns on every path (it can hand the frame back as it came), and blocks_to_rowrecs "
                    f"relabels value columns by position (`{unparse(positional[0])[:50]}`): a frame holding exactly the block columns in another order than the control table gets "
                    f"its values under the wrong names, silently; Pandas selects by name", verdict[1])
    else:
        res.fail_at(rule, m, "polars-column-order-from-input:blocks_to_rowrecs",
                    f"blocks_to_rowrecs relabels value columns by position (`{unparse(positional[0])[:50]}`) without first selecting the frame's columns in the order of the record specification")


def key_levels_from_control_table_rule(program, res, rule="C17-S7"):
    """rows -> blocks writes, into the key columns of each block row, the *key cells of the control table row* it was built from.  pandas' melt (and stack) fill their
    `var_name` column with the *names of the source columns* — the control table's value cells — which are the key levels only in the plain un-pivot layout where the key
    column repeats the value names; with key levels of their own (measure = len / wid over Sepal.Length / Sepal.Width) the key column comes out wrong and inverse() finds nothing"""
    m = program.method("pandas_base", "PandasModelBase", "rowrecs_to_blocks", inherited=False)
    res.analysed(m)
    bad = [c for c in ast.walk(m.node) if isinstance(c, ast.Call) and isinstance(c.func, ast.Attribute) and c.func.attr in ("melt", "stack", "wide_to_long")]
    keyed = [c for c in bad if c.func.attr != "melt" or any(k.arg == "var_name" and "control_table_keys" in unparse(k.value) for k in c.keywords)]
    if keyed:
        res.fail_at(rule, m, "key-levels-from-column-names:rowrecs_to_blocks",
                    f"`{unparse(keyed[0])[:70]}` fills the key column with the names of the melted columns, not with the control table's key cells: for a control table whose key levels "
                    f"differ from its value names the blocks carry the wrong keys, the round trip through inverse() returns nothing, and Pandas disagrees with Polars", keyed[0])
    else:
        res.ok(rule, "Pandas rows -> blocks takes the key cells of each block row from the control table (no melt / stack shortcut that names them after the source columns)", nontrivial=False)


def _selects_named_columns(helper) -> bool:
    """helper(self, df, columns): every return is `df.loc[:, cols]` with cols built from the `columns` parameter only"""
    ps = helper.params()
    if len(ps) < 3:
        return False
    frame, cols = ps[1], ps[2]
    g = cfgmod.build(helper.node)
    d = depsmod.Deps(g, ps)
    rets = g.returns()
    if not rets:
        return False
    for r in rets:
        v = r.stmt.value
        if not (isinstance(v, ast.Subscript) and isinstance(v.value, ast.Attribute) and v.value.attr == "loc"
                and unparse(v.value.value) == frame and isinstance(v.slice, ast.Tuple) and len(v.slice.elts) == 2):
            return False
        roots = d.roots_at(r, v.slice.elts[1])
        if not depsmod.has_root(roots, cols) or frame in roots:
            return False
    return True



def _s3_renaming_maps(program, res, rm):
    """compose names the composite's row columns by looking each probe *cell* up in a map built from the pushed-through probe: a map that is
    consulted with cells (`m.get(v, v)` with v drawn from a control table's column) has to be keyed by cells and valued by column names.  The
    other way round every look-up misses unless names and cells coincide, and the composite keeps the first map's column names."""
    comp = rm.methods.get("compose")
    if comp is None:
        raise AnalysisError("anchor vanished: RecordMap.compose")
    n_maps = 0
    for st in ast.walk(comp.node):
        if not (isinstance(st, ast.Assign) and isinstance(st.value, ast.DictComp) and isinstance(st.targets[0], ast.Name)):
            continue
        dc = st.value
        gen = dc.generators[0]
        if not (isinstance(gen.target, ast.Name) and unparse(gen.iter).endswith(".columns")):
            continue
        name = st.targets[0].id
        used_with_cells = [c for c in ast.walk(comp.node) if isinstance(c, ast.Call) and isinstance(c.func, ast.Attribute) and c.func.attr == "get"
                           and isinstance(c.func.value, ast.Name) and c.func.value.id == name and len(c.args) == 2 and unparse(c.args[0]) == unparse(c.args[1])]
        if not used_with_cells:
            continue
        n_maps += 1
        col = gen.target.id
        key_is_cell = any(isinstance(x, ast.Subscript) and any(isinstance(y, ast.Name) and y.id == col for y in ast.walk(x.slice)) for x in ast.walk(dc.key))
        val_is_name = isinstance(dc.value, ast.Name) and dc.value.id == col
        if key_is_cell and val_is_name:
            res.ok("C17-S3", f"compose: `{name}` maps each probe cell to the column it landed in and is consulted with cells")
        else:
            res.fail_at("C17-S3", comp, f"renaming-map-inverted:{name}",
                        f"`{unparse(st)[:90]}` is consulted with cells (`{unparse(used_with_cells[0])}`) but is keyed by `{unparse(dc.key)}`: no cell is found unless it equals a "
                        f"column name, so the composite keeps the first map's row-column names and `a >> b` / compose disagree with applying the two maps in turn", st)
    if n_maps == 0:
        res.ok("C17-S3", "compose: no cell-to-column renaming map is built from a dictionary comprehension")


def run(program, res, tier):
    res.rule("C17-S11", "SQL record conversions emit GROUP BY / ORDER BY only with terms")
    sql_clause_terms_rule(program, res)
    res.rule("C17-S10", "documented parameters of the record specification / record map methods are read")
    documented_parameters_used(program, res)
    res.rule("C17-S9", "Polars record conversions put missing record keys where Pandas puts them")
    record_sort_null_position(program, res)
    res.rule("C17-S1", "inverse swaps blocks_in and blocks_out under the strictness assertion")
    res.rule("C17-S2", "transform applies blocks_in first, then blocks_out, chaining the result (Python and SQL)")
    res.rule("C17-S3", "compose applies `other` first, then `self`")
    res.rule("C17-S4", "both data models implement the two conversions with the abstract signature")
    res.rule("C17-S5", "Pandas conversions relabel columns by position only after ordering them by the record specification")
    res.rule("C17-S7", "blocks are pasted by position only after their record keys were checked equal")
    _s7_block_alignment(program, res)
    res.rule("C17-S6", "Polars stacks value columns of different dtypes the way Pandas does")
    _s6_polars_stacking(program, res)
    polars_spec_order_rule(program, res)
    key_levels_from_control_table_rule(program, res)
    res.rule("C17-S12", "zero-row record conversions keep the column types")
    from . import c03 as _c03
    _c03.empty_frame_types_rule(program, res, rule="C17-S12", methods={"blocks_to_rowrecs", "rowrecs_to_blocks"})
    res.rule("C17-S8", "both data models return the record specification's declared columns in its order")
    from . import c08 as _c08
    from ..report import Relabel as _Relabel
    _c08._s7_record_transform_columns(program, _Relabel(res, {"*": "C17-S8"}))
    rm = program.cls("cdata", "RecordMap")
    _s3_renaming_maps(program, res, rm)
    # ---- S1
    inv = rm.methods.get("inverse")
    if inv is None:
        raise AnalysisError("anchor vanished: RecordMap.inverse")
    res.analysed(inv)
    calls = [c for c in ast.walk(inv.node) if isinstance(c, ast.Call) and dotted_name(c.func) == "RecordMap"]
    if len(calls) != 1:
        raise AnalysisError("RecordMap.inverse: expected one RecordMap(...) construction")
    kws = {kw.arg: unparse(kw.value) for kw in calls[0].keywords}
    if kws.get("blocks_in") == "self.blocks_out" and kws.get("blocks_out") == "self.blocks_in":
        res.ok("C17-S1", "inverse(): blocks_in=self.blocks_out, blocks_out=self.blocks_in")
    else:
        res.fail_at("C17-S1", inv, "inverse-not-swapped", f"inverse() builds RecordMap({kws}): the directions are not exchanged", calls[0])
    if any(isinstance(a, ast.Assert) and unparse(a.test) == "self.strict" for a in ast.walk(inv.node)):
        res.ok("C17-S1", "inverse() requires a strict map")
    else:
        res.fail_at("C17-S1", inv, "inverse-without-strict", "inverse() no longer asserts self.strict (non-strict maps are not invertible)")
    # ---- S2
    tr = rm.methods.get("transform")
    if tr is None:
        raise AnalysisError("anchor vanished: RecordMap.transform")
    res.analysed(tr)
    g = cfgmod.build(tr.node)
    sites = {}
    for n in g.stmt_nodes(("stmt",)):
        for c in ast.walk(n.stmt):
            if isinstance(c, ast.Call) and isinstance(c.func, ast.Attribute) and c.func.attr in ("blocks_to_rowrecs", "rowrecs_to_blocks"):
                sites[c.func.attr] = (n, c)
    if set(sites) != {"blocks_to_rowrecs", "rowrecs_to_blocks"}:
        raise AnalysisError("RecordMap.transform: the two conversions were not found")
    (n1, c1), (n2, c2) = sites["blocks_to_rowrecs"], sites["rowrecs_to_blocks"]
    order_ok = n2.id in g.reachable_from(n1.id) and n1.id not in g.reachable_from(n2.id)
    if order_ok:
        res.ok("C17-S2", "transform(): blocks→rows precedes rows→blocks")
    else:
        res.fail_at("C17-S2", tr, "order", "transform() applies rows→blocks (blocks_out) before blocks→rows (blocks_in): the record is "
                    "re-blocked before it was flattened", c2)
    for (name, (n, c), field, kwname) in (("blocks_to_rowrecs", sites["blocks_to_rowrecs"], "blocks_in", "blocks_in"),
                                          ("rowrecs_to_blocks", sites["rowrecs_to_blocks"], "blocks_out", "blocks_out")):
        kws = {kw.arg: unparse(kw.value) for kw in c.keywords}
        guards = [(unparse(b.cond), lab) for b, lab in g.lexical_guards(n)]
        if kws.get(kwname) == f"self.{field}":
            res.ok("C17-S2", f"{name} receives {kwname}=self.{field}")
        else:
            res.fail_at("C17-S2", tr, f"field:{name}", f"{name} is called with {kws}; expected {kwname}=self.{field}", c)
        if (f"self.{field} is not None", True) in guards:
            res.ok("C17-S2", f"{name} is applied exactly when self.{field} is not None")
        else:
            res.fail_at("C17-S2", tr, f"guard:{name}", f"{name} is guarded by {guards}, expected `self.{field} is not None`", c)
        # chaining: input is the running variable and result re-binds it
        st = n.stmt
        if isinstance(st, ast.Assign) and isinstance(st.targets[0], ast.Name) and c.args and isinstance(c.args[0], ast.Name) \
                and c.args[0].id == st.targets[0].id:
            res.ok("C17-S2", f"{name} consumes and re-binds the running table `{st.targets[0].id}`")
        else:
            res.fail_at("C17-S2", tr, f"chain:{name}", f"`{unparse(st)[:80]}` does not chain the running table", st)
    rets = g.returns()
    running = n1.stmt.targets[0].id if isinstance(n1.stmt, ast.Assign) and isinstance(n1.stmt.targets[0], ast.Name) else None
    if rets and all(isinstance(r.stmt.value, ast.Name) and r.stmt.value.id == running for r in rets):
        res.ok("C17-S2", "transform() returns the running table")
    else:
        res.fail_at("C17-S2", tr, "return", "transform() does not return the converted table")
    # SQL realisation
    cr = program.method("view_representations", "ConvertRecordsNode", "to_near_sql_implementation_", inherited=False)
    res.analysed(cr)
    g2 = cfgmod.build(cr.node)
    pairs = {}
    for n in g2.stmt_nodes(("stmt",)):
        for c in ast.walk(n.stmt):
            if isinstance(c, ast.Call) and isinstance(c.func, ast.Attribute) and c.func.attr in (
                    "blocks_to_row_recs_query_str_list_pair", "row_recs_to_blocks_query_str_list_pair"):
                kws = {kw.arg: unparse(kw.value) for kw in c.keywords}
                guards = [unparse(b.cond) for b, lab in g2.lexical_guards(n) if lab is True]
                pairs[c.func.attr] = (n, kws, guards)
    if len(pairs) != 2:
        raise AnalysisError("ConvertRecordsNode.to_near_sql_implementation_: the two record-conversion query builders were not found")
    a = pairs["blocks_to_row_recs_query_str_list_pair"]
    b = pairs["row_recs_to_blocks_query_str_list_pair"]
    if a[1].get("record_spec") == "self.record_map.blocks_in" and "self.record_map.blocks_in is not None" in a[2] \
            and b[1].get("record_spec") == "self.record_map.blocks_out" and "self.record_map.blocks_out is not None" in b[2]:
        res.ok("C17-S2", "SQL: blocks_in uses the blocks→rows query, blocks_out the rows→blocks query, each under its own guard")
    else:
        res.fail_at("C17-S2", cr, "sql-pairing", f"SQL record conversion pairs {a[1]} under {a[2]} and {b[1]} under {b[2]}")
    if b[0].id in g2.reachable_from(a[0].id) and a[0].id not in g2.reachable_from(b[0].id):
        res.ok("C17-S2", "SQL: blocks→rows step is built before (inside) the rows→blocks step")
    else:
        res.fail_at("C17-S2", cr, "sql-order", "SQL applies rows→blocks before blocks→rows")
    # ---- S3
    cp = rm.methods.get("compose")
    if cp is None:
        raise AnalysisError("anchor vanished: RecordMap.compose")
    res.analysed(cp)
    g3 = cfgmod.build(cp.node)
    d3 = depsmod.Deps(g3, cp.params())
    other = [p for p in cp.params() if p != "self"][0]
    nested = None
    for n in g3.stmt_nodes(("stmt",)):
        for c in ast.walk(n.stmt):
            if isinstance(c, ast.Call) and isinstance(c.func, ast.Attribute) and c.func.attr == "transform" and c.args \
                    and isinstance(c.args[0], ast.Call) and isinstance(c.args[0].func, ast.Attribute) and c.args[0].func.attr == "transform":
                nested = (n, c)
    if nested is None:
        raise AnalysisError("RecordMap.compose: outer.transform(inner.transform(x)) not found")
    n, c = nested
    outer = d3.roots_at(n, c.func.value)
    inner = d3.roots_at(n, c.args[0].func.value)
    if "self" in outer and other not in outer and other in inner and "self" not in inner:
        res.ok("C17-S3", f"compose(): self.transform({other}.transform(x))")
    else:
        res.fail_at("C17-S3", cp, "compose-order",
                    f"compose() evaluates `{unparse(c)[:70]}` (outer from {sorted(x for x in outer if not x.startswith('call:'))}, inner from "
                    f"{sorted(x for x in inner if not x.startswith('call:'))}); documented: self.transform({other}.transform(d))", c)
    # the example input comes from the inner map
    ex = [(nn, cc) for nn in g3.stmt_nodes(("stmt",)) for cc in ast.walk(nn.stmt)
          if isinstance(cc, ast.Call) and isinstance(cc.func, ast.Attribute) and cc.func.attr == "example_input"]
    if ex and other in d3.roots_at(ex[0][0], ex[0][1].func.value) and "self" not in d3.roots_at(ex[0][0], ex[0][1].func.value):
        res.ok("C17-S3", "compose(): the probe record is the inner map's example input")
    else:
        res.fail_at("C17-S3", cp, "compose-probe", "compose() does not probe with the inner map's example input")
    # composed specification: blocks_in control keys from the inner map, blocks_out from the outer one
    n_ctor = 0
    for nn in g3.stmt_nodes(("return",)):
        for cc in ast.walk(nn.stmt):
            if isinstance(cc, ast.Call) and dotted_name(cc.func) == "RecordSpecification":
                kws = {kw.arg: kw.value for kw in cc.keywords}
                ctk = kws.get("control_table_keys")
                if ctk is None:
                    continue
                n_ctor += 1
                roots = d3.roots_at(nn, ctk)
                txt = unparse(ctk)
                if txt.endswith("blocks_in.control_table_keys"):
                    if other in roots and "self" not in roots:
                        res.ok("C17-S3", "composed blocks_in takes its control keys from the inner map")
                    else:
                        res.fail_at("C17-S3", cp, "composed-blocks_in", f"composed blocks_in takes control keys from `{txt}`", cc)
                elif txt.endswith("blocks_out.control_table_keys"):
                    if "self" in roots and other not in roots:
                        res.ok("C17-S3", "composed blocks_out takes its control keys from the outer map")
                    else:
                        res.fail_at("C17-S3", cp, "composed-blocks_out", f"composed blocks_out takes control keys from `{txt}`", cc)
    if n_ctor < 4:
        raise AnalysisError("RecordMap.compose: composed specifications not found")
    # the probe's cell values end up as column names of the composite's row-record side (control_table=rsi / rso):
    # they must be the plain names, not the decorated ones example_input produces by default
    ei = rm.methods.get("example_input")
    probe_calls = [c for c in ast.walk(cp.node) if isinstance(c, ast.Call) and isinstance(c.func, ast.Attribute) and c.func.attr == "example_input"]
    if ei is not None and probe_calls:
        defaults = {a.arg: d for a, d in zip(ei.node.args.kwonlyargs, ei.node.args.kw_defaults) if d is not None}
        for pc in probe_calls:
            kws = {k.arg: k.value for k in pc.keywords}
            for nm in ("value_suffix", "record_key_suffix"):
                v = kws.get(nm, defaults.get(nm))
                if nm == "record_key_suffix":
                    continue  # record key columns are dropped from both control tables
                if isinstance(v, ast.Constant) and v.value == "":
                    res.ok("C17-S3", "compose(): the probe carries undecorated cell names (value_suffix='')")
                else:
                    res.fail_at("C17-S3", cp, "probe-decoration-leaks",
                                f"compose() probes with example_input({nm}={unparse(v) if v is not None else None}): the decorated cell values flow through both "
                                f"transforms into the control tables of the composite, so a composite with a row-record side expects columns named "
                                f"'<col>{getattr(v, 'value', '')}' and (self.compose(other)).transform(d) raises 'missing required columns' where the sequential application works", pc)
    # every composite that compose() returns is derived from the sequential application of the two maps to the probe
    # (the only place where the middle specifications s1.blocks_out / s2.blocks_in meet)
    n_ret = 0
    # *data* dependence: the names the second map gives its results exist only in the probe's result; a composite merely *chosen* by a
    # test on that result (control dependence) and assembled from the probe's input alone loses them
    d3c = depsmod.Deps(g3, cp.params())
    for nn in g3.stmt_nodes(("return",)):
        v = nn.stmt.value
        if v is None or (isinstance(v, ast.Constant) and v.value is None):
            continue
        if not any(isinstance(cc, ast.Call) and dotted_name(cc.func) == "RecordMap" for cc in ast.walk(v)):
            continue
        n_ret += 1
        roots = d3c.roots_at(nn, v)
        if "call:transform" in roots:
            res.ok("C17-S3", f"compose(): returned map (line {nn.stmt.lineno}) is derived from the probe pushed through both transforms")
        else:
            res.fail_at("C17-S3", cp, "composite-not-from-sequential-application",
                        f"compose() can return `{unparse(v)[:80]}`, assembled from {sorted(r for r in roots if not r.startswith('call:') and not r.startswith('g:'))[:4]} "
                        f"without the result of pushing a probe through `{other}` and then `self`: what the second map calls its outputs is only in that result, so "
                        f"the composite can differ from applying the two maps in sequence (blocks B -> blocks A, then blocks A' -> rows with A' naming A's cells the other "
                        f"way round: the composite returns x and y swapped)", v)
    if n_ret < 3:
        raise AnalysisError("RecordMap.compose: returned composites not found")
    # compose() documents (self.compose(other)).transform(d) == self.transform(other.transform(d)): it has to return something that transforms
    for nn in g3.stmt_nodes(("return",)):
        v = nn.stmt.value
        if v is None or (isinstance(v, ast.Constant) and v.value is None):
            res.fail_at("C17-S3", cp, "composite-is-None",
                        "compose() returns None when the composite maps row records to row records: s1 = A.map_from_rows(); s1.inverse().compose(s1) is None, so "
                        "(…).transform(rows) raises AttributeError and rows >> (s1 >> s1.inverse()) raises TypeError, while rows >> s1 >> s1.inverse() returns rows; the None is also "
                        "returned when the sequence is a column exchange, not the identity", nn.stmt)
    ao = rm.methods.get("act_on")
    res.analysed(ao)
    ok = False
    for st in ast.walk(ao.node):
        if isinstance(st, ast.If) and "isinstance(b, RecordMap)" in unparse(st.test):
            if any(isinstance(r, ast.Return) and unparse(r.value) == "self.compose(b)" for r in ast.walk(st)):
                ok = True
    if ok:
        res.ok("C17-S3", "act_on(RecordMap b) = self.compose(b): `b >> self` applies b first")
    else:
        res.fail_at("C17-S3", ao, "act_on-compose", "act_on(RecordMap) no longer returns self.compose(b)")
    # ---- S4
    dm = program.cls("data_model", "DataModel")
    for mname, kwname in (("blocks_to_rowrecs", "blocks_in"), ("rowrecs_to_blocks", "blocks_out")):
        ab = dm.methods.get(mname)
        if ab is None:
            raise AnalysisError(f"anchor vanished: DataModel.{mname}")
        for (mod, cname) in (("pandas_base", "PandasModelBase"), ("polars_model", "PolarsModel")):
            impl = program.cls(mod, cname).methods.get(mname)
            if impl is None:
                res.fail("C17-S4", f"{mod}:{cname}", f"missing:{mname}", f"{cname} does not implement {mname}", f"data_algebra/{mod}.py", 0)
                continue
            res.analysed(impl)
            a = impl.node.args
            pos = [x.arg for x in a.args]
            kwo = [x.arg for x in a.kwonlyargs]
            if pos[:2] == ["self", "data"] and kwname in kwo:
                res.ok("C17-S4", f"{cname}.{mname}(data, *, {kwname})")
            else:
                res.fail_at("C17-S4", impl, f"signature:{mname}", f"{cname}.{mname} has parameters {pos} / keyword-only {kwo}; the abstract "
                            f"signature is (self, data, *, {kwname})")
            gi = cfgmod.build(impl.node)
            falls = [nn for nn in gi.nodes if nn.kind == "falloff" and nn.id in gi.live_nodes() and nn.pred]
            bare = [r for r in gi.returns() if r.stmt.value is None]
            if falls or bare:
                res.fail_at("C17-S4", impl, f"returns-none:{mname}", f"{cname}.{mname} can finish without returning the converted table")
            else:
                res.ok("C17-S4", f"{cname}.{mname} returns a value on every path")

    # ---- S5 positional relabelling needs specification order
    for mname, spec in (("blocks_to_rowrecs", "blocks_in"), ("rowrecs_to_blocks", "blocks_out")):
        impl = program.method("pandas_base", "PandasModelBase", mname, inherited=False)
        positional = [st for st in ast.walk(impl.node) if isinstance(st, ast.Assign) and isinstance(st.targets[0], ast.Attribute)
                      and st.targets[0].attr == "columns"]
        if not positional:
            res.ok("C17-S5", f"PandasModelBase.{mname}: no positional column relabelling", nontrivial=False)
            continue
        gi = cfgmod.build(impl.node)
        di = depsmod.Deps(gi, impl.params())
        n_sel = 0
        for node in gi.stmt_nodes(("stmt",)):
            for sub in ast.walk(node.stmt):
                if isinstance(sub, ast.Subscript) and isinstance(sub.value, ast.Attribute) and sub.value.attr == "loc" \
                        and unparse(sub.value.value) == "data" and isinstance(sub.slice, ast.Tuple) and len(sub.slice.elts) == 2:
                    n_sel += 1
                    cols = sub.slice.elts[1]
                    roots = di.roots_at(node, cols)
                    if "data" in roots or depsmod.has_root(roots, "data.columns"):
                        res.fail_at("C17-S5", impl, f"column-order-from-input:{mname}",
                                    f"`{unparse(sub)[:90]}` takes the column order from the input frame; {mname} later relabels columns "
                                    f"by position (`{unparse(positional[0])[:50]}`), so a frame whose value columns are ordered "
                                    f"differently from the control table gets its values under the wrong names", sub)
                    elif depsmod.has_root(roots, spec):
                        res.ok("C17-S5", f"PandasModelBase.{mname}: `{unparse(sub)[:60]}` orders the columns by the record specification")
                    else:
                        res.abstain("C17-S5", f"{mname}: {unparse(sub)[:60]}", "column list of unknown origin")
                # the same selection made by a helper method: `data = self.helper(data, columns)` whose result is `df.loc[:, columns]`
                if isinstance(sub, ast.Call) and isinstance(sub.func, ast.Attribute) and unparse(sub.func.value) == "self" \
                        and len(sub.args) == 2 and unparse(sub.args[0]) == "data" and not sub.keywords:
                    helper = program.cls("pandas_base", "PandasModelBase").find_method(sub.func.attr)
                    if helper is None or not _selects_named_columns(helper):
                        continue
                    n_sel += 1
                    roots = di.roots_at(node, sub.args[1])
                    if "data" in roots or depsmod.has_root(roots, "data.columns"):
                        res.fail_at("C17-S5", impl, f"column-order-from-input:{mname}",
                                    f"`{unparse(sub)[:90]}` takes the column order from the input frame; {mname} later relabels columns "
                                    f"by position", sub)
                    elif depsmod.has_root(roots, spec):
                        res.ok("C17-S5", f"PandasModelBase.{mname}: `{unparse(sub)[:60]}` ({sub.func.attr} selects the named columns in the "
                                         f"order given) orders the columns by the record specification")
                    else:
                        res.abstain("C17-S5", f"{mname}: {unparse(sub)[:60]}", "column list of unknown origin")
        if n_sel == 0:
            res.fail_at("C17-S5", impl, f"no-column-ordering:{mname}",
                        f"{mname} relabels columns by position but never selects the input's columns in specification order")
